"""C13 - ill-formed LVS schemas and models are rejected; accepted models always terminate
(src/ndn/app_support/light_versec/{compiler,checker}.py, docs/src/lvs/binary-format.rst)."""
import copy
import json
import types
import lvs_common as L
import strict_tlv as S

from props import lvs_extract

PROP = 'C13'
TITLE = 'Ill-formed schemas and models are rejected; accepted models always terminate'
LEAN_TARGETS = ['NdnProofs.Props.C13', 'NdnProofs.Props.C13Keys', 'NdnProofs.Props.C13Load', 'NdnProofs.Props.C13Tables']
THEOREMS = [
    'Ndn.C13.sanity_iff_documented', 'Ndn.C13.modelError_iff_not_sane', 'Ndn.C13.load_rejects_bad_node_id', 'Ndn.C13.accepted_sane',
    'Ndn.C13.match_terminates', 'Ndn.C13.match_stable', 'Ndn.C13.check_terminates',
    'Ndn.C13.match_no_exception', 'Ndn.C13.sign_cycle_rejected',
    'Ndn.C13.compile_rejects_bad_reference', 'Ndn.C13.compile_rejects_reference_cycle', 'Ndn.C13.compile_rejects_bad_constraint',
    'Ndn.C13.compile_rejects_undefined_signer', 'Ndn.C13.compile_rejects_unknown_signer', 'Ndn.C13.compile_only_semantic_errors',
    'Ndn.C13.compile_ok_iff_static', 'Ndn.C13.compile_structure_sane', 'Ndn.C13.compile_accepted_iff', 'Ndn.C13.compile_sane',
    'Ndn.C13.compile_static_sane', 'Ndn.C13.compile_sane_partial',
    'Ndn.C13.signCycle_shapeSelfSigning', 'Ndn.C13.compile_sane_src', 'Ndn.C13.static_sane_src',
    'Ndn.C13.mergedSigner_counterexample', 'Ndn.C13.mergedSigner_selfSigning',
    # the exact criterion: merge-key paths (chains), keys of name patterns (text)
    'Ndn.C13.signCycle_iff_keySelfSigning', 'Ndn.C13.compile_accepted_iff_keys', 'Ndn.C13.signCycle_srcKeySelfSigning',
    'Ndn.C13.compile_sane_keys', 'Ndn.C13.static_sane_keys', 'Ndn.C13.compile_accepted_iff_src', 'Ndn.C13.static_accepted_iff_src',
    'Ndn.C13.srcKey_finer_than_shape', 'Ndn.C13.keySplit_example', 'Ndn.C13.prefixMerged_example',
    # Checker.load on every byte string (decoder model of C07/C08 composed with the loader model)
    'Ndn.C13.load_decode_errors', 'Ndn.C13.load_error_classes', 'Ndn.C13.load_accepted_terminates', 'Ndn.C13.load_total',
    'Ndn.C13.load_modelError_not_sane', 'Ndn.C13.lvsModel_schema_ok', 'Ndn.C13.bound_needs_maxPE',
    # generated tables (lean/NdnGen) pinned to the model
    'Ndn.C13.versions_table', 'Ndn.C13.binary_layout_table', 'Ndn.C13.binary_layout_is_shipped_schema',
    'Ndn.C13.loader_rules_table', 'Ndn.C13.compiler_errors_table',
]
PARTIAL = {
    'Ndn.C13.compile_sane_partial':
        'the compiler passes (_sort_rule_references/top_order, _gen_pattern_numbers, _replicate_rules/_fresh_temp_tags, '
        '_generate_node/pattern_movement, _fix_signing_references) ARE modelled in Lean (Ndn.Lvs.compile) and tied to compile_lvs on '
        'every run by comparing node pools and verdicts on every generated / error-injected schema. Proved about the compiler model: '
        'it raises exactly on the schemas with a static error - a reference to an undefined or temporary rule, cyclic rule references, '
        'a constraint on / option or argument naming a pattern written nowhere, a constraint on a temporary pattern the rule does not '
        'write, a temporary pattern used as constraint value, an undefined signer - and then always SemanticError (compile_ok_iff_static, '
        'compile_rejects_*, compile_only_semantic_errors: no KeyError escapes, the recursion is bounded); every model emitted for an AST '
        'the parser can produce is structurally sane (never LvsModelError) and is accepted by the loader iff its reachable nodes do not '
        'sign each other in a cycle, else SemanticError (compile_structure_sane, compile_accepted_iff, compile_sane, compile_static_sane; '
        'this includes the converse of sign_cycle_rejected: acyclic => top_order accepts). The node-level signing cycle is read back at '
        'the level of the text: all rule chains that end at one node of the compiled tree have one shape (length, and the same component '
        'values at the same positions), chains = expansions of the definitions of the text (C11: chains_are_expansions), so a signing cycle '
        'among nodes is a cycle among shapes of name patterns (signCycle_shapeSelfSigning), and a schema without static error in which no '
        'shape of a name pattern is, directly or transitively, the shape of one of its own signers compiles to a model the loader accepts '
        '(compile_sane_src, static_sane_src) - exactly the demand this plugin\'s oracle makes (Spec.may_self_sign is that criterion). The '
        'honest negative is proved too: an acyclic RULE-level signing graph is not enough - #a: "k"/x <= #b, #b: "k"/x has no static error '
        'and no rule-level cycle, compiles, and the loader refuses the model with SemanticError, because both rules end at one node, which '
        'lists itself as signer (mergedSigner_counterexample, by kernel evaluation of the compiler and loader models; the real compile_lvs / '
        'Checker do the same: corpus case merged-signer is replayed on every run). The EXACT criterion is proved (Props/C13Keys.lean): '
        'every node of the compiled tree has a merge-key path (component values; for a pattern the string pattern_movement returns: its '
        'number and, where it is met first, the constraints on it), every chain ends at the node of its key path and chains with '
        'different key paths end at different nodes (genNode_keys), every node is reachable, so the loader refuses the compiled model '
        'with SemanticError iff the key paths of the chains sign each other in a cycle (signCycle_iff_keySelfSigning, '
        'compile_accepted_iff_keys; chains = expansions of the definitions, C11 chains_are_expansions). Read at the level of the text '
        '(Flat.keys: component values, a named pattern with the constraints on it where it is met first, a temporary pattern with its '
        'constraints; "name pattern" = expansion of a definition; two name patterns are the same when their keys are equal): a node-level '
        'cycle is a cycle among keys of name patterns for EVERY schema (signCycle_srcKeySelfSigning, compile_sane_keys, static_sane_keys; '
        'strictly finer than the shape criterion: srcKey_finer_than_shape, keySplit_example - #a: "k"/x <= #b, #b: "k"/y is accepted), and '
        'for every schema that writes NO temporary pattern the criterion is exact: accepted iff no name pattern is its own signer, else '
        'SemanticError (compile_accepted_iff_src, static_accepted_iff_src; prefixMerged_example: #a: "k"/x, #b: "k"/x/"a" <= #a, '
        '#c: "k"/x <= #b is refused through the node #a and #c share). This plugin\'s oracle demands acceptance whenever an independent '
        'Python transcription of that key criterion (coarsened: constraints as multisets, temporaries without identity) finds no cycle. '
        'NOT proved: an exact criterion in terms of the text alone for schemas WITH temporary patterns - the compiler also compares '
        'the number it gave to a temporary occurrence (two chains share it only when both inline the same chain of the same rule), '
        'which the source semantics of lvs.rst has no name for; for such schemas the exact criterion is the chain-level one and the '
        'text-level one is necessary only. Loader on bytes (Props/C13Load.lean): Checker.load = LvsModel.parse (the decoder model of '
        'C07/C08 over the LvsModel schema regenerated from binary.py) then _sanity_check; for EVERY byte string it raises a documented '
        'decoding error, or LvsModelError / SemanticError (TypeError exactly when the bytes carry no StartId while version and node ids '
        'are in order - not a documented sanity rule, reported as observation), or returns a model on which every search ends within '
        'stepBound(maxPE m, |name|) (load_total). The bound is in the largest number of pattern edges of a node, not in the number of '
        'nodes: a sane model may list the same destination on several edges (bound_needs_maxPE: two nodes, three edges, accepted, three '
        'matches), so no bound in (nodes, name length) alone exists; a model '
        'without NamedPatternCnt loads, and its searches are those of any count cut at the first TypeError (not modelled).',
}
TRUSTED = [
    'C13: single-field corruptions enter the Lean loader model after LvsModel.parse (as a token written by the harness); byte strings '
    'enter it as bytes (Ndn.Lvs.loadBytes = the C07/C08 decoder model over Gen.C08.binary_LvsModel + toRaw + sanityCheck). A model '
    'without StartId is TypeError in both; on a model without NamedPatternCnt only the load verdict is compared (the search raises '
    'TypeError at its first binding in Python, which the matcher model does not represent)',
    'C13: Python\'s recursion limit in _sanity_check.dfs is not modelled (the Lean dfs has fuel nodes+1, proved sufficient '
    'for every sane model)',
    'C13: lark (text -> AST) and the pretty-printer of the schema generator; the Lean compiler model receives the AST the '
    'generator pretty-prints; Schema.WF (literals are non-empty encoded components, user functions have a name) is what the '
    'grammar guarantees and is a hypothesis of the compile_* sanity theorems',
    "C13: lean/NdnGen/C13.lean is regenerated on every run by harness/props/lvs_extract.py (live constants of the imported modules; control-flow facts as normalised source text, ast.unparse) and pinned to the model by the *_table theorems (NdnProofs/Props/C13Tables.lean, closed by evaluation): VERSION / MIN_SUPPORTED_VERSION (the bounds of versionOK and the version the compiler model stamps), binary.TypeNumber and the field lists of the binary model classes (= the layout the Lean structures follow, and token for token the LvsModel schema shipped by C08's generated table), the ordered list of (exception class, guard, message) of every raise of _sanity_check, top_order and the Compiler methods, the except tuple of _gen_pattern_numbers, the exception classes the modules define. Trusted: the extractor; a pinned TEXT (a test, a call) ties the model to the source only as far as the doc comment of the theorem reads it correctly - the behaviour itself is still tied by the correspondence run",
]
RULE = ('five streams. (e) STATE CARRIED BETWEEN USES IN ONE PROCESS - sessions: a generated schema (40%: plus a definition that writes one pattern, mostly a temporary one, two or three times in its name and constrains it) compiled again at once / three times / after unrelated texts / after a text that raised (one static error injected: every pass is left half-way) / after a text the grammar refuses / after a nearby text over the same identifiers; an ill-formed text compiled after the well-formed text it was made from, after a donor text that WRITES what it lacks (rule #nope, patterns nopat, _nope ...), or twice; every compilation of a session is judged on its own by the schema oracle, every compilation of the text of the case is compared with the Lean compiler + loader; in a session two Checker objects are built from ONE model object and ONE saved bytes object is loaded twice. reuse (20% of the model cases, 25% of the bytes cases): from the same bytes object a second and third Checker (another / the same user-function table), one from the model object of the first, searches abandoned at their first result, then every search on the first checker again - every load and search judged on its own and (same table) compared with the Lean loader + matcher; Checker(model) twice from one corrupted object. A session / reuse case that fails in this process is run again in a fresh interpreter and THAT observation is reported (replays are self-contained). (c) merge motifs: schemas made to share nodes - several rules over one base name pattern (identical, another '
        'named pattern or another / permuted / additional constraint at one place, continued below the shared node, or inlining one '
        'shared rule so that temporary patterns keep their number) with signers along a rule-level DAG, so that every refusal is a merged '
        'signing cycle; judged by the key criterion (acceptance demanded when no name pattern is its own signer by keys) and compared '
        'with the Lean compiler + loader; corpus: merged-signer, key-split, prefix-merged. (d) bytes: encoded models damaged below the '
        'level of elements (bytes replaced / inserted / removed, cut anywhere), an element of the format or an unknown one spliced in at '
        'any depth, header elements reordered or dropped, element soup - loaded with Checker.load and with the Lean loadBytes '
        '(exception class, then matches and checks). '
        '(a) schemas: generated well-formed schemas (references incl. the same rule twice, redefinitions, '
        'temporary rules/patterns, multi-set constraints, user functions, signing DAGs) and the same schemas with ONE static '
        'error injected (undefined/temporary rule referenced in a name or as signer, reference cycle, signing cycle, '
        'constraint on / option or argument naming a pattern that occurs nowhere, temporary pattern as option/argument) at a '
        'chosen position (thorough: every position; quick: additionally two kinds per schema placed in a definition of a redefined rule '
        'that is not its last one; three-rule reference / signing cycles; a constraint on a temporary that only another rule writes), '
        'plus 70 more well-formed schemas for the positive clause; (b) models: every kind of single-field corruption of the compiled '
        'binary model (version, start id, pattern count, node id, parent incl. root and root children, edge destination, '
        'edge value/tag, dropped edges/constraints/options/nodes, option shape - all 8 presence combinations of (Value, Tag, UserFn) on a '
        'ConstraintOption (quick: one option per model, thorough: every option), each also with an empty / absent FnId -, user-function id, signer lists, swapped '
        'nodes, an extra unreachable node, versions around the one version binary-format.rst describes - the oracle takes the '
        'recognised version from the document, not from binary.py; quick: one structural corruption in every kind of node: root, leaf, '
        'only pattern edges, only value edges, both), re-encoded with the real encoder - then optionally truncated at an element '
        'boundary / cut / extended by unknown, critical, duplicate or empty elements, or with ONE element of the saved bytes deleted / written '
        'twice (every Type path of binary-format.rst: first, last and one more occurrence; Version, StartId, NamedPatternCnt and the first '
        'NodeId are deleted from every model) - and loaded with Checker.load, then step-capped match/check on names. The documented sanity '
        'rules are judged on an independent reading of the very bytes given to Checker.load, by a reader written from the layout and TLV '
        'numbers of binary-format.rst (an absent element is absent, whatever default the field classes of binary.py declare); only bytes '
        'that are not in the documented layout are judged on what LvsModel.parse found. Every field-level corruption is also handed, as an '
        'object, to the other entry point Checker(model, fns) and judged by the same rules. '
        'non-trivial = an injected error, or a corrupted model; distinct = distinct cases. '
        'Model side of stream (a): schema AST -> Lean compiler model -> Lean loader model; compared with the real compile_lvs / Checker: '
        'SemanticError or node pool (+ symbol table), and the loader verdict')

ERR_KINDS = ['undef-rule-ref', 'temp-rule-ref', 'ref-cycle', 'sign-cycle', 'undef-signer', 'temp-signer',
             'cons-unknown-pat', 'cons-unknown-temp', 'opt-unknown-pat', 'opt-temp-pat']


# --------------------------------------------------------------------------------------- injection
def injections(schema):
    """all (kind, mutated schema) with exactly one static error injected"""
    rules = schema['rules']
    out = []

    def put(kind, i, r2, extra=None):
        rs = rules[:i] + [r2] + rules[i + 1:] + (extra or [])
        out.append((kind, {'rules': rs}, i))
    real = [r['id'] for r in rules if not L.is_temp(r['id'])]
    for i, r in enumerate(rules):
        for k in range(len(r['name']) + 1):
            nm = lambda c: r['name'][:k] + [c] + r['name'][k:]          # noqa
            put('undef-rule-ref', i, dict(r, name=nm(['ref', '#nope'])))
            put('temp-rule-ref', i, dict(r, name=nm(['ref', '#_tmp'])), [{'id': '#_tmp', 'name': [['lit', 'a']], 'cons': [], 'sign': []}])
            if not L.is_temp(r['id']):
                put('ref-cycle', i, dict(r, name=nm(['ref', r['id']])))
        put('undef-signer', i, dict(r, sign=r['sign'] + ['#nope']))
        put('temp-signer', i, dict(r, sign=r['sign'] + ['#_tmp']), [{'id': '#_tmp', 'name': [['lit', 'a']], 'cons': [], 'sign': []}])
        if not L.is_temp(r['id']):
            put('sign-cycle', i, dict(r, sign=r['sign'] + [r['id']]))
        pats = [c[1] for c in r['name'] if c[0] == 'pat' and not L.is_temp(c[1])]
        base_sets = r['cons'] or [[]]
        for si in range(len(base_sets)):
            def with_term(t):
                cs = [list(x) for x in base_sets]
                cs[si] = cs[si] + [t]
                return dict(r, cons=cs)
            put('cons-unknown-pat', i, with_term({'pat': 'nopat', 'opts': [['lit', 'a']]}))
            put('cons-unknown-temp', i, with_term({'pat': '_nope', 'opts': [['lit', 'a']]}))
            # a temporary pattern that ANOTHER rule writes (temporaries are local to the definition that writes them)
            put('cons-unknown-temp', i, with_term({'pat': '_q', 'opts': [['lit', 'a']]}),
                [{'id': '#xq', 'name': [['pat', '_q'], ['lit', 'a']], 'cons': [[{'pat': '_q', 'opts': [['lit', 'a']]}]], 'sign': []}])
            if pats:
                put('opt-unknown-pat', i, with_term({'pat': pats[0], 'opts': [['lit', 'a'], ['pat', 'nopat']]}))
                put('opt-unknown-pat', i, with_term({'pat': pats[0], 'opts': [['fn', '$eq', [['pat', 'nopat']]]]}))
                put('opt-temp-pat', i, with_term({'pat': pats[0], 'opts': [['pat', '_t']]}))
                put('opt-temp-pat', i, with_term({'pat': pats[0], 'opts': [['fn', '$eq', [['lit', 'a'], ['pat', '_']]]]}))
    # two-rule cycles
    for i, r in enumerate(rules):
        for j, q in enumerate(rules):
            if i != j and not L.is_temp(r['id']) and not L.is_temp(q['id']) and r['id'] != q['id']:
                if q['id'] in r['sign']:
                    put('sign-cycle', j, dict(q, sign=q['sign'] + [r['id']]))
                if ['ref', q['id']] in r['name']:
                    put('ref-cycle', j, dict(q, name=q['name'] + [['ref', r['id']]]))
                # three-rule cycles: r -> q -> t (-> r)
                for k, t in enumerate(rules):
                    if k in (i, j) or L.is_temp(t['id']) or t['id'] in (r['id'], q['id']):
                        continue
                    if q['id'] in r['sign'] and t['id'] in q['sign']:
                        put('sign-cycle', k, dict(t, sign=t['sign'] + [r['id']]))
                    if ['ref', q['id']] in r['name'] and ['ref', t['id']] in q['name']:
                        put('ref-cycle', k, dict(t, name=[['ref', r['id']]] + t['name']))
    return out


def redefined_targets(schema):
    """indices of the definitions of rules defined more than once that are not the last definition in the text"""
    ids = [r['id'] for r in schema['rules']]
    return [i for i, rid in enumerate(ids) if not L.is_temp(rid) and rid in ids[i + 1:]]


# ------------------------------------------------------------------------------- model corruption
DOC_VERSION = 0x00011000        # docs/src/lvs/binary-format.rst: "This page describes version ``0x00011000``"


_doc_version = []


def doc_version():
    """the one version the format document describes ("the application should only accept the model if the version
    number is recognized"): read from the document, never from binary.py"""
    if not _doc_version:
        import os, re, lib
        _doc_version.append(DOC_VERSION)
        for root in ('/repo', lib.REPO):
            try:
                m = re.search(r'describes version ``(0x[0-9a-fA-F]+)``', open(os.path.join(root, 'docs/src/lvs/binary-format.rst')).read())
                if m:
                    _doc_version[0] = int(m.group(1), 16)
            except OSError:
                pass
    return _doc_version[0]


def node_class(m, i):
    nd = m.nodes[i]
    if i == m.start_id:
        return 'root'
    if not nd.v_edges and not nd.p_edges:
        return 'leaf'
    return 'ponly' if not nd.v_edges else 'vonly' if not nd.p_edges else 'mixed'


def mutations(m):
    """descriptors of single-field corruptions of a compiled model"""
    n = len(m.nodes)
    dv = doc_version()
    muts = [['version', None], ['version', m.version + 1], ['version', m.version - 1], ['version', 0],
            ['version', dv + 1], ['version', dv - 1], ['version', dv - 0x1000], ['version', dv + 0x1000], ['version', 0xffffffff],
            ['add_node', n, None], ['add_node', n, 0], ['add_node', 0, None], ['add_node', None, None], ['add_node', n + 1, n],
            ['wire', 'drop_last', 1], ['wire', 'drop_last', len(m.symbols or []) + 1], ['wire', 'cut', 1], ['wire', 'cut', 3],
            ['wire', 'append', 'fd03e800'], ['wire', 'append', '6a00'], ['wire', 'append', '6b00'], ['wire', 'append', '6300'],
            ['wire', 'append', '610400011000'], ['wire', 'append', '63'],
            ['start', n], ['start', n + 3], ['cnt', 0], ['cnt', m.named_pattern_cnt + 5], ['start', None], ['cnt', None]]
    if n > 1:
        muts += [['start', 1], ['start', n - 1], ['drop_node', n - 1], ['drop_node', 0], ['swap_nodes', 0, n - 1]]
        if n > 2:
            muts += [['swap_nodes', 1, 2], ['drop_node', 1]]
    for i, nd in enumerate(m.nodes):
        others = sorted({0, 1, n - 1, (i + 1) % n, i, n, n + 2} - {nd.id})
        for v in [None] + others[:4]:
            muts.append(['node', i, 'id', v])
        pars = sorted({0, 1, i, n - 1, (nd.parent or 0) + 1, n + 1} - {nd.parent})
        for v in ([None] if nd.parent is not None else []) + pars[:4]:
            muts.append(['node', i, 'parent', v])
        if nd.rule_name:
            muts.append(['node', i, 'rule_drop'])
        for j, k in enumerate(nd.sign_cons):
            for v in sorted({0, i, n, n + 7, (k + 1) % n} - {k})[:4]:
                muts.append(['node', i, 'sign', j, v])
            muts.append(['node', i, 'sign_drop', j])
        muts.append(['node', i, 'sign_add', n])
        muts.append(['node', i, 'sign_add', i])
        for j, ve in enumerate(nd.v_edges):
            for v in [None] + sorted({0, i, n, n + 1, (ve.dest + 1) % n} - {ve.dest})[:4]:
                muts.append(['ve', i, j, 'dest', v])
            muts += [['ve', i, j, 'value', None], ['ve', i, j, 'value', ''], ['ve', i, j, 'value', '08017a'], ['ve', i, j, 'drop']]
        for j, pe in enumerate(nd.p_edges):
            for v in [None] + sorted({0, i, n, n + 1, (pe.dest + 1) % n} - {pe.dest})[:4]:
                muts.append(['pe', i, j, 'dest', v])
            for v in [None, 1, pe.tag + 1, m.named_pattern_cnt + 9]:
                if v != pe.tag:
                    muts.append(['pe', i, j, 'tag', v])
            muts.append(['pe', i, j, 'drop'])
            for k, cl in enumerate(pe.cons_sets):
                muts.append(['pe', i, j, 'cons_drop', k])
                for q, op in enumerate(cl.options):
                    muts += [['opt', i, j, k, q, 'clear'], ['opt', i, j, k, q, 'drop']]
                    # every presence combination of (Value, Tag, UserFn) - "exactly one of Value, Tag and UserFn is set" -
                    # with a named user function, and with one whose FnId is empty / absent
                    for combo in ([v, t, f] for v in (0, 1) for t in (0, 1) for f in (0, 1)):
                        muts.append(['opt', i, j, k, q, 'shape', combo, 'id'])
                        if combo[2]:
                            muts.append(['opt', i, j, k, q, 'shape', combo, 'emptyid'])
                            muts.append(['opt', i, j, k, q, 'shape', combo, 'noid'])
                    if op.tag is None:
                        muts.append(['opt', i, j, k, q, 'add_tag', 1])
                    if op.value is None:
                        muts.append(['opt', i, j, k, q, 'add_value', '080161'])
                    if op.fn is not None:
                        muts += [['opt', i, j, k, q, 'fnid', None], ['opt', i, j, k, q, 'fnid', ''],
                                 ['opt', i, j, k, q, 'fnid', '$undefined']]
                        for a in range(len(op.fn.args)):
                            muts += [['opt', i, j, k, q, 'arg_tag', a, m.named_pattern_cnt + 3], ['opt', i, j, k, q, 'arg_clear', a]]
    seen, uniq = set(), []
    for mu in muts:
        if repr(mu) not in seen:
            seen.add(repr(mu))
            uniq.append(mu)
    return uniq


def apply_mutation(m, mut, bny):
    m = copy.deepcopy(m)
    k = mut[0]
    if k == 'version':
        m.version = mut[1]
    elif k == 'start':
        m.start_id = mut[1]
    elif k == 'cnt':
        m.named_pattern_cnt = mut[1]
    elif k == 'drop_node':
        del m.nodes[mut[1]]
    elif k == 'add_node':
        nd = bny.Node()
        nd.id, nd.parent = mut[1], mut[2]
        nd.rule_name, nd.v_edges, nd.p_edges, nd.sign_cons = ['#extra'], [], [], []
        m.nodes = list(m.nodes) + [nd]
    elif k == 'swap_nodes':
        m.nodes[mut[1]], m.nodes[mut[2]] = m.nodes[mut[2]], m.nodes[mut[1]]
    elif k == 'node':
        nd = m.nodes[mut[1]]
        if mut[2] == 'id':
            nd.id = mut[3]
        elif mut[2] == 'parent':
            nd.parent = mut[3]
        elif mut[2] == 'rule_drop':
            nd.rule_name = []
        elif mut[2] == 'sign':
            nd.sign_cons[mut[3]] = mut[4]
        elif mut[2] == 'sign_drop':
            del nd.sign_cons[mut[3]]
        elif mut[2] == 'sign_add':
            nd.sign_cons = list(nd.sign_cons) + [mut[3]]
    elif k == 've':
        nd = m.nodes[mut[1]]
        if mut[3] == 'drop':
            del nd.v_edges[mut[2]]
        elif mut[3] == 'dest':
            nd.v_edges[mut[2]].dest = mut[4]
        else:
            nd.v_edges[mut[2]].value = None if mut[4] is None else bytes.fromhex(mut[4])
    elif k == 'pe':
        nd = m.nodes[mut[1]]
        if mut[3] == 'drop':
            del nd.p_edges[mut[2]]
        elif mut[3] == 'dest':
            nd.p_edges[mut[2]].dest = mut[4]
        elif mut[3] == 'tag':
            nd.p_edges[mut[2]].tag = mut[4]
        else:
            del nd.p_edges[mut[2]].cons_sets[mut[4]]
    elif k == 'opt':
        cl = m.nodes[mut[1]].p_edges[mut[2]].cons_sets[mut[3]]
        op = cl.options[mut[4]]
        what = mut[5]
        if what == 'clear':
            op.value = op.tag = op.fn = None
        elif what == 'drop':
            del cl.options[mut[4]]
        elif what == 'add_tag':
            op.tag = mut[6]
        elif what == 'add_value':
            op.value = bytes.fromhex(mut[6])
        elif what == 'shape':
            v, t, f = mut[6]
            op.value = (op.value if op.value else bytes.fromhex('080161')) if v else None
            op.tag = (op.tag if op.tag is not None else 1) if t else None
            if f:
                if op.fn is None:
                    op.fn = bny.UserFnCall()
                    op.fn.fn_id, op.fn.args = '$eq', []
                if mut[7] != 'id':
                    op.fn.fn_id = '' if mut[7] == 'emptyid' else None
                elif not op.fn.fn_id:
                    op.fn.fn_id = '$eq'
            else:
                op.fn = None
        elif what == 'fnid':
            op.fn.fn_id = mut[6]
        elif what == 'arg_tag':
            op.fn.args[mut[6]].tag = mut[7]
            op.fn.args[mut[6]].value = None
        elif what == 'arg_clear':
            op.fn.args[mut[6]].tag = None
            op.fn.args[mut[6]].value = None
    return m


def wire_elements(wire):
    """offsets at which the top-level TLV elements of an encoded model start (plus the end)"""
    def num(off):
        b = wire[off]
        if b < 253:
            return b, off + 1
        w = {253: 2, 254: 4, 255: 8}[b]
        return int.from_bytes(wire[off + 1:off + 1 + w], 'big'), off + 1 + w
    offs, off = [], 0
    while off < len(wire):
        offs.append(off)
        _, off = num(off)
        ln, off = num(off)
        off += ln
    return offs + [len(wire)]


def wire_elements_safe(wire):
    try:
        offs = wire_elements(wire)
        return offs if offs[-1] == len(wire) and all(a < b for a, b in zip(offs, offs[1:])) else [0, len(wire)]
    except Exception:               # noqa
        return [0, len(wire)]


def apply_wire_mutation(wire, mut):
    if mut[0] != 'wire':
        return wire
    if mut[1] == 'drop_last':
        offs = wire_elements(wire)
        return wire[:offs[max(0, len(offs) - 1 - mut[2])]]
    if mut[1] == 'cut':
        return wire[:max(0, len(wire) - mut[2])]
    if mut[1] in ('del', 'dup'):
        return wire_edit(wire, mut[2], mut[1])
    return wire + bytes.fromhex(mut[2])


# ---------------------------------------------------------------- independent reading of the wire
# Layout and TLV numbers of binary-format.rst, written down from the document (never from binary.py). The sanity
# rules are judged on THIS reading of the bytes handed to Checker.load, not on what LvsModel.parse / the field
# accessors of the library report (a field default in binary.py would otherwise be believed by the oracle).
def _doc_fs():
    VAL, TAG, NID = ('Y', 0x21, False), ('U', 0x23, None), ('U', 0x25, None)
    ARG = ('M', 0x33, False, [VAL, TAG], None)
    CALL = ('M', 0x31, False, [('Y', 0x27, False), ('R', ARG)], None)
    OPT = ('M', 0x41, False, [VAL, TAG, CALL], None)
    CONS = ('M', 0x43, False, [('R', OPT)], None)
    PE = ('M', 0x53, False, [NID, TAG, ('R', CONS)], None)
    VE = ('M', 0x51, False, [NID, VAL], None)
    NODE = ('M', 0x63, False, [NID, ('U', 0x57, None), ('R', ('Y', 0x29, False)), ('R', VE), ('R', PE),
                               ('R', ('U', 0x55, None))], None)
    SYM = ('M', 0x67, False, [TAG, ('Y', 0x29, False)], None)
    return [('U', 0x61, None), NID, ('U', 0x69, None), ('R', NODE), ('R', SYM)]


DOC_CONTAINERS = {0x63, 0x51, 0x53, 0x43, 0x41, 0x31, 0x33, 0x67}


def doc_read(wire):
    """the model a reader of binary-format.rst finds in `wire` (absent elements = None), or None when the bytes are
    not a sequence of the documented elements in the documented order (then the document's sanity rules say nothing)"""
    try:
        v = S.strict_parse(_doc_fs(), bytes(wire), False)
    except (S.Reject, KeyError, IndexError):
        return None
    NS = types.SimpleNamespace
    one = lambda x: None if x is None else x[1]         # noqa

    def arg(a):
        return NS(value=one(a[0]), tag=one(a[1]))

    def opt(o):
        fn = None if o[2] is None else NS(fn_id=one(o[2][1][0]), args=[arg(a[1]) for a in o[2][1][1][1]])
        return NS(value=one(o[0]), tag=one(o[1]), fn=fn)

    def node(n):
        return NS(id=one(n[0]), parent=one(n[1]), rule_name=[r[1] for r in n[2][1]],
                  v_edges=[NS(dest=one(e[1][0]), value=one(e[1][1])) for e in n[3][1]],
                  p_edges=[NS(dest=one(e[1][0]), tag=one(e[1][1]),
                              cons_sets=[NS(options=[opt(o[1]) for o in c[1][0][1]]) for c in e[1][2][1]]) for e in n[4][1]],
                  sign_cons=[k[1] for k in n[5][1]])
    return NS(version=one(v[0]), start_id=one(v[1]), named_pattern_cnt=one(v[2]), nodes=[node(n[1]) for n in v[3][1]],
              symbols=[NS(tag=one(s[1][0]), ident=one(s[1][1])) for s in v[4][1]])


def wire_paths(wire, start=0, end=None, prefix=(), tprefix=()):
    """(index path, Type path) of every element of an encoded model, outermost first"""
    end = len(wire) if end is None else end
    off, i = start, 0
    while off < end:
        t, vs, ve = S.read_elem(wire, off, end)
        yield list(prefix + (i,)), '/'.join('%x' % x for x in tprefix + (t,))
        if t in DOC_CONTAINERS:
            yield from wire_paths(wire, vs, ve, prefix + (i,), tprefix + (t,))
        off, i = ve, i + 1


def _tl(n):
    return bytes([n]) if n < 253 else b'\xfd' + n.to_bytes(2, 'big') if n < 65536 else b'\xfe' + n.to_bytes(4, 'big')


def wire_edit(wire, path, op, start=0, end=None):
    """the encoded model with the element at `path` deleted / written twice; enclosing Lengths follow"""
    end = len(wire) if end is None else end
    out, off, i = b'', start, 0
    while off < end:
        t, vs, ve = S.read_elem(wire, off, end)
        el = wire[off:ve]
        if i != path[0]:
            out += el
        elif len(path) == 1:
            out += b'' if op == 'del' else el + el if op == 'dup' else el + op[1] if op[0] == 'after' else op[1] + el
        else:
            body = wire_edit(wire, path[1:], op, vs, ve)
            out += _tl(t) + _tl(len(body)) + body
        off, i = ve, i + 1
    return out


def wire_mutations(m, rng=None, per_type=3):
    """delete / duplicate one element of the saved model: for every Type path the first, the last and (rng) one more
    occurrence; the three mandatory header elements first"""
    wire = bytes(m.encode())
    by_type = {}
    for path, tp in wire_paths(wire):
        by_type.setdefault(tp, []).append(path)
    out = []
    for tp, paths in by_type.items():
        pick = [paths[0], paths[-1]] + ([paths[rng.randrange(len(paths))]] if rng is not None and len(paths) > 2 else [])
        if per_type is None:
            pick = paths
        seen = []
        for p in pick:
            if p not in seen:
                seen.append(p)
        for p in seen[:per_type]:
            out += [['wire', 'del', p, tp], ['wire', 'dup', p, tp]]
    return out


def mut_kind(mu):
    if mu[0] == 'wire':
        return 'wire:' + mu[1] + ('@' + mu[3] if mu[1] in ('del', 'dup') else '')
    if mu[0] == 'opt' and mu[5] == 'shape':
        return 'opt:shape:' + ''.join('VTF'[i] if b else '-' for i, b in enumerate(mu[6])) + ('' if mu[7] == 'id' else ':' + mu[7])
    return mu[0] + ':' + str(mu[2] if mu[0] == 'node' else (mu[3] if mu[0] in ('ve', 'pe') else (mu[5] if mu[0] == 'opt' else '')))



def doc_rules_broken(m, bny):
    """the six sanity rules of binary-format.rst: "every node's NodeId equals to its index in the array" for every
    node of the array, the other rules on the part reachable from the start node
    (independent transcription; returns the name of a broken rule or None)"""
    if m.version is None or m.version != doc_version():
        return 'version'
    nodes = m.nodes or []
    for idx, nd in enumerate(nodes):
        if nd.id != idx:
            return 'node-id'
    if m.start_id is None:
        return None
    todo, seen = [m.start_id], set()
    while todo:
        cur = todo.pop()
        if cur in seen:
            continue
        seen.add(cur)
        if cur >= len(nodes):
            return 'edge-target'
        nd = nodes[cur]
        if nd.id != cur:
            return 'node-id'
        for e in list(nd.v_edges or []) + list(nd.p_edges or []):
            if e.dest is None or e.dest >= len(nodes):
                return 'edge-target'
            if nodes[e.dest].parent != cur:
                return 'parent'
            todo.append(e.dest)
        for k in nd.sign_cons or []:
            if k >= len(nodes):
                return 'signer-id'
        for pe in nd.p_edges or []:
            for cl in pe.cons_sets or []:
                for op in cl.options or []:
                    if [op.value is not None, op.tag is not None, op.fn is not None].count(True) != 1:
                        return 'option-shape'
    return None


# ------------------------------------------------------------------ "the same name pattern" (oracle)
def _copt(o):
    if o[0] == 'lit':
        return ('lit', bytes(L.comp(o[1])).hex())
    if o[0] == 'pat':
        return ('pat', o[1])
    return ('fn', o[1], tuple(_copt(a) for a in o[2]))


def _ccons(opts):
    return tuple(sorted(_copt(o) for o in opts))


def chain_key(atoms, cons):
    """the key of an expanded name pattern, as the statement's "name pattern" is read (theorems compile_sane_keys /
    compile_accepted_iff_src): component values; a named pattern with the constraints on it where it is met first; a
    temporary pattern with its constraints.  Constraints are compared as multisets of option sets and temporary
    patterns without identity - both COARSER than what the compiler compares, so two name patterns the compiler puts
    on one node always have equal keys here and the oracle never demands acceptance of a schema with a merged cycle."""
    seen, key = set(), []
    for a in atoms:
        if a[0] == 'lit':
            key.append(('lit', bytes(a[1]).hex()))
        elif a[0] == 'named':
            cs = () if a[1] in seen else tuple(sorted(_ccons(opts) for tg, opts in cons if tuple(tg) == ('named', a[1])))
            seen.add(a[1])
            key.append(('named', a[1], cs))
        else:
            key.append(('temp', tuple(sorted(_ccons(opts) for tg, opts in cons if tg[0] == 'temp' and a[1] in tg[1]))))
    return tuple(key)


def key_self_sign(spec):
    """is some name pattern, directly or transitively, its own signer - name patterns told apart by their keys?"""
    chains = spec.all_chains()
    keys = [chain_key(atoms, cons) for _, _, atoms, cons, _ in chains]
    g = {}
    for i, (_, _, _, _, sign) in enumerate(chains):
        for j, (rid2, _, _, _, _) in enumerate(chains):
            if rid2 in sign:
                g.setdefault(('c', i), set()).add(('s', j))
            if keys[i] == keys[j]:
                g.setdefault(('s', i), set()).add(('c', j))
    return spec._cyclic(g)


def temp_free(schema):
    return not any(c[0] == 'pat' and L.is_temp(c[1]) for r in schema['rules'] for c in r['name'])


def merge_schema(rng):
    """schemas made to share nodes: several rules over one base name pattern - identical, with another named pattern /
    another constraint (set, order) at one place, continued below it, or inlining one shared rule (so that temporary
    patterns keep their number) - and signers among them along a rule-level DAG (so every rejection is a merged cycle)"""
    lits = rng.sample(L.LITS, 3)
    named = rng.sample(L.NAMED, 3)

    def lit():
        return ['lit', rng.choice(lits)]

    def copt():
        r = rng.random()
        if r < 0.7:
            return lit()
        fn = rng.choice(['$eq', '$eq', '$odd'])
        return ['fn', fn, [lit() for _ in range(rng.choice([1, 1, 2]))]]

    def copts():
        return [copt() for _ in range(rng.choice([1, 1, 2]))]
    base = [lit()]
    for _ in range(rng.choice([1, 1, 2])):
        r = rng.random()
        base.append(lit() if r < 0.3 else ['pat', rng.choice(named[:2])] if r < 0.85 else ['pat', rng.choice(L.TEMPS)])
    rules = []
    shared = rng.random() < 0.35
    if shared:
        bcons = []
        pats = [c[1] for c in base if c[0] == 'pat']
        if pats and rng.random() < 0.5:
            bcons = [[{'pat': rng.choice(pats), 'opts': copts()}]]
            if rng.random() < 0.3:
                bcons.append([{'pat': rng.choice(pats), 'opts': copts()}])
        rules.append({'id': '#m0', 'name': [list(c) for c in base], 'cons': bcons, 'sign': []})
    n = rng.randint(2, 4)
    for i in range(1, n + 1):
        name = [['ref', '#m0']] if shared and rng.random() < 0.7 else [list(c) for c in base]
        cons = []
        r = rng.random()
        flat = [c for c in name if c[0] != 'ref']
        if r < 0.25 and flat:                                   # another pattern at one place
            k = rng.randrange(len(flat))
            if flat[k][0] == 'pat':
                flat[k][1] = rng.choice(named)
        elif r < 0.5:                                           # continued below the shared node
            name.append(lit() if rng.random() < 0.6 else ['pat', rng.choice(named)])
        own = [c[1] for c in name if c[0] == 'pat'] + ([c[1] for c in base if c[0] == 'pat' and not L.is_temp(c[1])] if name[0][0] == 'ref' else [])
        if own and rng.random() < 0.55:                         # constraints: same / other / permuted / two sets
            p = rng.choice(own)
            terms = [{'pat': p, 'opts': copts()}]
            if rng.random() < 0.4:
                terms.append({'pat': rng.choice(own), 'opts': copts()})
            if rng.random() < 0.3:
                terms.reverse()
            cons = [terms]
            if rng.random() < 0.25:
                cons.append([{'pat': rng.choice(own), 'opts': copts()}])
        rules.append({'id': '#m%d' % i, 'name': name, 'cons': cons, 'sign': []})
    # constraints of a rule copied to another one (equal keys on purpose)
    if len(rules) > 2 and rng.random() < 0.5:
        a, b = rng.sample(rules[1 if shared else 0:], 2)
        if [c for c in a['name']] == [c for c in b['name']]:
            b['cons'] = copy.deepcopy(a['cons'])
    # ... or differing from it in one literal (an option value or a user-function argument) only
    if len(rules) > 2 and rng.random() < 0.35:
        a, b = rng.sample(rules[1 if shared else 0:], 2)
        if a['cons'] and [c for c in a['name']] == [c for c in b['name']]:
            b['cons'] = copy.deepcopy(a['cons'])
            o = rng.choice(rng.choice(b['cons'][0])['opts'])
            tgt = o if o[0] == 'lit' else rng.choice(o[2]) if o[0] == 'fn' and o[2] else None
            if tgt is not None and tgt[0] == 'lit':
                tgt[1] = rng.choice([x for x in L.LITS if x != tgt[1]])
    ids = [r['id'] for r in rules]
    rank = {rid: k for k, rid in enumerate(rng.sample(ids, len(ids)))}
    for r in rules:
        higher = [q for q in ids if rank[q] > rank[r['id']]]
        if higher and rng.random() < 0.7:
            r['sign'] = sorted(set(rng.sample(higher, min(len(higher), rng.choice([1, 1, 2])))))
    # a named pattern used in a constraint must be written in some name
    everywhere = {c[1] for r in rules for c in r['name'] if c[0] == 'pat' and not L.is_temp(c[1])}
    for r in rules:
        own_t = {c[1] for c in r['name'] if c[0] == 'pat' and L.is_temp(c[1])}
        r['cons'] = [[t for t in cs if (t['pat'] in own_t if L.is_temp(t['pat']) else t['pat'] in everywhere)] for cs in r['cons']]
        r['cons'] = [cs for cs in r['cons'] if cs]
    rng.shuffle(rules)
    return {'rules': rules}


LVS_TYPES = [0x21, 0x23, 0x25, 0x27, 0x29, 0x31, 0x33, 0x41, 0x43, 0x51, 0x53, 0x55, 0x57, 0x61, 0x63, 0x67, 0x69]


def byte_mutations(rng, wire, count):
    """byte strings around an encoded model: not well-formed TLV any more, or well-formed TLV that is not a model"""
    out = []
    n = len(wire)
    for _ in range(count):
        w = bytearray(wire)
        r = rng.random()
        if r < 0.30 and n:                                       # one to three bytes replaced
            for _ in range(rng.choice([1, 1, 2, 3])):
                k = rng.randrange(n)
                w[k] = rng.choice([0, 1, 0xfd, 0xff, w[k] ^ (1 << rng.randrange(8)), rng.randrange(256), rng.choice(LVS_TYPES)])
            kind = 'subst'
        elif r < 0.42 and n:                                     # a byte inserted / removed
            k = rng.randrange(n)
            if rng.random() < 0.5:
                del w[k]
            else:
                w.insert(k, rng.choice([0, 1, 2, 0xfd, rng.randrange(256)]))
            kind = 'indel'
        elif r < 0.54:                                           # cut anywhere
            w = w[:rng.randrange(n + 1)]
            kind = 'cut'
        elif r < 0.76:                                           # an element spliced in before / after an element, at any depth
            t = rng.choice(LVS_TYPES + LVS_TYPES + [0x20, 0x62, 0x64, 0x68, 0xfe, 1000, 1001])
            body = bytes(rng.choice([0, 1, 2, 0x25, 0x61, rng.randrange(256)]) for _ in range(rng.choice([0, 1, 1, 2, 4, 5])))
            if rng.random() < 0.4:                                # ... itself holding a well-formed element
                body = _tl(rng.choice(LVS_TYPES)) + _tl(1) + bytes([rng.randrange(4)])
            paths = [pth for pth, _ in wire_paths(bytes(wire))]
            if paths:
                w = wire_edit(bytes(wire), rng.choice(paths), (rng.choice(['after', 'before']), _tl(t) + _tl(len(body)) + body))
            kind = 'splice'
        elif r < 0.88:                                           # short soup of format elements
            w = bytearray()
            for _ in range(rng.randint(0, 5)):
                t = rng.choice(LVS_TYPES + [0x61, 0x25, 0x69, 0x63])
                body = bytes(rng.choice([0, 0, 1, 0x10, rng.randrange(256)]) for _ in range(rng.choice([0, 1, 1, 4])))
                if t == 0x61 and rng.random() < 0.7:
                    body = doc_version().to_bytes(4, 'big')
                w += _tl(t) + _tl(len(body)) + body
            kind = 'soup'
        else:                                                    # the header elements reordered / one of them dropped
            offs = wire_elements(bytes(wire))
            els = [bytes(wire[offs[i]:offs[i + 1]]) for i in range(len(offs) - 1)]
            head, rest = els[:3], els[3:]
            if rng.random() < 0.5 and head:
                del head[rng.randrange(len(head))]
            else:
                rng.shuffle(head)
            w = b''.join(head + rest)
            kind = 'header'
        out.append((kind, bytes(w)))
    return out


# ------------------------------------------------------------------------------------------- cases
MERGED_SIGNER = {'rules': [{'id': '#a', 'name': [['lit', 'k'], ['pat', 'x']], 'cons': [], 'sign': ['#b']},
                           {'id': '#b', 'name': [['lit', 'k'], ['pat', 'x']], 'cons': [], 'sign': []}]}


KEY_SPLIT = {'rules': [{'id': '#a', 'name': [['lit', 'k'], ['pat', 'x']], 'cons': [], 'sign': ['#b']},
                       {'id': '#b', 'name': [['lit', 'k'], ['pat', 'y']], 'cons': [], 'sign': []}]}
PREFIX_MERGED = {'rules': [{'id': '#a', 'name': [['lit', 'k'], ['pat', 'x']], 'cons': [], 'sign': []},
                           {'id': '#b', 'name': [['lit', 'k'], ['pat', 'x'], ['lit', 'a']], 'cons': [], 'sign': ['#a']},
                           {'id': '#c', 'name': [['lit', 'k'], ['pat', 'x']], 'cons': [], 'sign': ['#b']}]}


def _compile(schema):
    Component, Name, compile_lvs, Checker, SemanticError, LvsModelError, DFN, bny = L.mods()
    return compile_lvs(L.pp(schema))


def session_cases(rng, schema, inj_all, n_bad):
    """sessions (ops of lvs_common.run_session_prefix) around one generated schema: the text compiled again - at once, three
    times, after unrelated texts, after a text that raised (one static error injected, so each pass of the compiler is left
    half-way) or that the grammar refuses, after a nearby text over the same identifiers; and an ill-formed text compiled
    after the text that WRITES what it lacks, after the well-formed text it was made from, or twice"""
    main = schema
    if rng.random() < 0.4:
        # one more definition: a pattern written two or three times in one name, constrained
        lits = sorted({c[1] for r in schema['rules'] for c in r['name'] if c[0] == 'lit'}) or ['a']
        named = sorted({c[1] for r in schema['rules'] for c in r['name'] if c[0] == 'pat' and not L.is_temp(c[1])}) or ['x']
        real = sorted({r['id'] for r in schema['rules'] if not L.is_temp(r['id'])})
        rules = list(schema['rules']) + [L.repeated_pattern_rule(rng, lits, named, '#p1', rng.sample(real, 1) if real and rng.random() < 0.3 else [])]
        rng.shuffle(rules)
        main = {'rules': rules}

    inj_main = inj_all if main is schema else injections(main)
    kinds = sorted({kd for kd, _, _ in inj_main})

    def bad():
        # the text with ONE static error (kind first, then the position): its compilation is given up in another pass each
        if not kinds or rng.random() < 0.15:
            return ['text', L.broken_schema(rng, main), 'bad']
        kd = rng.choice(kinds)
        return ['text', rng.choice([x for x in inj_main if x[0] == kd])[1], 'bad']

    def other():
        return ['text', L.gen_schema(rng) if rng.random() < 0.6 else merge_schema(rng), 'other']

    def raw():
        return ['raw', rng.choice(L.RAW_TEXTS + [L.pp(main)[:-2], L.pp(main) + '<='])]
    sib = L.sibling_schema(rng, main)
    me = ['self']
    r = rng.random()
    if r < 0.20:
        ops = [me, me]
    elif r < 0.26:
        ops = [me, me, me]
    elif r < 0.36:
        ops = [me] + [other() for _ in range(rng.choice([1, 1, 2, 3]))] + [me]
    elif r < 0.50:
        ops = [bad(), me]
    elif r < 0.70:
        ops = [me, bad(), me]
    elif r < 0.78:
        ops = [raw(), me] if rng.random() < 0.5 else [me, raw(), me]
    elif sib is None:
        ops = [me, me]
    elif r < 0.89:
        ops = [['text', sib, 'sibling'], me]
    else:
        ops = [me, ['text', sib, 'sibling'], me]
    yield {'kind': 'schema', 'schema': main, 'inject': None, 'session': ops}
    kinds = sorted({kd for kd, _, _ in inj_all})
    for _ in range(n_bad if kinds else 0):
        kd = rng.choice(kinds)
        _, s, _ = rng.choice([x for x in inj_all if x[0] == kd])
        r = rng.random()
        donor, orig = ['text', L.donor_schema(s), 'donor'], ['text', schema, 'orig']
        ops = [orig, me] if r < 0.35 else [donor, me] if r < 0.65 else [me, orig, me] if r < 0.75 else [me, donor, me] if r < 0.85 else [me, me]
        yield {'kind': 'schema', 'schema': s, 'inject': kd, 'session': ops}


def extract(repo):
    """lean/NdnGen/C13.lean: tables read from the Light VerSec sources (harness/props/lvs_extract.py)"""
    return lvs_extract.generate_c13(repo)


def cases(rng, tier):
    n_sch = 30 if tier == 'quick' else 45      # thorough enumerates EVERY position / corruption of each schema (~700 cases per schema)
    per_inj = 6 if tier == 'quick' else None
    per_mut = 18 if tier == 'quick' else None
    fns = L.user_fns(L.FN_NAMES)
    # corpus: the schema of theorem mergedSigner_counterexample (rule-level signing graph acyclic, same name pattern twice)
    yield {'kind': 'schema', 'schema': MERGED_SIGNER, 'inject': None, 'corpus': 'merged-signer'}
    # theorems keySplit_example (same shape, other named pattern: accepted) and prefixMerged_example (#a and #c share a
    # node below which #b continues; #c <= #b <= #a: refused although the rule-level graph is acyclic)
    yield {'kind': 'schema', 'schema': KEY_SPLIT, 'inject': None, 'corpus': 'key-split'}
    yield {'kind': 'schema', 'schema': PREFIX_MERGED, 'inject': None, 'corpus': 'prefix-merged'}
    for w in ('', '610400011000', '6104000110', '6104000110002501006901006303250100', '61040001100025010063032501006300'):
        yield {'kind': 'bytes', 'wire': w, 'how': 'corpus', 'names': [[]], 'fns': L.FN_NAMES}
    n_done = 0
    for _ in range(n_sch):
        schema = L.gen_schema(rng)
        spec = L.Spec(schema, fns)
        yield {'kind': 'schema', 'schema': schema, 'inject': None}
        inj = injections(schema)
        inj_all = list(inj)
        if per_inj is not None:
            # one of each kind first, then random positions
            rng.shuffle(inj)
            seen, pick = set(), []
            for kd, s, i in inj:
                if kd not in seen:
                    seen.add(kd)
                    pick.append((kd, s, i))
            # a rule defined several times: errors placed in a definition that is not the last one (two kinds per schema)
            early = set(redefined_targets(schema))
            seen, redef = set(), []
            for kd, s, i in inj:
                if i in early and kd not in seen:
                    seen.add(kd)
                    redef.append((kd, s, i))
            inj = pick[:per_inj] + inj[:2] + redef[:2]
        early_defs = set(redefined_targets(schema))
        for kd, s, i in inj:
            yield {'kind': 'schema', 'schema': s, 'inject': kd, 'early_def': i in early_defs}
        # (e) sessions: what one compilation leaves behind in the process must not reach the next one
        for _ in range(1 if tier == 'quick' else 4):
            yield from session_cases(rng, schema, inj_all, n_done % 2 if tier == 'quick' else 2)
        n_done += 1
        if spec.static_errors():
            continue
        try:
            m = _compile(schema)
        except Exception:           # noqa  (the schema-level case above reports it)
            continue
        # wire level: one element of the saved model deleted / written twice (every Type path of the document)
        muts = mutations(m) + wire_mutations(m, rng, 3)
        if per_mut is not None:
            rng.shuffle(muts)
            kinds, pick = set(), []
            for mu in muts:
                kd = mut_kind(mu)
                if kd not in kinds:
                    kinds.add(kd)
                    pick.append(mu)
            # one structural corruption in every kind of node (root, leaf, only pattern edges, only value edges, both);
            # the root always gets one (its id is 0 and its parent absent: the places a truthiness test goes wrong)
            classes, strat = set(), []
            for mu in muts:
                if mu[0] in ('node', 've', 'pe') and (mu[2] if mu[0] == 'node' else mu[3]) in ('id', 'parent', 'dest', 'sign_add'):
                    cl = node_class(m, mu[1])
                    if cl not in classes:
                        classes.add(cl)
                        strat.append(mu)
            # the three mandatory header elements are deleted from every model (Version first: the version rule)
            header = [mu for mu in muts if mu[0] == 'wire' and mu[1] == 'del' and len(mu[2]) == 1 and mu[3] in ('61', '25', '69')]
            header.sort(key=lambda mu: mu[2])
            # ... and the NodeId of the first node (id 0: what a default value of the field would supply)
            header += sorted((mu for mu in muts if mu[0] == 'wire' and mu[1] == 'del' and mu[3] == '63/25'), key=lambda mu: mu[2])[:1]
            # every presence combination of (Value, Tag, UserFn) on one ConstraintOption of the model (thorough: on every one)
            shape = [mu for mu in muts if mu[0] == 'opt' and mu[5] == 'shape']
            if shape:
                where = rng.choice(sorted({tuple(mu[1:5]) for mu in shape}))
                shape = [mu for mu in shape if tuple(mu[1:5]) == where]
            muts = pick[:per_mut] + muts[:3] + strat + [mu for mu in header if mu not in pick[:per_mut]]
            muts += [mu for mu in shape if mu not in muts]
        names = L.gen_names(rng, schema, spec, 5 if tier == 'quick' else 8)
        for mu in muts:
            case = {'kind': 'model', 'schema': schema, 'mut': mu, 'names': names, 'fns': rng.choice([L.FN_NAMES, L.FN_NAMES, ['$eq']])}
            if rng.random() < 0.2:
                # further Checker objects from the same bytes object / model object, under this user-function table
                case['reuse'] = rng.choice([L.FN_NAMES, ['$eq'], []])
            yield case


    # more well-formed schemas (compile + loader only: cheap) for the positive clause
    for _ in range(70 if tier == 'quick' else 400):
        yield {'kind': 'schema', 'schema': L.gen_schema(rng), 'inject': None}
    # schemas made to share nodes (equal / nearly equal name patterns, common prefixes, a shared embedded rule) with
    # signers among them: the exact criterion for a merged signing cycle
    for _ in range(90 if tier == 'quick' else 600):
        yield {'kind': 'schema', 'schema': merge_schema(rng), 'inject': None, 'merge': True}
    for _ in range(8 if tier == 'quick' else 80):
        ms = merge_schema(rng)
        sib = L.sibling_schema(rng, ms)
        ops = [['self'], ['self']] if sib is None or rng.random() < 0.5 else [['self'], ['text', sib, 'sibling'], ['self']]
        yield {'kind': 'schema', 'schema': ms, 'inject': None, 'merge': True, 'session': ops}
    # Checker.load on byte strings: an encoded model damaged below the level of elements, spliced, reordered; element soup
    for _ in range(12 if tier == 'quick' else 60):
        schema = L.gen_schema(rng)
        try:
            if L.Spec(schema, fns).static_errors():
                continue
            wire = bytes(_compile(schema).encode())
        except Exception:           # noqa
            continue
        names = L.gen_names(rng, schema, L.Spec(schema, fns), 3)
        for kd, w in byte_mutations(rng, wire, 14 if tier == 'quick' else 40):
            case = {'kind': 'bytes', 'wire': w.hex(), 'how': kd, 'names': names, 'fns': L.FN_NAMES}
            if rng.random() < 0.25:
                case['reuse'] = rng.choice([L.FN_NAMES, ['$eq'], []])
            yield case


def shrink(case):
    for c in _shrink(case):
        if c.get('session') or c.get('reuse') is not None:
            c = dict(c, shrunk=True)
        yield c


def _shrink(case):
    if case['kind'] == 'bytes':
        w = bytes.fromhex(case['wire'])
        offs = wire_elements_safe(w)
        for i in range(len(offs) - 1):                   # drop one top-level element
            yield dict(case, wire=(w[:offs[i]] + w[offs[i + 1]:]).hex())
        if len(case['names']) > 1:
            yield dict(case, names=case['names'][:1])
        return
    # (a session / reuse case stays one: the shrinker evaluates candidates in THIS process, where a plain case could fail
    # only because of what was compiled before it - its replay would not reproduce; see _isolated)
    ops = case.get('session')
    if ops:
        for i in range(len(ops)):
            if len(ops) > 1:
                yield dict(case, session=ops[:i] + ops[i + 1:])
    for s in L.shrink_schema(case['schema']):
        if case['kind'] == 'schema':
            yield dict(case, schema=s)
    if case['kind'] == 'model':
        nm = case['names']
        for i in range(len(nm)):
            if len(nm) > 1:
                yield dict(case, names=nm[:i] + nm[i + 1:])


# ---------------------------------------------------------------------------------- implementation
_last_compiled = []


def _spec_info(schema, fns):
    """what the statement says about a schema text (the Spec never looks at the library)"""
    spec = L.Spec(schema, fns)
    try:
        errs = spec.static_errors()
        may_self = False if errs else spec.may_self_sign()
    except RecursionError:
        errs, may_self = ['ref-cycle'], False
    try:
        key_self = False if errs else key_self_sign(spec)
    except RecursionError:
        key_self = True
    return {'static_errors': errs, 'may_self_sign': may_self, 'key_self_sign': key_self, 'temp_free': temp_free(schema)}


def _compile_round(schema, fns, twice=False):
    """one compilation of a schema text, a Checker from the result, save / load. twice (sessions): a second Checker from
    the SAME model object and a second load of the SAME bytes object as well"""
    Component, Name, compile_lvs, Checker, SemanticError, LvsModelError, DFN, bny = L.mods()
    rd = {'token': None}
    try:
        model = compile_lvs(L.pp(schema))
    except Exception as e:          # noqa
        rd['compile'] = type(e).__name__
        return rd
    rd['compile'] = 'ok'
    rd['token'] = L.enc_model(model)
    rd['symbols'] = L.enc_symbols(model)
    ck = None
    for key in ('checker', 'checker_again') if twice else ('checker',):
        try:
            c = Checker(model, fns)
            rd[key] = 'ok'
            ck = ck or c
        except Exception as e:          # noqa
            rd[key] = type(e).__name__
    if rd['checker'] != 'ok':
        return rd
    try:
        wire = ck.save()
    except Exception as e:              # noqa
        rd['reload'] = type(e).__name__
        return rd
    for key in ('reload', 'reload_again') if twice else ('reload',):
        try:
            ck2 = Checker.load(wire, fns)
            rd[key] = 'ok' if L.enc_model(ck2.model) == rd['token'] else 'model-differs-after-save-load'
        except Exception as e:          # noqa
            rd[key] = type(e).__name__
    return rd


def _query(ck, names):
    ms = []
    for nb in names:
        outs, exc = L.impl_match(ck, nb)
        ms.append([outs, exc])
    return {'load': 'ok', 'matches': ms, 'checks': [L.impl_check(ck, p, k) for p in names for k in names]}


def _use(build, names, exc_name, nocnt=False):
    """build a Checker and put every name / every pair to it: (observation, checker or None)"""
    try:
        ck = build()
    except Exception as e:              # noqa
        return {'load': exc_name(e)}, None
    if nocnt and ck.model.named_pattern_cnt is None:
        return {'load': 'ok-nocnt'}, None
    L.cap_steps(ck)
    return _query(ck, names), ck


def _reuse(case, wire, fns, first, ck, names, exc_name, nocnt=False):
    """the case's `reuse` flag (a user-function table): state carried between Checker objects and between searches.
    From the SAME bytes object a checker under the other table and - after it, and after searches that were abandoned at the
    first result - one under the case's table; a checker under the other table from the model object of the first one; then
    every search on the FIRST checker once more (after the exceptions, early returns and abandoned searches before).
    Returns (rounds under the case's table - each compared with the model -, observations under the other table)"""
    Component, Name, compile_lvs, Checker, SemanticError, LvsModelError, DFN, bny = L.mods()
    fns2 = L.user_fns(case['reuse'])
    rounds, others = [first], []
    others.append(_use(lambda: Checker.load(wire, fns2), names, exc_name, nocnt)[0])
    if ck is not None:
        others.append(_use(lambda: Checker(ck.model, fns2), names, exc_name, nocnt)[0])
        for nb in names:
            try:
                next(iter(ck.match(list(nb))), None)
            except Exception:           # noqa
                pass
    rounds.append(_use(lambda: Checker.load(wire, fns), names, exc_name, nocnt)[0])
    if ck is not None:
        rounds.append(_query(ck, names))
    return rounds, others


def _isolated(case):
    """the observation of a session / reuse case made in a FRESH process.  The check runs every case in one process, so a
    failure seen there may be due to what earlier cases left behind; a case that fails in-process is run again on its own
    and that observation is the one reported (so a replay reproduces, and the shrinker - which evaluates its candidates in
    this process - keeps only what the case itself needs)"""
    import os, subprocess, sys
    here = os.path.dirname(os.path.dirname(os.path.abspath(__file__)))
    code = ('import sys, json; sys.path.insert(0, %r); import lib; lib.setup_repo_path(); from props import c13; '
            'print("\\n@@" + json.dumps(c13.run_impl(json.loads(sys.stdin.read()))))' % here)
    try:
        p = subprocess.run([sys.executable, '-c', code], input=json.dumps(case), capture_output=True, text=True, timeout=600,
                           env=dict(os.environ, C13_ISOLATED='1'))
        line = [ln for ln in p.stdout.split('\n') if ln.startswith('@@')]
        return json.loads(line[-1][2:]) if line else None
    except Exception:           # noqa
        return None


_isolations = [0]


def run_impl(case):
    import os
    res = _run_impl(case)
    if (case.get('session') or case.get('reuse') is not None) and not os.environ.get('C13_ISOLATED'):
        if oracle(case, res):
            # of the generated cases at most 40 failing ones are run again on their own (a tree on which hundreds fail needs
            # no more); a candidate of the shrinker (marked by shrink()) always is
            if not case.get('shrunk'):
                _isolations[0] += 1
                if _isolations[0] > 40:
                    return res
            iso = _isolated(case)
            if iso is not None:
                iso['isolated'] = True
                return iso
    return res


def _run_impl(case):
    Component, Name, compile_lvs, Checker, SemanticError, LvsModelError, DFN, bny = L.mods()
    fns = L.user_fns(case.get('fns', L.FN_NAMES))
    if case['kind'] == 'bytes':
        return run_bytes(case, fns)
    schema = case['schema']
    if case['kind'] == 'schema':
        res = _spec_info(schema, fns)
        ops = case.get('session')
        if not ops:
            res.update(_compile_round(schema, fns))
            return res
        # a session: every compilation of it is judged on its own (this text: 'rounds'; the other texts: 'others')
        rounds, others, raws = L.run_session_prefix(ops, schema, lambda s: _compile_round(s, fns, True), compile_lvs)
        res.update(rounds[0] if rounds else {'token': None, 'compile': 'not-compiled'})
        res['rounds'] = rounds
        res['others'] = [[label, dict(_spec_info(s, fns), **rd)] for label, s, rd in others]
        res['raws'] = raws
        return res
    # model-level (the compiled model of one schema is corrupted many times: building the lark parser dominates, so the
    # last compilation is kept; apply_mutation works on a deep copy)
    text = L.pp(schema)
    if _last_compiled[:1] != [text]:
        _last_compiled[:] = [text, compile_lvs(text)]
    model = _last_compiled[1]
    mutated = apply_mutation(model, case['mut'], bny)
    res = {'token': None, 'broken': None}
    try:
        wire = apply_wire_mutation(bytes(mutated.encode()), case['mut'])
        parsed = bny.LvsModel.parse(wire)
    except Exception as e:              # noqa
        res['load'] = 'unencodable:' + type(e).__name__
        return res
    res['token'] = L.enc_model(parsed)
    # the documented rules are judged on an independent reading of the bytes given to Checker.load; only when the bytes
    # are not in the documented layout at all (that reading fails) on what the library's own parser found
    seen = doc_read(wire)
    res['reader'] = 'doc' if seen is not None else 'lib'
    res['broken'] = doc_rules_broken(seen if seen is not None else parsed, bny)
    reuse = case.get('reuse') is not None
    if case['mut'][0] != 'wire':
        # the other entry point: the corrupted object itself, Checker(model, fns)
        res['broken_mem'] = doc_rules_broken(mutated, bny)
        obj = copy.deepcopy(mutated)
        for key in ('direct', 'direct_again') if reuse else ('direct',):        # reuse: two checkers from ONE model object
            try:
                Checker(obj, fns)
                res[key] = 'ok'
            except Exception as e:          # noqa
                res[key] = type(e).__name__
    names = [L.name_bytes(nm) for nm in case['names']]
    first, ck = _use(lambda: Checker.load(wire, fns), names, lambda e: type(e).__name__)
    res.update(first)
    if reuse:
        res['rounds'], res['others'] = _reuse(case, wire, fns, first, ck, names, lambda e: type(e).__name__)
    return res


def run_bytes(case, fns):
    """Checker.load on a byte string; the documented rules are judged on an independent reading of the bytes"""
    import pktcommon
    Component, Name, compile_lvs, Checker, SemanticError, LvsModelError, DFN, bny = L.mods()
    wire = bytes.fromhex(case['wire'])
    seen = doc_read(wire)
    res = {'bytes': True, 'reader': 'doc' if seen is not None else 'none',
           'broken': doc_rules_broken(seen, bny) if seen is not None else None,
           'has_start': seen is not None and seen.start_id is not None}
    names = [L.name_bytes(nm) for nm in case['names']]
    first, ck = _use(lambda: Checker.load(wire, fns), names, pktcommon.exc_name, True)
    res.update(first)
    if ck is not None:
        # damaged bytes may spell a rule name with a character the line protocol of the driver uses as a separator
        # (the answer cannot be read back then): such a case is judged by the oracle only
        ids = [r for nd in ck.model.nodes for r in (nd.rule_name or [])]
        res['proto_unsafe'] = any(not (ch.isalnum() or ch in '#_$-') for r in ids for ch in r)
    if case.get('reuse') is not None:
        res['rounds'], res['others'] = _reuse(case, wire, fns, first, ck, names, pktcommon.exc_name, True)
    return res


# ------------------------------------------------------------------------------------------ model
def model_line(case, impl):
    if case['kind'] == 'bytes':
        if impl.get('proto_unsafe'):
            return None
        names = [L.name_bytes(nm) for nm in case['names']]
        return 'C13 loadbytes %s %s %s' % (case['wire'] or '-', L.enc_env(case.get('fns', L.FN_NAMES)),
                                          '/'.join(L.enc_name(n) for n in names))
    if case['kind'] == 'schema':
        # the Lean side starts from the schema AST: compiler model, then the loader model on its output
        return 'C13 csanity ' + L.enc_schema(case['schema'])
    tok = impl.get('token')
    if tok is None:
        return None
    names = [L.name_bytes(nm) for nm in case['names']]
    return 'C13 full %s %s %s' % (tok, L.enc_env(case.get('fns', L.FN_NAMES)), '/'.join(L.enc_name(n) for n in names))


def _canon_model_match(r):
    if r.startswith('E~'):
        return [[], r[2:]]
    pm = L.parse_match_answer(r)
    if not pm['halted']:
        return [[[o[0], o[2]] for o in pm['outs']], 'NONTERMINATION']
    return [[[o[0], o[2]] for o in pm['outs']], pm['err']]


def _schema_pair(parts, rd):
    """(model observation, implementation observation) of ONE compilation; pools equal only up to numbering are
    compared in canonical form"""
    if rd['compile'] != 'ok':
        io = {'compile': rd['compile']}
        exact = True
    else:
        exact = parts[0] == 'ok' and parts[1] == rd['token'] and parts[2] == rd['symbols']
        ck = rd.get('checker')
        io = {'compile': 'ok', 'node_pool': rd['token'] if exact else L.canon_pool(rd['token'], rd['symbols']),
              'checker': ck if rd.get('checker_again', ck) == ck else [ck, rd['checker_again']]}
    if parts[0] == 'cerr':
        return {'compile': parts[1]}, io
    return {'compile': 'ok', 'node_pool': parts[1] if exact else L.canon_pool(parts[1], parts[2]), 'checker': parts[3]}, io


def _load_obs(rd):
    if rd['load'] != 'ok':
        return {'load': rd['load']}
    return {'load': 'ok', 'matches': rd['matches'], 'checks': rd['checks']}


def model_obs(answer, case, impl):
    """the model's answer; of the rounds of a session / of a reuse case the first one that differs from it is the
    implementation's observation (impl['_io'], read by impl_obs - lib.py calls model_obs first): every round is compared"""
    parts = answer.split(' ')
    if case['kind'] == 'schema':
        if parts[0] != 'cerr':
            assert parts[0] == 'ok' and len(parts) == 5, answer[:100]
            parts = parts[:3] + parts[4:]       # parts[3] is the merge-key flag, which C11 checks
        pairs = [_schema_pair(parts, rd) for rd in (impl.get('rounds') or [impl])]
        mo, impl['_io'] = next(((m, i) for m, i in pairs if m != i), pairs[0])
        return mo
    assert answer.startswith('ok'), answer[:100]
    if parts[1] == 'accepted-nocnt':
        mo = {'load': 'ok-nocnt'}
    elif parts[1] != 'accepted':
        mo = {'load': parts[1]}
    else:
        ms = [_canon_model_match(r) for r in parts[2].split('/')]
        cs = [True if c == '1' else False if c == '0' else c for c in parts[3].split(',')]
        mo = {'load': 'ok', 'matches': ms, 'checks': cs}
    obs = [_load_obs(rd) for rd in (impl.get('rounds') or [impl])]
    impl['_io'] = next((o for o in obs if o != mo), obs[0])
    return mo


def impl_obs(impl):
    if '_io' in impl:
        return impl['_io']
    if 'compile' in impl:
        if impl['compile'] != 'ok':
            return {'compile': impl['compile']}
        return {'compile': 'ok', 'node_pool': impl['token'], 'checker': impl.get('checker')}
    return _load_obs(impl)


# ----------------------------------------------------------------------------------------- oracle
def _judge_schema(info, rd):
    """one compilation (and the checkers built from its result) against what the statement says about the text"""
    if rd['compile'] != 'ok':
        outcomes = [(rd['compile'], rd.get('checker'), '')]
    else:
        outcomes = [(rd.get('checker'), rd.get('checker'), '')]
        if 'checker_again' in rd:
            outcomes.append((rd['checker_again'], rd['checker_again'], ' by the second Checker built from one model object'))
    if info['static_errors']:
        for outcome, shown, which in outcomes:
            if outcome != 'SemanticError':
                return (f"schema with static error {info['static_errors']} is not rejected with SemanticError "
                        f"(compile={rd['compile']}, checker={shown})" + which)
        return None
    # "no name pattern is, directly or transitively, its own signer": name patterns told apart by their keys
    # (compile_sane_keys; the shape criterion may_self_sign is coarser and only reported in the tags)
    if info.get('key_self_sign', info['may_self_sign']):
        return None
    for outcome, shown, which in outcomes:
        if outcome != 'ok':
            return f'well-formed schema without self-signing is rejected: compile={rd["compile"]} checker={shown}' + which
    for key in ('reload', 'reload_again'):
        if (key == 'reload' or key in rd) and rd.get(key) != 'ok':
            return (f'model of a well-formed schema does not survive save/load: {rd.get(key)}' +
                    (' at the second load of one bytes object' if key != 'reload' else ''))
    return None


def _schema_failure(case, impl):
    """(why, info, round) of the first compilation of the case that fails the statement, or None"""
    if not case.get('session'):
        why = _judge_schema(impl, impl)
        return (why, impl, impl) if why else None
    shape = L.session_shape(case['session'])
    for k, rd in enumerate(impl['rounds']):
        why = _judge_schema(impl, rd)
        if why:
            return f'{why} [compilation {k + 1} of this text in one process; session: {shape}]', impl, rd
    for label, o in impl['others']:
        why = _judge_schema(o, o)
        if why:
            return f'{why} [the text compiled as "{label}" in session: {shape}]', o, o
    return None


def _judge_load(impl, rd):
    """one Checker built from the bytes (and the searches on it) against the documented rules"""
    if impl.get('bytes'):
        # bytes that do not read as the documented layout: whatever leaves Checker.load must be a documented decoding
        # error or one of the two documented error classes (TypeError only for bytes without StartId)
        allowed = {'ok', 'ok-nocnt', 'LvsModelError', 'SemanticError', 'DecodeError', 'IndexError', 'ValueError', 'struct.error'}
        if rd['load'] == 'TypeError' and impl['has_start']:
            return 'Checker.load raises TypeError on bytes that carry a StartId'
        if rd['load'] not in allowed | {'TypeError'}:
            return f"Checker.load raises {rd['load']}: neither a decoding error nor a documented model error"
        if rd['load'] in ('DecodeError', 'IndexError', 'ValueError', 'struct.error'):
            return None         # the bytes do not decode (e.g. an identifier that is not UTF-8): there is no model to judge
    if impl['broken'] and rd['load'] != 'LvsModelError':
        return f"model breaking the documented sanity rule '{impl['broken']}' is not rejected with LvsModelError (load={rd['load']})"
    if rd['load'] == 'ok':
        if any(m[1] == 'NONTERMINATION' for m in rd['matches']):
            return 'match does not terminate on an accepted model'
        if any(c == 'NONTERMINATION' for c in rd['checks']):
            return 'check does not terminate on an accepted model'
    return None


def oracle(case, impl):
    if case['kind'] == 'schema':
        f = _schema_failure(case, impl)
        return f[0] if f else None
    if impl['load'].startswith('unencodable'):
        return None
    why = _judge_load(impl, impl)
    if why:
        return why
    for key in ('direct', 'direct_again'):
        if impl.get('broken_mem') and key in impl and impl[key] != 'LvsModelError':
            return (f"in-memory model breaking the documented sanity rule '{impl['broken_mem']}' is not rejected with LvsModelError "
                    f"by Checker(model, fns) ({impl[key]})" + (' - the second Checker built from one model object' if key != 'direct' else ''))
    # reuse: every further Checker object (same bytes object, same model object; the same or another user-function table)
    # and every repeated search is judged on its own
    for k, rd in enumerate((impl.get('rounds') or [])[1:]):
        why = _judge_load(impl, rd)
        if why:
            return why + ' [%s]' % ('a second Checker loaded from the same bytes object' if k == 0 else 'the first Checker asked again')
    for rd in impl.get('others') or []:
        why = _judge_load(impl, rd)
        if why:
            return why + ' [a further Checker from the same bytes / model object under another user-function table]'
    return None


def nontrivial(case, impl):
    return (case['kind'] in ('model', 'bytes') or case.get('inject') is not None or bool(case.get('merge'))
            or bool(case.get('session')))


def tags(case, impl):
    if case['kind'] == 'schema':
        t = ['schema:' + (case['inject'] or 'well-formed')]
        if case.get('early_def'):
            t.append('error-in-earlier-definition-of-redefined-rule:' + case['inject'])
        t.append('outcome:' + (impl['compile'] if impl['compile'] != 'ok' else impl.get('checker', '?')))
        if impl.get('key_self_sign'):
            t.append('self-signing-by-keys(no demand)')
        elif impl['may_self_sign']:
            t.append('self-signing-by-shape-only(acceptance demanded)')
        if case.get('merge'):
            t.append('merge-motif:' + (impl['compile'] if impl['compile'] != 'ok' else impl.get('checker', '?')) +
                     (':temp-free' if impl.get('temp_free') else ':temporaries'))
        if case.get('corpus'):
            t.append('corpus:%s:%s' % (case['corpus'], impl['compile'] if impl['compile'] != 'ok' else impl.get('checker', '?')))
        if case.get('session'):
            t.append('session:' + L.session_shape(case['session']) + ('(ill-formed text)' if case.get('inject') else ''))
            t.append('session-compilations:%d' % (len(impl['rounds']) + len(impl['others'])))
            for label, o in impl['others']:
                t.append('session-other:%s:%s' % (label, o['compile'] if o['compile'] != 'ok' else o.get('checker', '?')))
            for r in impl['raws']:
                t.append('session-raw:' + r)
            for r in case['schema']['rules']:
                tp = [c[1] for c in r['name'] if c[0] == 'pat']
                if any(tp.count(x) > 1 and any(tm['pat'] == x for cs in r['cons'] for tm in cs) for x in set(tp)):
                    t.append('session:constrained-pattern-written-twice-in-one-name' + ('(temporary)' if any(L.is_temp(x) and tp.count(x) > 1 for x in tp) else ''))
                    break
        return t
    reuse = ['reuse:checkers=%d' % (len(impl.get('rounds') or []) + len(impl.get('others') or []))] if case.get('reuse') is not None and 'rounds' in impl else []
    if case['kind'] == 'bytes':
        t = ['bytes:' + case.get('how', '?'), 'bytes-load:' + impl['load'], 'rules-read-by:' + str(impl.get('reader'))]
        if impl.get('broken'):
            t.append('breaks:' + impl['broken'])
        return t + reuse
    mu = case['mut']
    t = ['mut:' + mut_kind(mu), 'load:' + impl['load'], 'rules-read-by:' + str(impl.get('reader'))] + reuse
    if 'direct' in impl:
        t.append('direct:' + impl['direct'])
    if impl.get('broken'):
        t.append('breaks:' + impl['broken'])
    if impl['load'] == 'ok':
        t.append('accepted-corrupted')
        for m in impl['matches']:
            if m[1]:
                t.append('match-raises:' + m[1])
    return t


def finding_key(case, impl, why):
    if case['kind'] == 'schema':
        f = _schema_failure(case, impl)
        info, rd = (f[1], f[2]) if f else (impl, impl)
        tail = '-in-session' if case.get('session') else ''
        if 'well-formed schema' in why:
            m = why.split('checker=')[1].split(' ')[0] if 'checker=' in why else str(rd.get('checker'))
            return 'wellformed-schema-rejected-' + str(rd.get('compile')) + '-' + m + tail
        if 'save/load' in why:
            return 'save-load-differs' + tail
        return 'static-error-not-rejected-' + '-'.join(info['static_errors']) + tail
    tail = '-on-reuse' if why.endswith(']') else ''
    if 'terminate' in why:
        return 'accepted-model-nontermination' + tail
    if 'Checker.load raises' in why:
        return 'load-raises-undocumented-' + str(impl.get('load')) + tail
    if 'in-memory' in why:
        return 'broken-rule-accepted-in-memory-' + str(impl.get('broken_mem')) + '-' + str(impl.get('direct'))
    return 'broken-rule-accepted-' + str(impl.get('broken')) + '-' + str(impl.get('load')) + tail


LEVEL_TEXT = ('Lean 4 theorems over a hand-written model of Checker._sanity_check and Checker._match: the loader\'s structural '
              'check succeeds iff the six documented sanity rules hold (node ids for every node of the array, the other rules of the reachable part; both directions; the (<=) direction '
              'proves that "parent = source" makes the reachable part a tree, so the dfs ends within its fuel); on every accepted '
              'model the iterative back-tracking search ends within an explicit bound stepBound(maxPE, |name|) for every name, '
              'context and user-function dictionary; check only runs such searches. The compiler (compiler.py, all passes as written) is '
              'modelled as well: it raises exactly on the schemas with a static error of the listed kinds, and then SemanticError; every '
              'emitted model is structurally sane and accepted iff there is no signing cycle among its nodes, iff the merge-key paths of its rule chains do not sign each other in a cycle (for schemas without temporary patterns: iff no name pattern of the text is its own signer). Checker.load is modelled on bytes (decoder model of C07/C08 + loader) and total with documented error classes. Tied to the code on every run by differential '
              'execution: schema ASTs (well-formed and with one injected error) through the Lean compiler + loader vs compile_lvs + Checker '
              '(node pools compared), the compiled model against the real Checker.load/match/check on single-field corruptions of '
              'compiled models, plus the property oracle (documented rules, step cap, static errors) on the implementation.'
              " VERSION / MIN_SUPPORTED_VERSION, the Type numbers and field order of the binary model classes (tied to C08's shipped LvsModel schema), the loader's ordered rule list, the compiler's static errors with their exception classes and the except tuple of _gen_pattern_numbers are regenerated from the source on every run (lean/NdnGen/C13.lean) and pinned by theorems closed by evaluation (NdnProofs/Props/C13Tables.lean).")
LEVEL_NOTE = ('Proof is about the model; model=code is sampled. The schema-level half is proved for the compiler model (raises exactly on '
              'static errors, SemanticError only; output sane; accepted iff no node-level signing cycle iff the merge-key paths of the '
              'chains do not sign each other in a cycle; at the level of the text: accepted if no name pattern is its own signer (name '
              'patterns told apart by their keys), and iff for schemas without temporary patterns; counterexamples show that rule-level '
              'acyclicity is not enough). Checker.load is total on byte strings with the stated error classes. Not proved: the exact '
              'text-level criterion for schemas with temporary patterns (see compile_sane_partial).')
TECHNIQUE = 'Lean 4 proof (simulation of the iterative search by structural recursion; dfs soundness/completeness with a pigeonhole argument; invariants of the compiler passes; Kahn both directions) + model/implementation correspondence check (compiler, loader, matcher) + schema-level oracle'
DESIGN_REF = 'DESIGN.md section 7, C13; findings F10, F16'
