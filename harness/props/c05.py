"""C05 - nothing that requires validation reaches the application unvalidated
(src/ndn/appv2.py, src/ndn/app.py, src/ndn/types.py, src/ndn/security/validator/digest_validator.py).

Two kinds of cases:

  {'kind': 'h', ...}   an event history as in C03 (same generator, same runner, same model), here judged strictly:
                       the verdict and the latency of the scripted validator fix the outcome
  {'kind': 'g', 'fe': .., 'pkt': {'params': bool|'empty', 'sig': bool, 'digest_ok': bool|'absent', 'sig_valid': bool,
                                  'dpos': 'mid' (optional), 'lp': True (optional)},
   'route': 'none' | 'nocb' | {'validator': None | {'verdict': str, 'lat': ms}}, 'dup': bool, 'reattach': bool}
                       one incoming Interest through the gate of _on_interest / submit_interest.
                       digest_ok 'absent' = the name has no ParametersSha256DigestComponent at all; dpos 'mid' = the
                       digest component is not the last one; lp = the Interest arrives inside an LpPacket; dup = a
                       second registration on the prefix was attempted (and refused) before; reattach = the prefix was
                       first registered with another validator, removed, and registered again.
                       hardening 2 (helpers of the gate): pkt 'dvar' = the digest component is a near miss of the right
                       digest ('first' / 'last' octet differs, 'empty', 'prefix:K' = only its first K octets, 'suffix:K',
                       'ext:K' = the right digest followed by K more octets, 'pad:K' = first K octets then zeros up to 32);
                       pkt 'svar' = the same near misses of the DigestSha256 SignatureValue (parameters digest right),
                       which matter to the legacy default validator; pkt 'shape' = {'info': bool, 'value': None | 'empty' |
                       'full'}: a HAND-BUILT Interest (no encoder of the library writes these) with / without the
                       InterestSignatureInfo element (0x2c) and without / with an empty / with a 32-octet
                       InterestSignatureValue element (0x2e) - a half-signed Interest; it "carries a signature" iff it
                       carries an InterestSignatureInfo (pkt 'sig' says so), whatever the decoder makes of it;
                       route 'appv' = the application-wide legacy
                       int_validator was replaced by a script; route validator {'union': [script, ...]} = the route's
                       validator is security.union_checker over scripted members (legacy signature)
  {'kind': 'd', 'svar': None | near miss, 'appv': None | {'verdict': ..}, 'raw': bool, 'lp': bool}
                       legacy front-end, Data side of the same helpers: an Interest expressed WITHOUT validator is
                       answered by a Data whose DigestSha256 SignatureValue is right / a near miss; the validator in
                       force is the application-wide data_validator (the library's sha256_digest_checker, or a script
                       when 'appv' is given). Oracle only.
  {'kind': 't', 'fe': .., 'line': [entry, ...]}
                       a TIMED history of the incoming-Interest gate (validation takes time, the routing table changes
                       meanwhile).  Entries, in time order (all instants distinct):
                         {'t': ms, 'op': 'attach', 'name': '/g', 'h': hid | None, 'v': vid | None}
                         {'t': ms, 'op': 'detach', 'name': '/g'}
                         {'t': ms, 'op': 'interest', 'name': '/g/x0', 'pkt': {...as in kind g...}, 'verdict': .., 'lat': ms}
                       handlers and validators are identified by numbers (every attach entry has its own handler id);
                       whichever validator is consulted with an Interest answers with THAT Interest's verdict after
                       its latency (or raises); the legacy application-wide int_validator is validator 0.
                       The model is given the same history as events (attach / detach / arrive+start at the instant of
                       arrival / done at arrival + latency) and answers, per event, what is observed (digest check,
                       validator vid called with Interest i, handler hid called with Interest i, task of Interest i died).
  kind 'g' with 'swap' (the older form of the same question) is put to the timed model too.
  kind 'g' pkt 'psize' = the ApplicationParameters are that many octets (hardening 4; put to the model like any 'g').
  {'kind': 'q', 'salt': n, 'pkts': [{'under': '/g', 'size': octets, 'sig': bool} | {'under': .., 'plain': True}
                                    | {'of': index of a genuine packet, 'edit': .., 'refresh': bool}, ...],
   'sessions': [{'fe': .., 'routes': [{'name': '/g', 'h': hid, 'v': None | {'verdict': .., 'lat': ms}}], 'appv': ..,
                 'steps': [{'p': packet index, 'lp': bool, 'burst': bool}, ...]}, ...]}
                       hardening 4: a HISTORY of Interests through the gate in one process - genuine Interests and
                       variants that keep their name (see the section "histories of Interests"), fed to a sequence of
                       application objects of either front-end.  Oracle only.
"""
import asyncio
import collections
import hashlib

from apphelp import AppRig
from props import c03, pit_extract

PROP = 'C05'
TITLE = 'Nothing that requires validation reaches the application unvalidated'
LEAN_TARGETS = ['NdnProofs.Props.C05']
THEOREMS = ['Ndn.C05.' + t for t in (
    'data_only_if_accepted', 'other_verdict_failure', 'every_verdict_decides', 'resolve_awaited', 'validator_late_timeout',
    'tie_data_only_if_accepted',
    'interest_digest_gate', 'interest_validated_before_handler_v2', 'interest_validated_before_handler_v1',
    'interest_rejected_by_verdict', 'plain_interest_no_validator',
    # the models compute with / are pinned to the tables generated from the source text (lean/NdnGen/C05.lean, C03.lean)
    'onInterest_eq_ref', 'digest_check_exact', 'gen_valid_result', 'gen_data_delivers', 'gen_interest_delivers',
    'gen_gate_order', 'gen_gate_when', 'gen_digest_checkers',
    # the timed gate (NdnModel/GateTimed.lean): every event history, table changes while validators decide
    'timed_flight', 'timed_only_own_events', 'timed_validated_before_handler_v2', 'timed_validated_before_handler_v1',
    'timed_handler_only_with_its_validator', 'timed_handler_only_with_its_validator_v1', 'arrival_registration',
    'arrival_no_route', 'timed_digest_gate', 'timed_plain', 'timed_at_most_once', 'timed_rejected',
    'timed_not_before_verdict', 'timed_validator_raises', 'timed_refines_atomic', 'timed_atomic_when_undisturbed',
    'timed_deadline_irrelevant', 'life_eq_ref', 'gen_timed')] + [
    'Ndn.GateTimed.heap_frozen', 'Ndn.GateTimed.registrations_refine', 'Ndn.GateTimed.cbOf_run'] + [
    # pins of the verdict part of the PIT table, on which every lemma file of C03 / C05 is built (Lemmas/PitGen.lean)
    'Ndn.C03.gen_data_verdict', 'Ndn.C03.gen_table_ok']
PARTIAL = {}
TRUSTED = c03.TRUSTED + [
    'C05: lean/NdnGen/C05.lean is regenerated from the source text of appv2.py / app.py / types.py / '
    'security/validator/digest_validator.py by every run (harness/props/pit_extract.py, ast only): when the digest check '
    'and the validator are required, what stands in for a missing route validator, the verdict of a plain Interest and '
    'the delivering verdicts are VALUES THE GATE MODEL COMPUTES WITH (onInterest_eq_ref evaluates them); the member '
    'list of ValidResult, the order of the gate steps, the `==` of params_sha256_checker / sha256_digest_checker (full '
    'equality, digest_check_exact), their emptiness guards, the SignaturePtrs fields they read and the legacy default '
    'validators are PINNED by gen_*. Trusted as for C03: the extractor and its normalisation',
    'C05: validators are scripts (verdict, latency); the packets a validator sees are identified by their signature '
    'value; the legacy default validators (sha256_digest_checker) are represented by the answer they give for the '
    'packet the harness built (valid / corrupted DigestSha256 signature)',
    'C05: the incoming-Interest gate is modelled after decoding and route lookup (decoding = C07, dispatch = C04); '
    'params_sha256_checker is observed through a logging wrapper installed by the harness',
    'C05 timed gate: asyncio is modelled as three instants per Interest - arrival (`_on_interest` up to create_task runs '
    'without yielding: the only await before the spawn is the digest check, pinned by gen_timed; that the checker itself '
    'does not yield is sampled), first turn of the spawned task (same loop iteration batch as the arrival in the harness), '
    'return of the validator; an exception that ends a task nobody awaits goes to the loop exception handler only. '
    'pygtrie is an association list name -> node object; PrefixTreeNode objects live on a heap with addresses. '
    'lean/NdnGen/C05T.lean is regenerated from appv2.py / app.py by every run (generate_c05t below, ast only)',
]
def extract(repo):
    """lean/NdnGen/C05.lean from the source text; the PIT table (C03) is refreshed with it: the Data side of this
    property is stated over the PIT model"""
    c03._refresh('C03', pit_extract.generate_c03(repo))
    c03._refresh('C05T', generate_c05t(repo))
    return pit_extract.generate_c05(repo)


def submit_shape(cls, attach):
    """what the timed model depends on in `_on_interest` / `submit_interest` / the attach function (ast only)"""
    import ast
    X = pit_extract
    g = {'lookups': 0, 'nodeBinds': [], 'spawn': 'unknown: ?', 'validatorRead': 'unknown: ?', 'callbackCall': 'unknown: ?',
         'validatorCaught': ['unknown'], 'validatorCaughtAs': 'unknown', 'awaitsBefore': [], 'valWrite': 'unknown'}
    f = X.find_func(cls, '_on_interest') if cls else None
    sub = X.find_func(f, 'submit_interest') if f else None
    if f is None or sub is None:
        return g
    # every mention of the handler table inside _on_interest (the nested task included): one lookup
    g['lookups'] = sum(1 for n in ast.walk(f) if isinstance(n, ast.Attribute) and isinstance(n.value, ast.Name)
                       and n.value.id == 'self' and n.attr in ('_fib', '_prefix_tree'))
    binds = []
    for n in ast.walk(f):
        tg = []
        if isinstance(n, ast.Assign):
            tg = n.targets
        elif isinstance(n, (ast.AnnAssign, ast.AugAssign, ast.For, ast.AsyncFor, ast.NamedExpr)):
            tg = [n.target]
        elif isinstance(n, (ast.With, ast.AsyncWith)):
            tg = [i.optional_vars for i in n.items if i.optional_vars is not None]
        if any(isinstance(x, ast.Name) and x.id == 'node' for t in tg for x in ast.walk(t)):
            binds.append(ast.unparse(n).split('\n')[0])
    g['nodeBinds'] = binds
    g['spawn'] = ast.unparse(f.body[-1])
    reads = sorted(set(ast.unparse(n) for n in ast.walk(sub) if isinstance(n, ast.Attribute) and n.attr == 'validator'))
    g['validatorRead'] = ' | '.join(reads) if reads else 'unknown: none'
    calls = sorted(set(ast.unparse(n.value.func) for n in ast.walk(sub) if isinstance(n, ast.Expr)
                       and isinstance(n.value, ast.Call) and not ast.unparse(n.value.func).startswith('self.logger')))
    g['callbackCall'] = ' | '.join(calls) if calls else 'unknown: none'
    caught, caught_as = [], 'unknown'
    for n in ast.walk(sub):
        if isinstance(n, ast.Try) and any(isinstance(x, ast.Await) for st in n.body for x in ast.walk(st)):
            for h in n.handlers:
                caught += X.handler_classes(h)
                for st in h.body:
                    if isinstance(st, ast.Assign) and ast.unparse(st.targets[0]) == 'valid':
                        caught_as = X.vr_of(st.value) or 'unknown'
    g['validatorCaught'] = X.sort_exc(caught)
    g['validatorCaughtAs'] = caught_as

    def awaits(node, acc):
        for ch in ast.iter_child_nodes(node):
            if isinstance(ch, (ast.FunctionDef, ast.AsyncFunctionDef, ast.Lambda)):
                continue
            if isinstance(ch, ast.Await):
                acc.append(ast.unparse(ch))
            awaits(ch, acc)
        return acc
    g['awaitsBefore'] = awaits(f, [])
    a = X.find_func(cls, attach)
    if a is not None:
        def writes(st):
            return isinstance(st, ast.Assign) and ast.unparse(st.targets[0]) == 'node.validator'
        if sum(1 for n in ast.walk(a) if writes(n)) == 1:
            if any(writes(st) for st in a.body):
                g['valWrite'] = 'always'
            elif any(isinstance(st, ast.If) and ast.unparse(st.test) == 'validator' and not st.orelse
                     and len(st.body) == 1 and writes(st.body[0]) for st in a.body):
                g['valWrite'] = 'ifTruthy'
    return g


def generate_c05t(repo):
    """lean/NdnGen/C05T.lean"""
    X = pit_extract
    P = X._src(repo)
    out = ['import NdnModel.GateTimedShape',
           '/- GENERATED by harness/props/c05.py (generate_c05t) from src/ndn/appv2.py, src/ndn/app.py (ast only; nothing is '
           'executed). Do not edit. -/',
           'namespace Ndn.Gen.C05T', 'open Ndn Ndn.Src', '']
    strs = lambda xs: '[' + ', '.join(X.lean_str(x) for x in xs) + ']'
    for tag, path, attach in (('v2', P['v2'], 'attach_handler'), ('v1', P['v1'], 'set_interest_filter')):
        g = submit_shape(X.find_class(X.parse(path), 'NDNApp'), attach)
        out += X._struct(tag, 'SubmitShape', [
            ('lookups', str(g['lookups'])), ('nodeBinds', strs(g['nodeBinds'])), ('spawn', X.lean_str(g['spawn'])),
            ('validatorRead', X.lean_str(g['validatorRead'])), ('callbackCall', X.lean_str(g['callbackCall'])),
            ('validatorCaught', X._exc_list(g['validatorCaught'])), ('validatorCaughtAs', '.' + g['validatorCaughtAs']),
            ('awaitsBefore', strs(g['awaitsBefore'])), ('valWrite', '.' + g['valWrite'])])
    out += ['end Ndn.Gen.C05T', '']
    return '\n'.join(out)


RULE = ('(a) the event histories of C03 (incl. its hardening dimensions: parameterised / signed Interests, MustBeFresh, '
        'need_raw_packet, Data inside LpPackets, bursts in one loop turn, lifetime 0, no_response, late awaits - all of them '
        'put to the model, ties as membership in the set of outcome vectors it allows) with validator verdicts drawn from all ValidResult values / truthiness (v2: also values that are no ValidResult member - False, None, 0, True, the string PASS - which must not deliver) and the '
        'raising ones, latencies straddling the deadline, judged strictly; (b) every combination of ApplicationParameters '
        '/ signature presence x digest correct or corrupted x signature valid or corrupted x route none / without '
        'callback / with or without validator x every scripted answer x latency, both front-ends; digest component '
        'absent / in the middle of the name, Interest inside an LpPacket with PIT token, registration refused (dup) or '
        'removed and made again (reattach) with an intruder validator of the opposite verdict; (c) helpers of the gate: the '
        'digest component a near miss of the right digest (first / last octet differs, empty, its first 1..31 octets, its '
        'last octets, the right digest followed by more octets, zero-padded prefix; at the end / mid-name / in an LpPacket) '
        'on every route, both front-ends, signed and unsigned parameters; the same near misses of the DigestSha256 '
        'SignatureValue of Interests (legacy default int_validator) and of Data answering an Interest expressed without '
        'validator (legacy default data_validator, also with need_raw_packet / in an LpPacket); the application-wide legacy '
        'validators replaced by scripts (in force exactly where no validator was supplied); the route validator a '
        'union_checker over 0..3 scripted members (in force: all of them, each consulted before the handler); (d) TIMED histories '
        'of the gate, both front-ends, compared observation for observation and instant for instant with the timed model '
        '(which validator was called with which Interest when, which handler got which Interest when, which submit_interest '
        'task died with which exception, what every attach / detach returned): the prefix detached / detached and attached '
        'again with another handler and validator (or without validator) / attached a second time / a longer prefix attached '
        '/ the shorter prefix removed - before the Interest arrives, while its validator decides, after it answered - for '
        'every verdict incl. the raising ones and a validator that answers without yielding; two Interests in flight under '
        'one prefix whose validators answer in the opposite order with different verdicts; wrong / absent digests; a '
        'registration without callable written in place later; random histories of 3..10 attach / detach / Interest entries '
        'over four nested prefixes; (e) the SIZE of the digest-covered part (ApplicationParameters of 0 .. 70000 octets, '
        'straddling 253 / 1 Ki / 2 Ki / 4 Ki / 8 Ki / 64 Ki) for the right digest, a wrong one and its near misses on every kind of '
        'route (put to the model), and HISTORIES of Interests in one process (oracle only): a genuine parameterised / signed '
        'Interest and variants that KEEP ITS NAME, digest component included, with other parameters (all / one bit at the '
        'front, middle, end / one octet shorter, longer / emptied), one bit of the signature value, another SignatureInfo, '
        'the signature stripped or added, only another nonce (still right), near misses of the digest component, or the '
        'digest computed again after the edit (right digest, stale DigestSha256 signature) - fed in any order, repeated, '
        'bare or in LpPackets, one per loop turn or several in one, to one application object or to a sequence of new ones '
        '(either front-end, new event loop, other routing table, scripted / missing / the library\'s default validators): '
        'every Interest of every session is judged by what the packet itself says, whatever passed the gate before it. non-trivial = a '
        'history in which some validator ran, or a gate case with parameters or signature; distinct = distinct cases')

V2_ALL = ['PASS', 'ALLOW_BYPASS', 'FAIL', 'TIMEOUT', 'SILENCE', 'RAISE_TIMEOUT', 'RAISE_OTHER'] + list(c03.B_VALUES)
V1_ALL = ['PASS', 'FAIL', 'NONE', 'ZERO', 'ONE', 'RAISE_TIMEOUT', 'RAISE_OTHER']
V1_HIST = V1_ALL + ['DEFAULT']
F15_KEY = 'v1-validator-outlives-lifetime-and-still-decides'


# ------------------------------------------------------------------------------------- cases
DVARS = ['first', 'last', 'empty'] + ['prefix:%d' % k for k in range(1, 32)] + ['suffix:31', 'suffix:1'] \
    + ['ext:%d' % k for k in (1, 2, 32)] + ['pad:1', 'pad:16', 'pad:31']
DVARS_QUICK = ['first', 'last', 'empty', 'prefix:1', 'prefix:16', 'prefix:31', 'suffix:31', 'ext:1', 'ext:32', 'pad:31']
SVARS = ['first', 'last', 'empty'] + ['prefix:%d' % k for k in (1, 2, 8, 16, 24, 30, 31)] + ['suffix:31', 'ext:1', 'ext:32',
                                                                                               'pad:31']
SVARS_QUICK = ['first', 'last', 'empty', 'prefix:1', 'prefix:31', 'ext:1', 'pad:31']


SHAPES = [{'info': True, 'value': None}, {'info': False, 'value': 'full'}, {'info': True, 'value': 'empty'}]


def data_cases(thorough):
    for sv in [None] + (SVARS if thorough else SVARS_QUICK):
        for raw in (False, True):
            for lp in (False, True):
                yield {'kind': 'd', 'svar': sv, 'appv': None, 'raw': raw, 'lp': lp}
    for v in V1_ALL:
        for sv in (None, 'last', 'prefix:31'):
            yield {'kind': 'd', 'svar': sv, 'appv': {'verdict': v}, 'raw': False, 'lp': False}


def gate_cases(fe, thorough=False):
    verdicts = V2_ALL if fe == 'v2' else V1_ALL
    pkts = [{'params': False, 'sig': False, 'digest_ok': True, 'sig_valid': True}]
    # 'empty' = ApplicationParameters present with zero length (24 00): still a parameterised Interest
    for params, sig in ((True, False), ('empty', False), (True, True), ('empty', True), (False, True)):
        for digest_ok in (True, False):
            for sig_valid in ((True, False) if (sig and params) else ((False,) if sig else (True,))):
                pkts.append({'params': params, 'sig': sig, 'digest_ok': digest_ok, 'sig_valid': sig_valid})
    # hardening: no digest component at all; digest component in the middle of the name (right / wrong); in an LpPacket
    for params, sig in ((True, False), ('empty', False), (True, True), (False, True)):
        pkts.append({'params': params, 'sig': sig, 'digest_ok': 'absent', 'sig_valid': bool(sig and params)})
        for digest_ok in (True, False):
            pkts.append({'params': params, 'sig': sig, 'digest_ok': digest_ok, 'sig_valid': bool(sig and params),
                         'dpos': 'mid'})
        pkts.append({'params': params, 'sig': sig, 'digest_ok': True, 'sig_valid': bool(sig and params), 'lp': True})
        pkts.append({'params': params, 'sig': sig, 'digest_ok': False, 'sig_valid': bool(sig and params), 'lp': True})
    pkts.append({'params': False, 'sig': False, 'digest_ok': True, 'sig_valid': True, 'lp': True})
    routes = ['none', 'nocb', {'validator': None}]
    for v in verdicts:
        routes.append({'validator': {'verdict': v, 'lat': 0}})
        routes.append({'validator': {'verdict': v, 'lat': 30}})
    # hardening 3: half-signed Interests (hand-built): InterestSignatureInfo without InterestSignatureValue, the value
    # without the info, both with an EMPTY value - with ApplicationParameters present / empty / absent, the parameters
    # digest right / wrong / absent, bare and inside an LpPacket, on every route.  What decides is the packet (an
    # InterestSignatureInfo element = a signature), not what the decoder reports about it
    for sh in SHAPES:
        for params in (True, 'empty', False):
            for digest_ok in (True, False, 'absent'):
                for lp in (False, True):
                    p = {'params': params, 'sig': sh['info'], 'digest_ok': digest_ok, 'sig_valid': False, 'shape': sh}
                    if lp:
                        p['lp'] = True
                    for r in routes:
                        if lp and isinstance(r, dict) and r['validator'] and r['validator']['lat'] and not thorough:
                            continue
                        yield {'kind': 'g', 'fe': fe, 'pkt': p, 'route': r}
    # hardening 2: near misses of the right digest (shared helper params_sha256_checker) - every route, no dup / reattach
    for params, sig in ((True, False), ('empty', False), (True, True), (False, True)):
        for dv in (DVARS if thorough else DVARS_QUICK):
            for lp in ((False, True) if dv in ('prefix:1', 'prefix:31', 'ext:1') else (False,)):
                p = {'params': params, 'sig': sig, 'digest_ok': False, 'sig_valid': bool(sig and params), 'dvar': dv}
                if lp:
                    p['lp'] = True
                for r in routes:
                    yield {'kind': 'g', 'fe': fe, 'pkt': p, 'route': r}
                if dv in ('prefix:31', 'ext:1', 'last') and params is True:
                    # ... with the digest component in the middle of the name
                    for r in routes:
                        yield {'kind': 'g', 'fe': fe, 'pkt': dict(p, dpos='mid'), 'route': r}
    # near misses of the DigestSha256 signature value (shared helper sha256_digest_checker = the legacy default
    # validator); the parameters digest is right, so the Interest gets as far as the validator in force
    acc = {'validator': {'verdict': 'PASS', 'lat': 0}}
    for params in (True, 'empty'):
        for sv in (SVARS if thorough else SVARS_QUICK):
            p = {'params': params, 'sig': True, 'digest_ok': True, 'sig_valid': False, 'svar': sv}
            for r in ({'validator': None}, acc, {'validator': {'verdict': 'FAIL', 'lat': 0}}):
                yield {'kind': 'g', 'fe': fe, 'pkt': p, 'route': r}
            yield {'kind': 'g', 'fe': fe, 'pkt': dict(p, lp=True), 'route': {'validator': None}}
    if fe == 'v1':
        signed = [{'params': True, 'sig': True, 'digest_ok': True, 'sig_valid': sv} for sv in (True, False)]
        others = [{'params': True, 'sig': False, 'digest_ok': True, 'sig_valid': True},
                  {'params': True, 'sig': True, 'digest_ok': False, 'sig_valid': True},
                  {'params': False, 'sig': False, 'digest_ok': True, 'sig_valid': True}]
        # the application replaced the application-wide default validator: that script is the validator in force of a
        # route without validator, and of no other route
        for v in V1_ALL:
            for p in signed + others:
                yield {'kind': 'g', 'fe': fe, 'pkt': p, 'route': {'validator': None, 'appv': {'verdict': v, 'lat': 0}}}
            yield {'kind': 'g', 'fe': fe, 'pkt': signed[0],
                   'route': {'validator': None, 'appv': {'verdict': v, 'lat': 30}}}
            for w in ('PASS', 'FAIL'):
                yield {'kind': 'g', 'fe': fe, 'pkt': signed[0],
                       'route': {'validator': {'verdict': w, 'lat': 0}, 'appv': {'verdict': v, 'lat': 0}}}
        # the route's validator is union_checker over scripted members: in force is the conjunction
        ms = ['PASS', 'FAIL', 'ONE', 'NONE'] if not thorough else V1_ALL
        unions = [[]] + [[a] for a in ms] + [[a, b] for a in ms for b in ms] \
            + [[a, b, c] for a in ('PASS', 'FAIL') for b in ('PASS', 'FAIL') for c in ('PASS', 'FAIL')]
        if thorough:
            unions += [['RAISE_OTHER', 'PASS'], ['PASS', 'RAISE_OTHER'], ['PASS', 'RAISE_TIMEOUT', 'PASS']]
        for u in unions:
            for lat in (0, 7):
                r = {'validator': {'union': [{'verdict': v, 'lat': lat} for v in u]}}
                for p in signed[:1] + others:
                    yield {'kind': 'g', 'fe': fe, 'pkt': p, 'route': r}
    for p in pkts:
        for r in routes:
            yield {'kind': 'g', 'fe': fe, 'pkt': p, 'route': r}
            if isinstance(r, dict) and (p['params'] or p['sig']):
                # the same, after a second registration on the occupied prefix (with an intruder validator of the
                # opposite verdict) was attempted and refused: the validator in force must still be the first one
                yield {'kind': 'g', 'fe': fe, 'pkt': p, 'route': r, 'dup': True}
                # the same, where the prefix had been registered with the intruder validator and removed before:
                # the validator in force is the one of the registration that exists now
                if not p.get('dpos') and not p.get('lp') and (not r['validator'] or not r['validator']['lat']):
                    yield {'kind': 'g', 'fe': fe, 'pkt': p, 'route': r, 'reattach': True}


def swap_cases(fe):
    """the routing table changes while the validator of an incoming Interest is still deciding (latency 30 ms, the
    change happens after 15): the prefix is detached - leaving a handler on the shorter prefix '/' whose own validator
    (none, which means rejection in the current front-end; a refusing script in the legacy one) never accepts - or
    detached and attached again with another handler and a validator of the opposite verdict.  Put to the timed model
    (swap_as_timed) and to the oracle."""
    verdicts = (V2_ALL if fe == 'v2' else V1_ALL)
    pkts = [{'params': True, 'sig': False, 'digest_ok': True, 'sig_valid': True},
            {'params': 'empty', 'sig': False, 'digest_ok': True, 'sig_valid': True},
            {'params': True, 'sig': True, 'digest_ok': True, 'sig_valid': True},
            {'params': False, 'sig': True, 'digest_ok': True, 'sig_valid': False},
            {'params': True, 'sig': True, 'digest_ok': True, 'sig_valid': True, 'lp': True}]
    for p in pkts:
        for v in verdicts:
            for sw in ('detach', 'reattach'):
                yield {'kind': 'g', 'fe': fe, 'pkt': p, 'route': {'validator': {'verdict': v, 'lat': 30}}, 'swap': sw}



# ------------------------------------------------------------------------------------- the timed gate
AV = 0                      # id of the legacy application-wide int_validator (a script, like every validator here)
T_PKTS = {
    'P': {'params': True, 'sig': False, 'digest_ok': True, 'sig_valid': True},
    'E': {'params': 'empty', 'sig': False, 'digest_ok': True, 'sig_valid': True},
    'PS': {'params': True, 'sig': True, 'digest_ok': True, 'sig_valid': True},
    'S': {'params': False, 'sig': True, 'digest_ok': True, 'sig_valid': False},
    'plain': {'params': False, 'sig': False, 'digest_ok': True, 'sig_valid': True},
    'Pbad': {'params': True, 'sig': False, 'digest_ok': False, 'sig_valid': True},
    'PSbad': {'params': True, 'sig': True, 'digest_ok': False, 'sig_valid': True},
    'PSabsent': {'params': True, 'sig': True, 'digest_ok': 'absent', 'sig_valid': True},
    # half-signed (hand-built): InterestSignatureInfo without InterestSignatureValue, without / with ApplicationParameters
    'Sinfo': {'params': False, 'sig': True, 'digest_ok': True, 'sig_valid': False, 'shape': {'info': True, 'value': None}},
    'PSinfo': {'params': True, 'sig': True, 'digest_ok': True, 'sig_valid': False, 'shape': {'info': True, 'value': None}},
    'SinfoBad': {'params': False, 'sig': True, 'digest_ok': False, 'sig_valid': False, 'shape': {'info': True, 'value': None}},
    'Pvalue': {'params': True, 'sig': False, 'digest_ok': True, 'sig_valid': False, 'shape': {'info': False, 'value': 'full'}},
}


def _int(t, under, pk, verdict, lat):
    return {'t': t, 'op': 'interest', 'under': under, 'pkt': dict(T_PKTS[pk]), 'verdict': verdict, 'lat': lat}


def _att(t, name, h, v):
    return {'t': t, 'op': 'attach', 'name': name, 'h': h, 'v': v}


def _det(t, name):
    return {'t': t, 'op': 'detach', 'name': name}


def timed_scenarios(fe, thorough=False):
    """table operations at several instants relative to the validator's latency (before the arrival, while the
    validator decides, after its answer); two Interests in flight under one prefix with different verdicts; validators
    that raise.  Table operations happen at multiples of 10 ms, validators answer at instants ending in 1..9."""
    verdicts = V2_ALL if fe == 'v2' else V1_ALL
    short_v = None if fe == 'v2' else 12      # the handler on the shorter prefix: no validator (current) / its own (legacy)
    base = [_att(0, '/g', 1, 10), _att(0, '/', 2, short_v)]
    changes = {
        'detach': lambda t: [_det(t, '/g')],
        'reattach': lambda t: [_det(t, '/g'), _att(t, '/g', 3, 11)],
        'reattach-noval': lambda t: [_det(t, '/g'), _att(t, '/g', 3, None)],
        'same-handler-new-validator': lambda t: [_det(t, '/g'), _att(t, '/g', 4, 11)],
        'dup': lambda t: [_att(t, '/g', 5, 14)],
        'longer': lambda t: [_att(t, '/g/x0', 6, 13)],
        'shorter-off': lambda t: [_det(t, '/')],
        'all-off': lambda t: [_det(t, '/g'), _det(t, '/')],
    }
    pks = ['P', 'PS', 'S', 'plain'] if thorough else (['P', 'PS'] if fe == 'v2' else ['PS', 'S'])
    for ch, mk in changes.items():
        for when in (50, 120, 160):
            for v in verdicts:
                for pk in pks:
                    # Interest 0 arrives at 100, its validator answers at 141; Interest 1 arrives when all is over
                    line = base + [_int(100, '/g', pk, v, 41), _int(200, '/g', pk, v, 12)] + mk(when)
                    yield {'kind': 't', 'fe': fe, 'line': sorted(line, key=lambda e: e['t'])}
    # a validator that answers at once (no yield): start and answer in the same instant
    for v in verdicts:
        for pk in ('P', 'PS', 'S', 'plain', 'Pbad', 'PSbad', 'PSabsent', 'E', 'Sinfo', 'PSinfo', 'SinfoBad', 'Pvalue'):
            yield {'kind': 't', 'fe': fe, 'line': base + [_int(100, '/g', pk, v, 0), _det(110, '/g'), _int(120, '/g', pk, v, 0)]}
    # two Interests in flight under one prefix, the second one's validator answers first, with another verdict
    acc = 'PASS'
    others = [v for v in verdicts if v != acc]
    for other in others:
        for a, b in ((acc, other), (other, acc)):
            for ch in (None, 'detach', 'reattach'):
                for pk in (('PS',) if not thorough else ('PS', 'P', 'S')):
                    line = base + [_int(100, '/g', pk, a, 61), _int(110, '/g', pk, b, 22)]
                    if ch:
                        line += changes[ch](120)
                    line.append(_int(200, '/g', pk, acc, 13))
                    yield {'kind': 't', 'fe': fe, 'line': sorted(line, key=lambda e: e['t'])}
    # a handler attached without a callable, then the real one on the same prefix (the node object is written in place)
    for v in ('PASS', 'FAIL'):
        yield {'kind': 't', 'fe': fe, 'line': [_att(0, '/g', None, None), _int(50, '/g', 'PS', v, 11), _att(60, '/g', 1, None),
                                               _int(100, '/g', 'PS', v, 22), _att(110, '/g', 2, 11)]}


def gen_timed(rng, fe):
    """a random timed history"""
    verdicts = V2_ALL if fe == 'v2' else V1_ALL
    prefixes = ['/', '/g', '/g/k', '/q']
    line, t, hid, n_int = [], 0, 1, 0
    attached = set()
    for _ in range(rng.randint(3, 10)):
        t += 10 * rng.randint(1, 4)
        r = rng.random()
        if r < 0.35:
            name = rng.choice(prefixes)
            v = rng.choice([None, 10, 11, 12, 13])
            h = hid
            hid += 1
            if rng.random() < 0.04:
                # attached without a callable (a node without callback): the statement says nothing about which
                # validator such a registration puts in force, so it carries none
                h, v = None, None
            line.append(_att(t, name, h, v))
            attached.add(name)
        elif r < 0.55:
            name = rng.choice(sorted(attached) if attached and rng.random() < 0.85 else prefixes)
            line.append(_det(t, name))
            attached.discard(name)
        elif n_int < 9:
            pk = rng.choice(['P', 'PS', 'PS', 'S', 'E', 'plain', 'Pbad', 'PSbad', 'Sinfo', 'PSinfo'])
            lat = 0 if rng.random() < 0.2 else 10 * rng.randint(0, 6) + 1 + n_int
            v = rng.choice(verdicts) if rng.random() < 0.5 else rng.choice(['PASS', 'FAIL', 'RAISE_OTHER'])
            line.append(_int(t, rng.choice(['/g', '/g/k', '/q', '/g']), pk, v, lat))
            n_int += 1
    if n_int == 0:
        line.append(_int(t + 10, '/g', 'PS', rng.choice(verdicts), 21))
    return {'kind': 't', 'fe': fe, 'line': line}


def swap_as_timed(case):
    """kind 'g' with 'swap', as a timed history: handler h = 1, its validator v = 10; the handler on the shorter prefix
    y = 2 (validator u = 12 in the legacy front-end); the intruder x = 3 with validator w = 11"""
    fe, spec = case['fe'], case['route']['validator']
    line = [_att(0, '/g', 1, 10), _att(0, '/', 2, None if fe == 'v2' else 12),
            {'t': 10, 'op': 'interest', 'under': '/g', 'pkt': case['pkt'], 'verdict': spec['verdict'], 'lat': spec['lat']},
            _det(25, '/g')]
    if case['swap'] == 'reattach':
        line.append(_att(25, '/g', 3, 11))
    return {'kind': 't', 'fe': fe, 'line': line}


SWAP_LETTERS = {'v10': 'v', 'v11': 'w', 'v12': 'u', 'h1': 'h', 'h3': 'x', 'h2': 'y'}


def _iname(e, i):
    return e['under'].rstrip('/') + '/x%d' % i


def run_timed(case):
    enc, types, _, _ = c03._lib()
    fe, line = case['fe'], case['line']
    ents = [e for e in line if e['op'] == 'interest']
    log, res = [], []
    with AppRig(fe, t0=c03.T0) as rig:
        loop = rig.loop

        def now():
            return int(round((loop.time() - c03.T0) * 1000))

        def iid(name):
            for comp in name:
                v = bytes(enc.Component.get_value(comp))
                if enc.Component.get_type(comp) == enc.Component.TYPE_GENERIC and v[:1] == b'x' and v[1:].isdigit():
                    return int(v[1:])
            raise AssertionError('an Interest the harness did not send')
        import ndn.security as sec_mod
        import ndn.app as app_mod
        orig = sec_mod.params_sha256_checker

        async def logging_checker(name, sig):
            log.append(['d%d' % iid(name), now()])
            return await orig(name, sig)
        saved = (sec_mod.params_sha256_checker, app_mod.params_sha256_checker)
        sec_mod.params_sha256_checker = logging_checker
        app_mod.params_sha256_checker = logging_checker
        try:
            def mk_validator(vid):
                async def body(name):
                    i = iid(name)
                    log.append(['v%d.%d' % (i, vid), now()])
                    e = ents[i]
                    if e['lat']:
                        await asyncio.sleep(e['lat'] / 1000.0)
                    if e['verdict'] == 'RAISE_TIMEOUT':
                        raise TimeoutError()
                    if e['verdict'] == 'RAISE_OTHER':
                        raise c03.ScriptedError()
                    return e['verdict']
                if fe == 'v2':
                    async def val(name, sig, ctx):
                        v = await body(name)
                        return c03.B_VALUES[v] if v in c03.B_VALUES else types.ValidResult[v]
                else:
                    async def val(name, sig):
                        return c03.V1_TRUTH[await body(name)]
                return val

            def mk_handler(hid):
                if fe == 'v2':
                    def h(name, app_param, reply, context):
                        log.append(['h%d.%d' % (iid(name), hid), now()])
                else:
                    def h(name, param, app_param):
                        log.append(['h%d.%d' % (iid(name), hid), now()])
                return h
            if fe == 'v1':
                rig.app.int_validator = mk_validator(AV)
            rxs, n_int = [], 0
            for e in line:
                loop.advance(c03.T0 + e['t'] / 1000.0)
                if e['op'] == 'interest':
                    wire = build_interest(dict(e['pkt'], name=_iname(e, n_int)))
                    n_int += 1
                    rxs.append(loop.create_task(rig.face.callback(rig._typ(wire), wire)))
                    loop.settle()
                    continue
                try:
                    if e['op'] == 'attach':
                        h = mk_handler(e['h']) if e['h'] is not None else None
                        v = mk_validator(e['v']) if e['v'] is not None else None
                        if fe == 'v2':
                            rig.app.attach_handler(e['name'], h, v)
                        else:
                            rig.app.set_interest_filter(e['name'], h, v)
                    elif fe == 'v2':
                        rig.app.detach_handler(e['name'])
                    else:
                        rig.app.unset_interest_filter(e['name'])
                    res.append('o')
                except ValueError:
                    res.append('V')
                except KeyError:
                    res.append('K')
            loop.advance(c03.T0 + (line[-1]['t'] + 700) / 1000.0)
            errs = []
            for k, rx in enumerate(rxs):
                if not rx.done():
                    errs.append(['NeverFinished', 'reception task %d' % k])
                elif not rx.cancelled() and rx.exception() is not None:
                    errs.append([type(rx.exception()).__name__, 'reception task %d' % k])
            del rxs
            loop.settle()
            died = []
            for cls, msg in loop.errors:
                if 'never retrieved' in msg and cls in ('ScriptedError', 'TimeoutError'):
                    died.append(cls)
                else:
                    errs.append([cls, msg])
        finally:
            sec_mod.params_sha256_checker, app_mod.params_sha256_checker = saved
    return {'tlog': log, 'res': ''.join(res), 'died': sorted(died), 'loop_errors': errs}


def timed_events(case):
    """the history as the events of the model, in the order they happen: [(time, text)]"""
    comp = {}

    def nm(uri):
        parts = [x for x in uri.split('/') if x]
        return '.'.join(str(comp.setdefault(x, len(comp) + 1)) for x in parts) if parts else '~'
    evs, n_int = [], 0
    for k, e in enumerate(case['line']):
        if e['op'] == 'attach':
            evs.append((e['t'], k, 0, 'a:%s:%s:%s' % (nm(e['name']), '~' if e['h'] is None else e['h'],
                                                       '~' if e['v'] is None else e['v'])))
        elif e['op'] == 'detach':
            evs.append((e['t'], k, 0, 'x:' + nm(e['name'])))
        else:
            p = e['pkt']
            bits = ''.join('1' if x else '0' for x in (p['params'], p['sig'], p['digest_ok'] is True))
            evs.append((e['t'], k, 0, 'i:%s:%s' % (nm(_iname(e, n_int)), bits)))
            evs.append((e['t'], k, 1, 's:%d' % n_int))
            evs.append((e['t'] + e['lat'], k, 2, 'd:%d:%s' % (n_int, c03.model_verdict(case['fe'], e['verdict']))))
            n_int += 1
    evs.sort()
    assert len(comp) < 250
    return [(t, txt) for t, _, _, txt in evs]


def timed_model_line(case):
    return 'C05 t %s %d %s' % (case['fe'], AV, ';'.join(txt for _, txt in timed_events(case)))


def timed_model_obs(answer, case):
    assert answer.startswith('ok '), answer
    res, _, segs = answer[3:].partition('|')
    evs = timed_events(case)
    segs = segs.split('/') if evs else []
    assert len(segs) == len(evs), answer
    tlog, died = [], []
    for (t, _), seg in zip(evs, segs):
        for tok in (seg.split(',') if seg else []):
            if tok.startswith('E'):
                died.append(tok.split('.', 1)[1])
            else:
                tlog.append([tok, t])
    return {'tlog': tlog, 'res': '' if res == '-' else res, 'died': sorted(died)}


def _accepting(fe, verdict):
    return verdict in c03.V2_ACCEPT if fe == 'v2' else bool(c03.V1_TRUTH.get(verdict, False))


def oracle_timed(case, impl):
    """the property statement on a timed history.  Whatever handler an Interest ends up at (which one it should be is
    C04's business): the validator registered WITH that handler was consulted with this Interest first and had
    returned an accepting verdict by the time the handler was called; never a handler registered without validator
    (current front-end); wrong digest: nothing; plain: no validator, delivered; no Interest twice."""
    if impl['loop_errors']:
        return f"internal error escaped a callback: {impl['loop_errors'][0][0]}"
    fe, line = case['fe'], case['line']
    regs = {e['h']: e['v'] for e in line if e['op'] == 'attach' and e['h'] is not None}
    # a registration without a callable leaves a node that shadows shorter prefixes: whether a plain Interest under it
    # must still be delivered is C04's business (its theorems assume every attach carries a handler)
    proper = all(e['h'] is not None for e in line if e['op'] == 'attach')
    ents = [e for e in line if e['op'] == 'interest']
    per = {i: [] for i in range(len(ents))}
    for tok, t in impl['tlog']:
        i, _, ident = tok[1:].partition('.')
        per[int(i)].append((tok[0], int(ident) if ident else None, t))
    # the handlers attached when each Interest arrived (prefix -> handler; a refused duplicate changes nothing)
    table, tables, k = {}, [], 0
    for e in line:
        if e['op'] == 'attach':
            if not table.get(e['name']):
                table[e['name']] = e['h']
        elif e['op'] == 'detach':
            table.pop(e['name'], None)
        else:
            nm = _iname(e, k)
            tables.append([h for pre, h in table.items() if h is not None and (nm + '/').startswith(pre.rstrip('/') + '/')])
            k += 1
    for i, e in enumerate(ents):
        p = e['pkt']
        hs = [(ident, t) for kind, ident, t in per[i] if kind == 'h']
        vs = [(ident, t) for kind, ident, t in per[i] if kind == 'v']
        needs = bool(p['params'] or p['sig'])
        if len(hs) > 1:
            return f'Interest {i}: more than one handler invoked for one Interest'
        if needs and p['digest_ok'] is not True and (hs or vs):
            return (f'Interest {i}: an Interest with ApplicationParameters or signature and a wrong parameters digest was '
                    + ('delivered to the handler' if hs else 'passed on to the validator'))
        if not needs:
            if vs:
                return f'Interest {i}: a validator was consulted for a plain Interest'
            if tables[i] and not hs and proper:
                return f'Interest {i}: a plain Interest was not delivered'
            continue
        if not (needs if fe == 'v2' else p['sig']) or not hs:
            continue
        hid, th = hs[0]
        vid = regs.get(hid)
        if vid is None and fe == 'v2':
            return (f'Interest {i}: an Interest that requires validation reached handler {hid}, which was registered '
                    'without validator (= rejection)')
        inforce = AV if vid is None else vid
        calls = [t for ident, t in vs if ident == inforce and t <= th]
        if not calls:
            return (f'Interest {i}: reached handler {hid} without the validator registered with that handler '
                    f'({inforce}) being consulted first' + (f' (consulted: {sorted(set(x for x, _ in vs))})' if vs else ''))
        if not _accepting(fe, e['verdict']):
            return f'Interest {i}: reached its handler although the validator in force did not accept it ({e["verdict"]})'
        if th < calls[0] + e['lat']:
            return f'Interest {i}: reached its handler before its validator had answered'
    return None


# ------------------------------------------------------------------------------------- histories of Interests (kind 'q')
# hardening 4: the digest clause is a statement about EVERY incoming Interest, whatever went through the gate before it
# in this process.  A case is a list of PACKETS - genuine ones (made by the library's encoder; ApplicationParameters of
# 0 .. 64 Ki octets, DigestSha256-signed or not) and VARIANTS of them that keep the name, digest component included,
# and change something the digest covers (other parameters / one bit of them at the front, middle, end / one octet
# shorter or longer / emptied; one bit of the signature value; another SignatureInfo; the signature stripped / added),
# or only the nonce (not covered: still right), or the digest component itself (near misses); 'refresh' = the digest
# component is computed again after the edit (right digest, the DigestSha256 signature no longer valid) - and a list of
# SESSIONS: each one a new application object (either front-end) on a new event loop with its own routing table and
# scripted validators, into which the packets are fed in a given order, repeated, bare or in an LpPacket, one per loop
# turn or several in one turn.  All sessions of a case run in one process, one after the other.  Oracle only.
Q_SIZES = [0, 1, 5, 200, 252, 253, 1000, 1020, 1024, 2044, 2048, 4096, 8188, 8192, 65531, 65536, 70000]
Q_EDITS_ANY = ['params:other', 'params:bit:first', 'params:bit:mid', 'params:bit:last', 'params:trunc', 'params:ext',
               'params:empty', 'nonce', 'digest:last', 'digest:first', 'digest:prefix:31', 'digest:ext:1', 'digest:empty']
Q_EDITS_SIGNED = ['sigvalue:bit', 'siginfo:other', 'sig:stripped']
Q_EDITS_UNSIGNED = ['sig:added']
Q_PREFIXES = ['/', '/g', '/g/k', '/q']
Q_UNDER = ['/g', '/g/k', '/q', '/g']
_q_fresh = [0]


def _q_fill(salt, k, n):
    return hashlib.shake_256(b'%d-%d' % (salt, k)).digest(n) if n else b''


def _q_name(case, k, under):
    return under.rstrip('/') + '/c%d-%d' % (case['salt'], k)


def _q_edit(wire, edit, other):
    """an Interest that differs from `wire` as `edit` says; the name is kept octet for octet (except 'digest:*')"""
    if edit.startswith('digest:'):
        return _set_digest(wire, edit[len('digest:'):])
    if edit == 'nonce':
        return wire
    siginfo = _tlv(0x2c, _tlv(0x1b, b'\x00'))

    def ed(items):
        out = []
        for t, v in items:
            if t == 0x24 and edit.startswith('params:'):
                what = edit[len('params:'):]
                if what == 'other' and v:
                    v2 = other(len(v))
                    v = v2 if v2 != v else bytes([v[0] ^ 1]) + v[1:]
                elif what.startswith('bit:') and v:
                    i = {'first': 0, 'mid': len(v) // 2, 'last': len(v) - 1}[what[4:]]
                    v = v[:i] + bytes([v[i] ^ 0x10]) + v[i + 1:]
                elif what == 'trunc' and v:
                    v = v[:-1]
                elif what == 'empty' and v:
                    v = b''
                else:                       # 'ext', and everything else on parameters of length zero
                    v = v + b'\x00'
            elif t == 0x2e and edit == 'sigvalue:bit':
                v = v[:-1] + bytes([v[-1] ^ 0x01])
            elif t == 0x2c and edit == 'siginfo:other':
                v = v + _tlv(0x1c, _tlv(0x07, _tlv(0x08, b'k')))
            elif t in (0x2c, 0x2e) and edit == 'sig:stripped':
                continue
            out.append((t, v))
        if edit == 'sig:added':
            out += [(0x2c, _tlv(0x1b, b'\x00')), (0x2e, bytes(range(1, 33)))]
        return out
    w = _rewrite(wire, 0x05, ed)
    assert w != wire, edit
    return w


def _q_set(wire, nonce=None, refresh=False):
    """write the nonce; compute the digest component again (from the packet format, not by the library)"""
    def ed(items):
        if nonce is not None:
            items = [(t, nonce.to_bytes(4, 'big') if t == 0x0a else v) for t, v in items]
        if refresh:
            k = [t for t, _ in items].index(0x24)
            d = hashlib.sha256(b''.join(_tlv(t, v) for t, v in items[k:])).digest()
            comps = [(t, d if t == 0x02 else v) for t, v in _items(items[0][1])]
            items = [(0x07, b''.join(_tlv(t, v) for t, v in comps))] + items[1:]
        return items
    return _rewrite(wire, 0x05, ed)


def _q_facts(wire):
    """what the PACKET FORMAT says about an Interest, read with the harness's own TLV reader: does it carry
    ApplicationParameters / an InterestSignatureInfo, is its ParametersSha256DigestComponent the SHA-256 of everything
    from ApplicationParameters to the end, is its InterestSignatureValue the SHA-256 of the signed portion (name without
    the digest component, ApplicationParameters .. InterestSignatureInfo)"""
    (t, body), = _items(wire)
    assert t == 0x05
    items = _items(body)
    assert items[0][0] == 0x07
    comps = _items(items[0][1])
    types_ = [a for a, _ in items]
    has_params, has_sig = 0x24 in types_, 0x2c in types_
    covered = b''
    if has_params:
        covered = b''.join(_tlv(a, b) for a, b in items[types_.index(0x24):])
    dig = [v for a, v in comps if a == 0x02]
    f = {'params': has_params, 'sig': has_sig, 'needs': has_params or has_sig,
         'digest_ok': bool(has_params and len(dig) == 1 and dig[0] == hashlib.sha256(covered).digest()),
         'covered': len(covered), 'nonce': int.from_bytes(dict(items)[0x0a], 'big'), 'sig_valid': False, 'digest_sig': False}
    if has_sig and has_params and 0x2e in types_:
        k, e = types_.index(0x24), types_.index(0x2e)
        signed = b''.join(_tlv(a, b) for a, b in comps if a != 0x02) + b''.join(_tlv(a, b) for a, b in items[k:e])
        f['sig_valid'] = dict(items)[0x2e] == hashlib.sha256(signed).digest()
        f['digest_sig'] = dict(items)[0x2c] == _tlv(0x1b, b'\x00')
    return f, hashlib.sha1(_tlv(0x07, items[0][1]) + b'|' + covered).hexdigest()


def q_packets(case):
    """[(wire, facts)] of a case, facts['cls'] = the class of packets with the same name and digest-covered part"""
    enc, _, _, Signer = c03._lib()
    salt, out, keys = case['salt'], [], {}
    for k, p in enumerate(case['pkts']):
        nonce = 1000 + k
        if 'of' in p:
            base = out[p['of']][0]
            w = _q_edit(base, p['edit'], lambda n: _q_fill(salt, 500 + k, n))
            w = _q_set(w, nonce, bool(p.get('refresh')))
        else:
            par = enc.InterestParam(nonce=nonce, lifetime=4000)
            name = _q_name(case, k, p['under'])
            if p.get('plain'):
                w = bytes(enc.make_interest(name, par))
            else:
                w = bytes(enc.make_interest(name, par, _q_fill(salt, k, p['size']), signer=Signer() if p['sig'] else None))
        f, key = _q_facts(w)
        f['cls'] = keys.setdefault(key, len(keys))
        b = p['of'] if 'of' in p else k
        f['name'] = _q_name(case, b, case['pkts'][b]['under'])
        if 'of' not in p and not p.get('plain'):
            # the encoder of the library and the harness's reading of the packet format agree on a genuine packet
            assert f['digest_ok'] and f['params'] and f['sig'] == bool(p['sig']) and (f['sig_valid'] or not p['sig']), p
        if 'of' in p:
            assert f['nonce'] == nonce and f['digest_ok'] == (p['edit'] == 'nonce' or bool(p.get('refresh'))), p
        out.append((w, f))
    return out, keys


def _q_variants(rng, pkts, b, signed, n):
    for _ in range(n):
        edit = rng.choice(Q_EDITS_ANY + Q_EDITS_ANY[:7] + (Q_EDITS_SIGNED * 2 if signed else Q_EDITS_UNSIGNED))
        v = {'of': b, 'edit': edit}
        if rng.random() < 0.15 and not edit.startswith('digest:') and edit != 'nonce':
            v['refresh'] = True
        pkts.append(v)


def _q_routes(rng, fe, unders, accept=0.6):
    verdicts = V2_ALL if fe == 'v2' else V1_ALL
    routes, hid = [], 1
    names = sorted(set(unders) | set(n for n in Q_PREFIXES if rng.random() < 0.25))
    for n in names:
        if rng.random() < 0.08:
            continue
        r = rng.random()
        if r < accept:
            v = {'verdict': rng.choice(['PASS', 'PASS', 'ALLOW_BYPASS'] if fe == 'v2' else ['PASS', 'PASS', 'ONE']),
                 'lat': rng.choice([0, 0, 7, 30])}
        elif r < accept + 0.15:
            v = None
        else:
            v = {'verdict': rng.choice(verdicts), 'lat': rng.choice([0, 0, 7, 30])}
        routes.append({'name': n, 'h': hid, 'v': v})
        hid += 1
    return routes


def gen_seq(rng):
    """a random history of Interests through the gate"""
    case = {'kind': 'q', 'salt': rng.randrange(1 << 30), 'pkts': [], 'sessions': []}
    pkts = case['pkts']
    bases = []
    for _ in range(rng.choice([1, 1, 1, 2])):
        size = rng.choice(Q_SIZES)
        if size >= 1000 and rng.random() < 0.5:
            size += rng.randint(-45, 4)              # straddle the round numbers, header octets included
        b = len(pkts)
        signed = rng.random() < 0.45
        pkts.append({'under': rng.choice(Q_UNDER), 'size': size, 'sig': signed})
        bases.append(b)
        _q_variants(rng, pkts, b, signed, rng.randint(1, 3))
    if rng.random() < 0.2:
        pkts.append({'under': rng.choice(Q_UNDER), 'plain': True})
    unders = [p['under'] for p in pkts if 'under' in p]
    # the order: mostly a genuine packet first, then its variants; sometimes anything
    order = list(range(len(pkts)))
    if rng.random() < 0.25:
        rng.shuffle(order)
    for _ in range(rng.randint(0, 2)):
        order.insert(rng.randint(0, len(order)), rng.choice(order))          # retransmissions
    cuts = sorted(rng.sample(range(1, len(order)), min(len(order) - 1, rng.choice([0, 0, 1, 1, 2]))))
    parts = [order[a:b] for a, b in zip([0] + cuts, cuts + [len(order)])]
    if rng.random() < 0.4:
        parts.append(list(order))                    # everything once more, in another application
    for part in parts:
        fe = rng.choice(['v2', 'v1'])
        s = {'fe': fe, 'routes': _q_routes(rng, fe, unders), 'steps': []}
        if fe == 'v1' and rng.random() < 0.3:
            s['appv'] = {'verdict': rng.choice(['PASS', 'PASS', 'FAIL', 'NONE', 'RAISE_OTHER']), 'lat': rng.choice([0, 7])}
        for p in part:
            st = {'p': p}
            if rng.random() < 0.15:
                st['lp'] = True
            if rng.random() < 0.2:
                st['burst'] = True                   # the next packet arrives in the same loop turn
            s['steps'].append(st)
        case['sessions'].append(s)
    return case


def seq_scenarios(thorough=False):
    """size of the digest-covered part x what the later Interest of the same name changed x same application object /
    another one of the same / of the other front-end x route with an accepting validator, the library's default one
    (legacy), none: the genuine Interest first, then the variant, then the genuine one again"""
    sizes = [0, 5, 1020, 2044, 8192, 65536] if not thorough else Q_SIZES
    salt = n_combo = 0
    for size in sizes:
        for signed in (False, True):
            edits = ['params:other', 'params:bit:last', 'nonce', 'digest:last'] + (['sigvalue:bit', 'siginfo:other'] if signed else ['sig:added'])
            if thorough:
                edits = Q_EDITS_ANY + (Q_EDITS_SIGNED if signed else Q_EDITS_UNSIGNED)
            for edit in edits:
                combos = [('v2', None), ('v1', None), ('v2', 'v1'), ('v1', 'v2'), ('v2', 'v2'), ('v1', 'v1')]
                if not thorough:
                    # quick: four of the six per (size, edit), the pair left out rotates
                    n_combo += 1
                    combos = [c for k, c in enumerate(combos) if (k - n_combo) % 3 != 0]
                for fe_a, fe_b in combos:
                    for refresh in ((False, True) if signed and edit in ('params:other', 'sigvalue:bit') else (False,)):
                        salt += 1
                        pk = [{'under': '/g', 'size': size, 'sig': signed}, {'of': 0, 'edit': edit}]
                        if refresh:
                            pk[1]['refresh'] = True

                        def routes(fe):
                            acc = {'verdict': 'PASS', 'lat': 0}
                            # legacy + signed: the route has no validator of its own, the library's default one decides
                            return [{'name': '/g', 'h': 1, 'v': None if (fe == 'v1' and signed and salt % 2) else acc},
                                    {'name': '/', 'h': 2, 'v': None}]
                        if fe_b is None:
                            ss = [{'fe': fe_a, 'routes': routes(fe_a), 'steps': [{'p': 0}, {'p': 1}, {'p': 0}]}]
                        else:
                            ss = [{'fe': fe_a, 'routes': routes(fe_a), 'steps': [{'p': 0}]},
                                  {'fe': fe_b, 'routes': routes(fe_b), 'steps': [{'p': 1}, {'p': 0}]}]
                        yield {'kind': 'q', 'salt': 10 ** 9 + salt, 'pkts': pk, 'sessions': ss}


def size_gate_cases(fe, thorough=False):
    """kind 'g' (one Interest, put to the model as before) with ApplicationParameters of 'psize' octets: digest right /
    wrong / a near miss, signed or not, on the routes that matter"""
    routes = ['none', {'validator': None}, {'validator': {'verdict': 'PASS', 'lat': 0}}, {'validator': {'verdict': 'FAIL', 'lat': 0}}]
    for psize in ([1020, 2048, 8192, 65536] if not thorough else [252, 253, 1000, 1020, 1024, 2048, 4096, 8192, 65531, 65536, 70000]):
        for sig in (False, True):
            for d in (True, False, 'last', 'prefix:31', 'ext:1'):
                p = {'params': True, 'sig': sig, 'digest_ok': d is True, 'sig_valid': sig, 'psize': psize}
                if isinstance(d, str):
                    p['dvar'] = d
                for r in routes:
                    yield {'kind': 'g', 'fe': fe, 'pkt': p, 'route': r}


def _q_obs_key(enc, name, sig):
    cov = sig.digest_covered_part if sig is not None and sig.digest_covered_part else []
    return hashlib.sha1(bytes(enc.Name.to_bytes(name)) + b'|' + b''.join(bytes(b) for b in cov)).hexdigest()


def run_seq(case):
    enc, types, ndnlp, _ = c03._lib()
    pk, keys = q_packets(case)
    by_nonce = {f['nonce']: k for k, (_, f) in enumerate(pk)}
    sessions = []
    for s in case['sessions']:
        fe, log = s['fe'], []
        with AppRig(fe, t0=c03.T0) as rig:
            loop = rig.loop

            def now():
                return int(round((loop.time() - c03.T0) * 1000))

            def script(vid, spec):
                async def body(name, sig):
                    log.append(['v', vid, keys.get(_q_obs_key(enc, name, sig), -1), now()])
                    if spec['lat']:
                        await asyncio.sleep(spec['lat'] / 1000.0)
                    if spec['verdict'] == 'RAISE_TIMEOUT':
                        raise TimeoutError()
                    if spec['verdict'] == 'RAISE_OTHER':
                        raise c03.ScriptedError()
                    return spec['verdict']
                if fe == 'v2':
                    async def val(name, sig, ctx):
                        v = await body(name, sig)
                        return c03.B_VALUES[v] if v in c03.B_VALUES else types.ValidResult[v]
                else:
                    async def val(name, sig):
                        return c03.V1_TRUTH[await body(name, sig)]
                return val

            def handler(hid):
                if fe == 'v2':
                    def h(name, app_param, reply, context):
                        log.append(['h', hid, by_nonce.get(context['int_param'].nonce, -1), now()])
                else:
                    def h(name, param, app_param):
                        log.append(['h', hid, by_nonce.get(param.nonce, -1), now()])
                return h
            if fe == 'v1':
                if s.get('appv'):
                    rig.app.int_validator = script(AV, s['appv'])
                else:
                    # the library's own default validator: what it is asked and what it answers is observed
                    dflt = rig.app.int_validator

                    async def logging_default(name, sig):
                        cls = keys.get(_q_obs_key(enc, name, sig), -1)
                        log.append(['v', AV, cls, now()])
                        r = await dflt(name, sig)
                        log.append(['r', AV, cls, now(), bool(r)])
                        return r
                    rig.app.int_validator = logging_default
            for r in s['routes']:
                v = script(100 + r['h'], r['v']) if r['v'] is not None else None
                if fe == 'v2':
                    rig.app.attach_handler(r['name'], handler(r['h']), v)
                else:
                    rig.app.set_interest_filter(r['name'], handler(r['h']), v)
            t = 10
            loop.advance(c03.T0 + t / 1000.0)
            rxs = []
            for st in s['steps']:
                wire = pk[st['p']][0]
                if st.get('lp'):
                    wire = c03.lp_wrap(ndnlp, wire)
                wire = bytes(bytearray(wire))            # every reception has its own buffer
                rxs.append(loop.create_task(rig.face.callback(rig._typ(wire), wire)))
                if st.get('burst'):
                    continue
                loop.settle()
                t += 50
                loop.advance(c03.T0 + t / 1000.0)
            loop.settle()
            loop.advance(c03.T0 + (t + 500) / 1000.0)
            errs = [list(e) for e in loop.errors if e[0] not in ('ScriptedError', 'TimeoutError')]
            for k, rx in enumerate(rxs):
                if not rx.done():
                    errs.append(['NeverFinished', 'reception task %d' % k])
                elif not rx.cancelled() and rx.exception() is not None:
                    errs.append([type(rx.exception()).__name__, 'reception task %d' % k])
            del rxs
        sessions.append({'log': log, 'loop_errors': errs})
    return {'q': sessions, 'facts': [f for _, f in pk]}


def oracle_seq(case, impl):
    """the statement on every Interest of every session, whatever came before it.  The facts about a packet (carries
    parameters / a signature, digest right, DigestSha256 value right) were read off the packet by the harness."""
    facts = impl['facts']
    for si, (s, obs) in enumerate(zip(case['sessions'], impl['q'])):
        fe, where = s['fe'], f'session {si} ({s["fe"]})'
        if obs['loop_errors']:
            return f"{where}: internal error escaped a callback: {obs['loop_errors'][0][0]}"
        regs = {r['h']: r['v'] for r in s['routes']}
        sent = collections.Counter(st['p'] for st in s['steps'])
        sent_cls = set(facts[p]['cls'] for p in sent)
        n_h = collections.Counter()
        vtimes = {}                          # (class, validator) -> instants it was consulted, not yet used by a delivery
        answers = {}                         # class -> what the library's default validator answered
        for ent in obs['log']:
            kind, ident, who, t = ent[:4]
            if kind == 'r':
                answers.setdefault(who, []).append(ent[4])
                continue
            if kind == 'v':
                if who not in sent_cls:
                    return f'{where}: a validator was consulted with a name / covered part that no Interest of this session has'
                bad = [p for p in sent if facts[p]['cls'] == who and facts[p]['needs'] and not facts[p]['digest_ok']]
                if bad:
                    return (f'{where}: an Interest with ApplicationParameters or signature and a wrong parameters digest '
                            f'was passed on to the validator (packet {bad[0]})')
                if all(not facts[p]['needs'] for p in sent if facts[p]['cls'] == who):
                    return f'{where}: a validator was consulted for a plain Interest'
                vtimes.setdefault((who, ident), []).append(t)
                continue
            p = who
            if p not in sent:
                return f'{where}: a handler was invoked with an Interest that was not received in this session'
            f = facts[p]
            n_h[p] += 1
            if n_h[p] > sent[p]:
                return f'{where}: more than one handler invocation for one Interest (packet {p})'
            if f['needs'] and not f['digest_ok']:
                return (f'{where}: an Interest with ApplicationParameters or signature and a wrong parameters digest was '
                        f'delivered to the handler (packet {p}: {_q_describe(case, p)})')
            if not (f['needs'] if fe == 'v2' else f['sig']):
                continue                      # plain; legacy: unsigned parameterised Interests are outside the validator clause
            spec = regs[ident]
            if spec is None and fe == 'v2':
                return (f'{where}: an Interest that requires validation reached handler {ident}, which was registered '
                        'without validator (= rejection)')
            vid = AV if spec is None else 100 + ident
            calls = vtimes.get((f['cls'], vid), [])
            if not calls or calls[0] > t:
                return (f'{where}: packet {p} reached handler {ident} without the validator in force being consulted '
                        'with it first')
            t_call = calls.pop(0)
            if spec is None and not s.get('appv'):
                # the library's default validator (DigestSha256 checker): what it answered; and it cannot accept a
                # DigestSha256 value that is not the SHA-256 of the signed portion
                if not any(answers.get(f['cls'], [])):
                    return f'{where}: packet {p} reached its handler although the default validator did not accept it'
                if f['digest_sig'] and not f['sig_valid']:
                    return (f'{where}: packet {p} reached its handler although its DigestSha256 signature value is wrong '
                            'and the default validator is in force')
                continue
            spec = spec if spec is not None else s['appv']
            if not _accepting(fe, spec['verdict']):
                return (f'{where}: packet {p} reached its handler although the validator in force did not accept it '
                        f'({spec["verdict"]})')
            if t < t_call + spec['lat']:
                return f'{where}: packet {p} reached its handler before its validator had answered'
        for p in sent:
            f = facts[p]
            if not f['needs'] and n_h[p] < sent[p] and any((f['name'] + '/').startswith(r['name'].rstrip('/') + '/')
                                                           for r in s['routes']):
                return f'{where}: a plain Interest was not delivered (packet {p})'
    return None



def _q_describe(case, p):
    spec = case['pkts'][p]
    if 'of' in spec:
        return f"keeps the name of packet {spec['of']}, {spec['edit']}" + (', digest recomputed' if spec.get('refresh') else '')
    return 'genuine'


def _q_bucket(n):
    for b in (64, 1024, 2048, 8192, 65536):
        if n < b:
            return '<%d' % b
    return '>=65536'


def tags_seq(case, impl):
    t = ['seq', 'seq:sessions:%d' % len(case['sessions'])]
    facts = impl['facts']
    for f in facts:
        if f['needs']:
            t.append('seq:covered' + _q_bucket(f['covered']))
    seen = set()
    for s, obs in zip(case['sessions'], impl['q']):
        t.append('seq-fe:' + s['fe'])
        for st in s['steps']:
            spec = case['pkts'][st['p']]
            if 'of' in spec and spec['of'] in seen and not spec.get('refresh'):
                t.append('seq:after-the-genuine-one:' + spec['edit'].split(':')[0]
                         + (':large' if facts[st['p']]['covered'] >= 1024 else ''))
            seen.add(st['p'])
        for ent in obs['log']:
            t.append('seq-obs:' + ent[0])
    return t


def shrink_seq(case):
    """fewer sessions, fewer steps, no LpPacket, no burst - each candidate under names (and parameters) this process has
    not seen yet, so that what still fails does not owe it to an earlier run"""
    def fresh(c):
        _q_fresh[0] += 1
        return dict(c, salt=(case['salt'] + 7919 * _q_fresh[0]) % (1 << 30) + (1 << 30))
    ss = case['sessions']
    for k in range(len(ss)):
        if len(ss) > 1:
            yield fresh(dict(case, sessions=ss[:k] + ss[k + 1:]))
    for k, s in enumerate(ss):
        for j in range(len(s['steps'])):
            if len(s['steps']) > 1:
                yield fresh(dict(case, sessions=ss[:k] + [dict(s, steps=s['steps'][:j] + s['steps'][j + 1:])] + ss[k + 1:]))
    for k, s in enumerate(ss):
        if len(s['routes']) > 1:
            for j in range(len(s['routes'])):
                yield fresh(dict(case, sessions=ss[:k] + [dict(s, routes=s['routes'][:j] + s['routes'][j + 1:])] + ss[k + 1:]))
        for j, st in enumerate(s['steps']):
            if st.get('lp') or st.get('burst'):
                yield fresh(dict(case, sessions=ss[:k] + [dict(s, steps=s['steps'][:j] + [{'p': st['p']}] + s['steps'][j + 1:])]
                                 + ss[k + 1:]))


def cases(rng, tier):
    for fe in ('v2', 'v1'):
        for c in gate_cases(fe, tier != 'quick'):
            yield c
        for c in swap_cases(fe):
            yield c
        for c in timed_scenarios(fe, tier != 'quick'):
            yield c
    for k in range(300 if tier == 'quick' else 6000):
        yield gen_timed(rng, 'v2' if k % 2 == 0 else 'v1')
    for c in data_cases(tier != 'quick'):
        yield c
    # hardening 4: sizes of the digest-covered part (kind 'g', put to the model), histories of Interests (kind 'q')
    for fe in ('v2', 'v1'):
        for c in size_gate_cases(fe, tier != 'quick'):
            yield c
    for c in seq_scenarios(tier != 'quick'):
        yield c
    for k in range(260 if tier == 'quick' else 6000):
        yield gen_seq(rng)
    n = 900 if tier == 'quick' else 15000
    m = 400 if tier == 'quick' else 6000
    for k in range(n + m):
        fe = 'v2' if k % 2 == 0 else 'v1'
        if k < n:
            c = c03.gen_history(rng, fe)
        else:
            # hardening stream: parameterised / signed Interests, need_raw_packet, bursts in one loop turn, lifetime 0,
            # late awaits - all under the strict reading of the verdicts
            c = c03.gen_history(rng, fe, p_ap=0.4, p_burst=0.2, p_odd=0.1, p_defer=0.15)
        # validators matter here: spread the verdicts, make the validators slow more often
        for e in c['events']:
            if e[1] == 'x':
                if rng.random() < 0.6:
                    e[2]['verdict'] = rng.choice(V2_ALL if fe == 'v2' else V1_HIST)
                if rng.random() < 0.4:
                    e[2]['lat'] = rng.choice([14, 44, 104, 304])
        c['kind'] = 'h'
        yield c


def shrink(case):
    if case['kind'] == 'h':
        for c in c03.shrink(case):
            c['kind'] = 'h'
            yield c
        return
    if case['kind'] == 'd':
        for k in ('raw', 'lp'):
            if case[k]:
                yield dict(case, **{k: False})
        return
    if case['kind'] == 'q':
        for c in shrink_seq(case):
            yield c
        return
    if case['kind'] == 't':
        line = case['line']
        for k in range(len(line)):
            if len(line) > 1 and any(e['op'] == 'interest' for j, e in enumerate(line) if j != k):
                yield dict(case, line=line[:k] + line[k + 1:])
        return
    r = case['route']
    if case['pkt'].get('lp'):
        yield dict(case, pkt={k: v for k, v in case['pkt'].items() if k != 'lp'})
    if isinstance(r, dict) and r['validator'] and r['validator'].get('lat'):
        yield dict(case, route=dict(r, validator=dict(r['validator'], lat=0)))


# -------------------------------------------------------------------------------- implementation
def _flip(wire, target, at=5):
    i = wire.index(target)
    b = bytearray(wire)
    b[i + at] ^= 0xff
    return bytes(b)


def _fix_digest(enc, wire):
    """recompute the ParametersSha256DigestComponent of a (hand-edited) Interest"""
    _, _, _, sig = enc.parse_interest(wire)
    h = hashlib.sha256()
    for blk in sig.digest_covered_part:
        h.update(blk)
    return wire.replace(bytes(sig.digest_value_buf), h.digest())


def _strip_digest(enc, wire):
    """remove the trailing ParametersSha256DigestComponent from the name of an Interest (short lengths only)"""
    assert wire[0] == 0x05 and wire[1] < 253 and wire[2] == 0x07 and wire[3] < 253
    ln = wire[3]
    name = wire[4:4 + ln]
    assert name[-34] == 0x02 and name[-33] == 32
    return bytes([0x05, wire[1] - 34, 0x07, ln - 34]) + name[:-34] + wire[4 + ln:]


def _tlnum(n):
    if n < 253:
        return bytes([n])
    if n < 0x10000:
        return b'\xfd' + n.to_bytes(2, 'big')
    return b'\xfe' + n.to_bytes(4, 'big')


def _tlv(t, v):
    return _tlnum(t) + _tlnum(len(v)) + bytes(v)


def _items(buf):
    """the (type, value) list of a well-formed TLV sequence written by the library (the harness's own reader)"""
    def num(i):
        b = buf[i]
        if b < 253:
            return b, i + 1
        n = {253: 2, 254: 4, 255: 8}[b]
        return int.from_bytes(buf[i + 1:i + 1 + n], 'big'), i + 1 + n
    out, i = [], 0
    while i < len(buf):
        t, i = num(i)
        ln, i = num(i)
        out.append((t, bytes(buf[i:i + ln])))
        i += ln
    assert i == len(buf)
    return out


def _near_miss(right, var):
    """a value that is NOT `right` but close to it"""
    kind, _, k = var.partition(':')
    k = int(k) if k else 0
    if kind == 'first':
        out = bytes([right[0] ^ 0x01]) + right[1:]
    elif kind == 'last':
        out = right[:-1] + bytes([right[-1] ^ 0x01])
    elif kind == 'empty':
        out = b''
    elif kind == 'prefix':
        out = right[:k]
    elif kind == 'suffix':
        out = right[-k:]
    elif kind == 'ext':
        out = right + (right * 2)[:k]
    elif kind == 'pad':
        out = right[:k] + bytes(len(right) - k)
    else:
        raise ValueError(var)
    assert out != right
    return out


def _rewrite(wire, outer, edit):
    """re-encode a packet after editing the (type, value) list of its top-level elements"""
    (t, body), = _items(wire)
    assert t == outer
    return _tlv(t, b''.join(_tlv(a, b) for a, b in edit(_items(body))))


def _set_digest(wire, var):
    """replace the value of the ParametersSha256DigestComponent (wherever it stands in the name) by a near miss"""
    def edit(items):
        assert items[0][0] == 0x07
        comps = _items(items[0][1])
        assert sum(1 for t, _ in comps if t == 0x02) == 1
        comps = [(t, _near_miss(v, var) if t == 0x02 else v) for t, v in comps]
        return [(0x07, b''.join(_tlv(t, v) for t, v in comps))] + items[1:]
    return _rewrite(wire, 0x05, edit)


def _set_sigvalue(wire, outer, typ, var):
    def edit(items):
        assert items[-1][0] == typ
        return items[:-1] + [(typ, _near_miss(items[-1][1], var))]
    return _rewrite(wire, outer, edit)


def _fix_digest_any(enc, wire):
    """_fix_digest for an Interest whose parameters block changed its length"""
    _, _, _, sig = enc.parse_interest(wire)
    h = hashlib.sha256()
    for blk in sig.digest_covered_part:
        h.update(blk)
    old = bytes(sig.digest_value_buf)
    assert len(old) == 32 and wire.count(old) == 1
    return wire.replace(old, h.digest())


def _build_shaped(pkt):
    """a half-signed Interest, octet by octet: Name [digest component], Nonce, InterestLifetime, [ApplicationParameters],
    [InterestSignatureInfo (DigestSha256)], [InterestSignatureValue]; the ParametersSha256DigestComponent is computed
    here from the packet format: SHA-256 over everything from ApplicationParameters to the end"""
    sh = pkt['shape']
    tail = b''
    if pkt['params']:
        tail += _tlv(0x24, b'' if pkt['params'] == 'empty' else b'param')
    if sh['info']:
        tail += _tlv(0x2c, _tlv(0x1b, b'\x00'))
    if sh['value'] is not None:
        tail += _tlv(0x2e, b'' if sh['value'] == 'empty' else bytes(range(1, 33)))
    digest = hashlib.sha256(tail).digest()
    if pkt['digest_ok'] is False:
        digest = bytes(b ^ 0xff for b in digest)
    nm = b''.join(_tlv(0x08, c.encode()) for c in pkt.get('name', '/g/x').split('/') if c)
    if pkt['digest_ok'] != 'absent':
        nm += _tlv(0x02, digest)
    return _tlv(0x05, _tlv(0x07, nm) + _tlv(0x0a, b'\x00\x00\x00\x4d') + _tlv(0x0c, b'\x0f\xa0') + tail)


def build_interest(pkt):
    enc = c03._lib()[0]
    if pkt.get('shape'):
        w = _build_shaped(pkt)
        if pkt.get('lp'):
            w = c03.lp_wrap(c03._lib()[2], w)
        return w
    w = _build_interest(pkt)
    if pkt.get('svar'):
        w = _fix_digest_any(enc, _set_sigvalue(w, 0x05, 0x2e, pkt['svar']))
        _, _, _, sig = enc.parse_interest(w)
        h = hashlib.sha256()
        for blk in sig.digest_covered_part:
            h.update(blk)
        assert h.digest() == bytes(sig.digest_value_buf)
    if pkt.get('dvar'):
        w = _set_digest(w, pkt['dvar'])
        got = enc.parse_interest(w)[3].digest_value_buf
        assert got is not None and len(got) == len(_near_miss(bytes(range(32)), pkt['dvar']))
    if pkt.get('lp'):
        enc, _, ndnlp, _ = c03._lib()
        w = c03.lp_wrap(ndnlp, w)
    return w


def _build_interest(pkt):
    enc, _, _, Signer = c03._lib()
    name = pkt.get('name', '/g/x')
    if pkt.get('dpos') == 'mid':
        # caller-supplied placeholder: the encoder fills the digest in place
        name = [enc.Component.from_str('g'),
                enc.Component.from_bytes(bytes(32), enc.Component.TYPE_PARAMETERS_SHA256),
                enc.Component.from_str('x')]
    par = enc.InterestParam(nonce=77, lifetime=4000)
    if not pkt['params'] and not pkt['sig']:
        return bytes(enc.make_interest(name, par))
    payload = b'' if pkt['params'] == 'empty' else b'param'
    if pkt.get('psize') is not None and pkt['params'] is True:
        payload = hashlib.shake_256(b'psize').digest(pkt['psize'])
    if pkt['params'] and not pkt['sig']:
        w = bytes(enc.make_interest(name, par, payload))
    elif pkt['params'] and pkt['sig']:
        w = bytes(enc.make_interest(name, par, payload, signer=Signer()))
        if not pkt['sig_valid']:
            _, _, _, sig = enc.parse_interest(w)
            w = _fix_digest(enc, _flip(w, bytes(sig.signature_value_buf)))
    else:
        # SignatureInfo without ApplicationParameters: not producible by make_interest; cut the empty
        # ApplicationParameters element out of a signed Interest (the signature no longer verifies)
        w = bytes(enc.make_interest(name, par, None, signer=Signer()))
        i = w.index(b'\x24\x00')
        body = w[2:i] + w[i + 2:]
        assert len(body) < 253
        w = _fix_digest(enc, bytes([0x05, len(body)]) + body)
    if pkt['digest_ok'] == 'absent':
        w = _strip_digest(enc, w)
        assert enc.parse_interest(w)[3].digest_value_buf is None
    elif not pkt['digest_ok'] and not pkt.get('dvar'):
        _, _, _, sig = enc.parse_interest(w)
        w = _flip(w, bytes(sig.digest_value_buf))
    return w


def run_gate(case):
    enc, types, _, _ = c03._lib()
    fe = case['fe']
    wire = build_interest(case['pkt'])
    log = []
    with AppRig(fe, t0=c03.T0) as rig:
        loop = rig.loop

        def now():
            return int(round((loop.time() - c03.T0) * 1000))
        # observe the digest check
        import ndn.security as sec_mod
        import ndn.app as app_mod
        orig = sec_mod.params_sha256_checker

        async def logging_checker(name, sig):
            log.append(['d', now()])
            return await orig(name, sig)
        saved = (sec_mod.params_sha256_checker, app_mod.params_sha256_checker)
        sec_mod.params_sha256_checker = logging_checker
        app_mod.params_sha256_checker = logging_checker
        try:
            route = case['route']
            spec = route['validator'] if isinstance(route, dict) else None

            async def script():
                log.append(['v', now()])
                if spec['lat']:
                    await asyncio.sleep(spec['lat'] / 1000.0)
                if spec['verdict'] == 'RAISE_TIMEOUT':
                    raise TimeoutError()
                if spec['verdict'] == 'RAISE_OTHER':
                    raise c03.ScriptedError()
            validator = None
            ulog = []
            if spec is not None and 'union' in spec:
                def member(i, m):
                    async def check(name, sig):
                        ulog.append(i)
                        if m['lat']:
                            await asyncio.sleep(m['lat'] / 1000.0)
                        if m['verdict'] == 'RAISE_TIMEOUT':
                            raise TimeoutError()
                        if m['verdict'] == 'RAISE_OTHER':
                            raise c03.ScriptedError()
                        return c03.V1_TRUTH[m['verdict']]
                    return check
                union = sec_mod.union_checker(*[member(i, m) for i, m in enumerate(spec['union'])])

                async def validator(name, sig):
                    log.append(['v', now()])
                    return await union(name, sig)
            elif spec is not None:
                if fe == 'v2':
                    async def validator(name, sig, ctx):
                        await script()
                        v = spec['verdict']
                        return c03.B_VALUES[v] if v in c03.B_VALUES else types.ValidResult[v]
                else:
                    async def validator(name, sig):
                        await script()
                        return c03.V1_TRUTH[spec['verdict']]
            if fe == 'v2':
                from ndn import appv2

                def handler(name, app_param, reply, context):
                    log.append(['h', now()])
                if route == 'nocb':
                    rig.app._fib[enc.Name.normalize('/g')] = appv2.PrefixTreeNode()
                elif route != 'none':
                    if case.get('reattach'):
                        async def intruder0(name, sig, ctx):
                            log.append(['w', now()])
                            return types.ValidResult.FAIL if spec and spec['verdict'] in ('PASS', 'ALLOW_BYPASS') \
                                else types.ValidResult.PASS
                        rig.app.attach_handler(rig_name_variant(enc), lambda *a: log.append(['x', now()]), intruder0)
                        rig.app.detach_handler('/g')
                    rig.app.attach_handler('/g', handler, validator)
                    if case.get('swap'):
                        rig.app.attach_handler('/', lambda *a: log.append(['y', now()]), None)

                        async def intruder2(name, sig, ctx):
                            log.append(['w', now()])
                            return types.ValidResult.FAIL if spec['verdict'] in ('PASS', 'ALLOW_BYPASS') \
                                else types.ValidResult.PASS

                        def do_swap():
                            rig.app.detach_handler('/g')
                            if case['swap'] == 'reattach':
                                rig.app.attach_handler('/g', lambda *a: log.append(['x', now()]), intruder2)
                    if case.get('dup'):
                        async def intruder(name, sig, ctx):
                            log.append(['w', now()])
                            return types.ValidResult.FAIL if spec and spec['verdict'] in ('PASS', 'ALLOW_BYPASS') \
                                else types.ValidResult.PASS
                        try:
                            rig.app.attach_handler(rig_name_variant(enc), lambda *a: log.append(['x', now()]), intruder)
                            log.append(['D', now()])      # the duplicate was NOT refused
                        except ValueError:
                            pass
            else:
                from ndn import name_tree

                def handler(name, param, app_param):
                    log.append(['h', now()])
                # the legacy default validator is consulted when the route has none: observe it too
                dflt = rig.app.int_validator

                async def logging_default(name, sig):
                    log.append(['v', now()])
                    return await dflt(name, sig)
                rig.app.int_validator = logging_default
                appv = route.get('appv') if isinstance(route, dict) else None
                if appv:
                    async def app_wide(name, sig):
                        log.append(['v', now()])
                        if appv['lat']:
                            await asyncio.sleep(appv['lat'] / 1000.0)
                        if appv['verdict'] == 'RAISE_TIMEOUT':
                            raise TimeoutError()
                        if appv['verdict'] == 'RAISE_OTHER':
                            raise c03.ScriptedError()
                        return c03.V1_TRUTH[appv['verdict']]
                    rig.app.int_validator = app_wide
                if route == 'nocb':
                    rig.app._prefix_tree[enc.Name.normalize('/g')] = name_tree.PrefixTreeNode()
                elif route != 'none':
                    if case.get('reattach'):
                        async def intruder0(name, sig):
                            log.append(['w', now()])
                            return not (spec and c03.V1_TRUTH.get(spec['verdict']))
                        rig.app.set_interest_filter(rig_name_variant(enc), lambda *a: log.append(['x', now()]), intruder0)
                        rig.app.unset_interest_filter('/g')
                    rig.app.set_interest_filter('/g', handler, validator)
                    if case.get('swap'):
                        async def refusing(name, sig):
                            log.append(['u', now()])
                            return False
                        rig.app.set_interest_filter('/', lambda *a: log.append(['y', now()]), refusing)

                        async def intruder2(name, sig):
                            log.append(['w', now()])
                            return not c03.V1_TRUTH.get(spec['verdict'])

                        def do_swap():
                            rig.app.unset_interest_filter('/g')
                            if case['swap'] == 'reattach':
                                rig.app.set_interest_filter('/g', lambda *a: log.append(['x', now()]), intruder2)
                    if case.get('dup'):
                        async def intruder(name, sig):
                            log.append(['w', now()])
                            return not (spec and c03.V1_TRUTH.get(spec['verdict']))
                        try:
                            rig.app.set_interest_filter(rig_name_variant(enc), lambda *a: log.append(['x', now()]), intruder)
                            log.append(['D', now()])
                        except ValueError:
                            pass
            loop.advance(c03.T0 + 0.010)
            rx = loop.create_task(rig.face.callback(rig._typ(wire), wire))      # as the faces do; kept, so that
            loop.settle()                                                        # whatever escapes it is seen
            if case.get('swap'):
                loop.advance(c03.T0 + 0.025)
                do_swap()
                log.append(['S', now()])
            loop.advance(c03.T0 + 0.500)
            errs = [list(e) for e in loop.errors if e[0] not in ('ScriptedError', 'TimeoutError')]
            if not rx.done():
                errs.append(['NeverFinished', 'reception task'])
            elif not rx.cancelled() and rx.exception() is not None:
                errs.append([type(rx.exception()).__name__, 'reception task'])
        finally:
            sec_mod.params_sha256_checker, app_mod.params_sha256_checker = saved
    return {'log': log, 'acts': ''.join(k for k, _ in log), 'loop_errors': errs, 'ulog': ulog}


def run_data(case):
    """legacy front-end: express without validator, answer with a Data whose DigestSha256 value is right / a near miss"""
    enc, types, ndnlp, Signer = c03._lib()
    wire = bytes(enc.make_data('/d/x', enc.MetaInfo(freshness_period=1000), b'payload', signer=Signer()))
    if case['svar']:
        wire = _set_sigvalue(wire, 0x06, 0x17, case['svar'])
    enc.parse_data(wire)
    if case['lp']:
        wire = c03.lp_wrap(ndnlp, wire)
    vlog = []
    with AppRig('v1', t0=c03.T0) as rig:
        loop = rig.loop
        appv = case['appv']
        if appv:
            async def app_wide(name, sig):
                vlog.append(enc.Name.to_str(name))
                if appv['verdict'] == 'RAISE_TIMEOUT':
                    raise TimeoutError()
                if appv['verdict'] == 'RAISE_OTHER':
                    raise c03.ScriptedError()
                return c03.V1_TRUTH[appv['verdict']]
            rig.app.data_validator = app_wide

        async def ask():
            return await rig.app.express_interest('/d/x', lifetime=1000, nonce=5, need_raw_packet=case['raw'])
        loop.advance(c03.T0 + 0.010)
        t = loop.create_task(ask())
        loop.settle()
        rx = loop.create_task(rig.face.callback(rig._typ(wire), wire))
        loop.settle()
        loop.advance(c03.T0 + 2.0)
        errs = [list(e) for e in loop.errors]
        if not rx.done():
            errs.append(['NeverFinished', 'reception task'])
        elif not rx.cancelled() and rx.exception() is not None:
            errs.append([type(rx.exception()).__name__, 'reception task'])
        if not t.done():
            res = ['pending']
            t.cancel()
            loop.settle()
        elif t.cancelled():
            res = ['cancelled']
        elif t.exception() is not None:
            e = t.exception()
            res = ['exc', type(e).__name__]
            if isinstance(e, types.ValidationFailure):
                res.append(bytes(e.content) == b'payload' and enc.Name.to_str(e.name) == '/d/x')
        else:
            r = t.result()
            res = ['data', bytes(r[2]) if r[2] is not None else None]
            res[1] = res[1] == b'payload'
    return {'res': res, 'vcalls_d': len(vlog), 'loop_errors': errs}


def rig_name_variant(enc):
    """the occupied prefix '/g' in another accepted representation"""
    return [enc.Component.from_str('g')]


class Run5(c03.Run):
    pass


def run_impl(case):
    if case['kind'] == 'h':
        return Run5(case).run()
    if case['kind'] == 'd':
        return run_data(case)
    if case['kind'] == 't':
        return run_timed(case)
    if case['kind'] == 'q':
        return run_seq(case)
    return run_gate(case)


# ------------------------------------------------------------------------------------- model
def model_line(case, impl):
    if case['kind'] == 'h':
        if c03.oracle_only(case):
            return None
        toks = c03.model_events(case)
        return f"C05 h {case['fe']} {';'.join(toks) if toks else '.'}"
    if case['kind'] in ('d', 'q'):
        return None
    if case['kind'] == 't':
        return timed_model_line(case)
    if case.get('swap'):
        return timed_model_line(swap_as_timed(case))
    p, r = case['pkt'], case['route']
    bits = ''.join('1' if x else '0' for x in (p['params'], p['sig'], p['digest_ok'] is True))
    if isinstance(r, dict):
        spec = r['validator']
        if spec is not None and 'union' in spec:
            # union_checker as the library defines it: members in order, the first that refuses (or raises) decides
            v = 'PASS'
            for m in spec['union']:
                if m['verdict'].startswith('RAISE_') or not c03.V1_TRUTH[m['verdict']]:
                    v = m['verdict']
                    break
            rt = 'h:' + c03.model_verdict(case['fe'], v)
        else:
            rt = 'h:~' if spec is None else 'h:' + c03.model_verdict(case['fe'], spec['verdict'])
    else:
        rt = r
    # the legacy default int_validator (sha256_digest_checker) accepts exactly the valid DigestSha256 signature
    dflt = 'PASS' if p['sig_valid'] else 'FAIL'
    if isinstance(r, dict) and r.get('appv'):
        dflt = c03.model_verdict(case['fe'], r['appv']['verdict'])
    return f"C05 g {case['fe']} {dflt} {bits} {rt}"


def model_obs(answer, case, impl):
    if case['kind'] == 'h':
        return c03.model_obs(answer, case, impl)
    if case['kind'] == 't':
        return timed_model_obs(answer, case)
    if case.get('swap'):
        # the letters run_gate records; S = the instant of the table change (25 ms)
        mo = timed_model_obs(answer, swap_as_timed(case))
        let = lambda tok: 'd' if tok[0] == 'd' else SWAP_LETTERS[tok[0] + tok.split('.')[1]]
        return (''.join(let(tok) for tok, t in mo['tlog'] if t <= 25) + 'S'
                + ''.join(let(tok) for tok, t in mo['tlog'] if t > 25))
    assert answer.startswith('ok '), answer
    a = answer[3:].strip()
    return '' if a == '-' else a


def impl_obs(impl):
    if 'tlog' in impl:
        return {'tlog': impl['tlog'], 'res': impl['res'], 'died': impl['died']}
    if 'res' in impl:
        return impl['res']
    if 'acts' in impl:
        return impl['acts']
    return c03.impl_obs(impl)


# ------------------------------------------------------------------------------------- oracle
def oracle_gate(case, impl):
    """the property statement on one incoming Interest"""
    fe, p, r = case['fe'], case['pkt'], case['route']
    acts = impl['acts']
    if impl['loop_errors']:
        return f"internal error escaped a callback: {impl['loop_errors'][0][0]}"
    handled = acts.count('h')
    validated = acts.count('v')
    if 'D' in acts:
        return 'a second registration on an occupied prefix was not refused'
    if case.get('swap'):
        return oracle_swap(case, impl)
    if 'w' in acts or 'x' in acts:
        return (('a removed registration' if case.get('reattach') else 'a refused second registration')
                + ' took effect: its ' + ('validator was consulted' if 'w' in acts else 'handler was invoked'))
    if handled > 1:
        return 'handler invoked more than once'
    needs = p['params'] or p['sig']
    if needs and p['digest_ok'] is not True and (handled or validated):
        return ('an Interest with ApplicationParameters or signature and a wrong parameters digest was '
                + ('delivered to the handler' if handled else 'passed on to the validator'))
    if not isinstance(r, dict):
        if handled:
            return 'handler invoked without a route'
        return None
    spec = r['validator']
    appv = r.get('appv')
    union = spec['union'] if spec is not None and 'union' in spec else None
    if not needs:
        if validated or impl['ulog']:
            return 'a validator was consulted for a plain Interest'
        if not handled:
            return 'a plain Interest was not delivered'
        return None
    if fe == 'v2':
        ok = spec is not None and spec['verdict'] in c03.V2_ACCEPT
        if handled and spec is None:
            return 'an Interest that requires validation reached the handler of a route without validator'
    elif p['sig']:
        if union is not None:
            # in force is the combination: it accepted only if every member did
            ok = all(bool(c03.V1_TRUTH.get(m['verdict'], False)) for m in union)
            if handled and sorted(set(impl['ulog'])) != list(range(len(union))):
                return 'an Interest reached its handler although a member of the combined validator was never consulted'
        elif spec is not None:
            ok = bool(c03.V1_TRUTH.get(spec['verdict'], False))
        elif appv:
            # the application-wide validator the application installed is in force for a route without validator
            ok = bool(c03.V1_TRUTH.get(appv['verdict'], False))
        else:
            ok = p['sig_valid']
    else:
        return None                     # legacy: unsigned parameterised Interests are outside the statement
    if handled and not ok:
        return 'an Interest reached its handler although the validator in force did not accept it'
    if handled:
        if not validated:
            return 'an Interest that requires validation reached its handler without the validator being consulted'
        if acts.index('v') > acts.index('h'):
            return 'the handler ran before the validator'
    return None


def oracle_swap(case, impl):
    """the routing table changed while the validator was deciding.  Whatever handler the Interest ends up at, the
    validator registered WITH that handler must have accepted it first (and a handler without validator - current
    front-end - must not get it at all); no handler twice.  Which of the handlers it should be is C04's business."""
    fe, p, spec = case['fe'], case['pkt'], case['route']['validator']
    acts = impl['acts']
    if fe == 'v1' and not p['sig']:
        return None                     # legacy: unsigned parameterised Interests are outside the statement
    if sum(acts.count(k) for k in 'hxy') > 1:
        return 'more than one handler invoked for one Interest'
    if fe == 'v2':
        ok = spec['verdict'] in c03.V2_ACCEPT
    else:
        ok = bool(c03.V1_TRUTH.get(spec['verdict'], False))
    if 'y' in acts:
        return ('an Interest that requires validation reached the handler of the shorter prefix, whose own validator '
                + ('is missing (= rejection)' if fe == 'v2' else 'refuses everything'))
    if 'h' in acts:
        if not ok:
            return 'an Interest reached its handler although the validator in force did not accept it'
        if 'v' not in acts or acts.index('v') > acts.index('h'):
            return 'an Interest that requires validation reached its handler without the validator being consulted first'
    if 'x' in acts:
        # the handler of the new registration: in force for it is the new registration's validator (opposite verdict)
        if ok:
            return 'an Interest reached the newly attached handler, whose validator refuses it'
        if 'w' not in acts or acts.index('w') > acts.index('x'):
            return 'an Interest reached the newly attached handler without that handler\'s validator being consulted first'
    return None


def oracle_data(case, impl):
    """the Data clause for an Interest expressed without validator (legacy): in force is the application-wide
    data_validator - the library's DigestSha256 checker, which cannot accept a value that is not the SHA-256 of the
    signed portion, or the script the application put in its place"""
    if impl['loop_errors']:
        return f"internal error escaped a callback: {impl['loop_errors'][0][0]}"
    appv, res = case['appv'], impl['res']
    if appv:
        raising = appv['verdict'].startswith('RAISE_')
        accepted = (not raising) and bool(c03.V1_TRUTH[appv['verdict']])
        if impl['vcalls_d'] != 1 and res[0] in ('data', 'exc'):
            return f"the application-wide data validator was consulted {impl['vcalls_d']} times for one Data"
    else:
        raising = False
        accepted = case['svar'] is None
    if res[0] == 'data':
        if not accepted:
            return 'a Data was returned to the caller although the validator in force did not accept it'
        if not res[1]:
            return 'the returned Data is not the one received'
        return None
    if res[0] == 'exc' and res[1] == 'ValidationFailure':
        if accepted:
            return 'validation failure although the validator in force accepted the Data'
        if not res[2]:
            return 'the validation failure does not carry the packet'
        return None
    if raising and res[0] == 'exc':
        return None
    return f'an answered Interest ended with {res}'


def oracle(case, impl):
    if case['kind'] == 't':
        return oracle_timed(case, impl)
    if case['kind'] == 'g':
        return oracle_gate(case, impl)
    if case['kind'] == 'd':
        return oracle_data(case, impl)
    if case['kind'] == 'q':
        return oracle_seq(case, impl)
    return c03.oracle_common(case, impl, strict=True)


def nontrivial(case, impl):
    if case['kind'] == 'd':
        return True
    if case['kind'] == 'q':
        return any(f['needs'] for f in impl['facts'])
    if case['kind'] == 't':
        return any(e['op'] == 'interest' and (e['pkt']['params'] or e['pkt']['sig']) for e in case['line'])
    if case['kind'] == 'g':
        return case['pkt']['params'] or case['pkt']['sig']
    return len(impl['vcalls']) > 0


def tags(case, impl):
    if case['kind'] == 'd':
        return ['data-default', 'sigvalue:' + (case['svar'] or 'right').split(':')[0],
                'appv:' + (case['appv']['verdict'] if case['appv'] else '-'), 'res:' + str(impl['res'][:2])]
    if case['kind'] == 'q':
        return tags_seq(case, impl)
    if case['kind'] == 't':
        t = ['timed', 'timed-fe:' + case['fe']]
        ents = [e for e in case['line'] if e['op'] == 'interest']
        for e in ents:
            during = [x['op'] for x in case['line'] if x['op'] != 'interest' and e['t'] < x['t'] < e['t'] + e['lat']]
            if during:
                t.append('timed:table-change-while-validating:' + '+'.join(sorted(set(during))))
            if any(o is not e and o['under'] == e['under'] and o['t'] < e['t'] < o['t'] + o['lat'] for o in ents):
                t.append('timed:two-in-flight')
        for tok, _ in impl['tlog']:
            t.append('timed-obs:' + tok[0])
        for d in impl['died']:
            t.append('timed-died:' + d)
        for r in impl['res']:
            t.append('timed-op:' + {'o': 'ok', 'V': 'ValueError', 'K': 'KeyError'}.get(r, r))
        return t
    if case['kind'] == 'g':
        p, r = case['pkt'], case['route']
        t = ['gate', 'fe:' + case['fe'], 'pkt:' + ('P' if p['params'] else '-') + ('S' if p['sig'] else '-')
             + ('' if p['digest_ok'] is True else ':no-digest' if p['digest_ok'] == 'absent' else ':bad-digest')
             + (':mid' if p.get('dpos') else '') + (':lp' if p.get('lp') else ''), 'acts:' + (impl['acts'] or '-')]
        for k in ('dup', 'reattach'):
            if case.get(k):
                t.append(k)
        if p.get('shape'):
            t.append('half-signed:' + ('info' if p['shape']['info'] else 'no-info') + '+'
                     + ('no-value' if p['shape']['value'] is None else p['shape']['value'] + '-value'))
        if p.get('dvar'):
            t.append('digest:' + p['dvar'].split(':')[0])
        if p.get('psize') is not None:
            t.append('gate:params-octets' + _q_bucket(p['psize']))
        if p.get('svar'):
            t.append('sigvalue:' + p['svar'].split(':')[0])
        if isinstance(r, dict) and r.get('appv'):
            t.append('app-wide:' + r['appv']['verdict'])
        if isinstance(r, dict) and r['validator'] and 'union' in r['validator']:
            t.append('route:union-of-%d' % len(r['validator']['union']))
        elif isinstance(r, dict):
            t.append('route:' + ('no-validator' if r['validator'] is None else r['validator']['verdict']))
        else:
            t.append('route:' + r)
        return t
    t = [x for x in c03.tags(case, impl) if not x.startswith('ev:')]
    for e in case['events']:
        if e[1] == 'x':
            t.append('verdict:' + e[2]['verdict'])
    return t


def finding_key(case, impl, why):
    import re
    if case['kind'] == 'd':
        return 'data-default-' + re.sub(r'[^a-zA-Z]+', '-', why).strip('-').lower()[:70]
    if case['kind'] == 'g':
        w = re.sub(r'[^a-zA-Z]+', '-', why).strip('-').lower()
        return f"gate-{case['fe']}-{w[:70]}"
    if case['kind'] == 'q':
        w = re.sub(r'\(.*', '', re.sub(r'^session \d+ \(v\d\): ', '', why))
        return 'seq-' + re.sub(r'[^a-zA-Z]+', '-', w).strip('-').lower()[:70]
    if case['kind'] == 't':
        w = re.sub(r'[^a-zA-Z]+', '-', re.sub(r'^Interest \d+: ', '', why)).strip('-').lower()
        return f"timed-{case['fe']}-{w[:70]}"
    if case['fe'] == 'v1' and c03.oracle_common(case, impl, strict=True, enforce=(False,)) is None:
        # the only thing wrong is that the deadline was not enforced while the validator ran (finding F15)
        return F15_KEY
    return c03.finding_key(case, impl, why)


LEVEL_TEXT = ('Lean 4 theorems (a) over the pending-Interest model of C03 (incl. lifetime 0, late awaits, no_response and the '
              'linearisations of same-turn ties), whose Interests carry the supplied validator as a '
              'script (verdict, latency): a payload is returned only if a matching Data was taken in time and that validator '
              'accepted it (v2: and finished before the deadline; in every linearisation of a tie: tie_data_only_if_accepted); '
              'a validation failure carries the taken Data and the '
              'validator\'s non-accepting verdict; each of the five ValidResult values decides as specified; a validator '
              'still running at the deadline yields a timeout (v2); (b) over a model of the incoming-Interest gate: wrong '
              'parameters digest => dropped before any validator; parameterised/signed Interests reach the handler only '
              'after digest check and an accepting validator, a missing validator rejects (v2), signed ones in the legacy '
              'front-end; plain Interests are delivered without consulting a validator; (c) over a TIMED small-step model '
              'of that gate (events attach / detach / arrive / start / done / deadline; node objects with identity on a heap; '
              'Interests in flight holding the node object kept at arrival), for every event history: what is observed about an '
              'Interest is a function of the registration in force at the longest attached prefix at the instant of its arrival '
              '(C04\'s specification) and of its own start / done events only (timed_flight, arrival_registration: a node that '
              'carries a callback is never written again); hence delivered only through the validator registered with that very '
              'handler, after its accepting answer for this Interest, never to a handler registered without validator (v2); '
              'wrong digest: nothing but the digest check; plain: no validator; at most one delivery; a refusing or raising '
              'validator: no delivery, the exception ends that Interest\'s own task only; once started and answered the steps '
              'are those of the atomic model on the table as it was at arrival (timed_refines_atomic). Tied to the code on every run by '
              'differential execution against the real NDNApp (v2 and legacy) with scripted validators and handlers on a '
              'virtual-time loop, plus the property oracle on the implementation.')
LEVEL_NOTE = ('Proof is about the model; model=code is sampled and - for the delivering verdicts, the except clauses around the '
              'validator call, the gate conditions and order, the ValidResult members and the digest comparison - read off the '
              'source text on every run (lean/NdnGen/C05.lean, C03.lean; pinned by gen_* / evaluated by onInterest_eq_ref), '
              'not proved. Legacy front-end: the validator runs after '
              'wait_for, so a validator that outlives the lifetime still decides (finding F15, known finding, reproduced '
              'by the oracle and exhibited as a Lean counterexample); validator_late_timeout is therefore stated for the '
              'current front-end only.')
TECHNIQUE = 'Lean 4 proof (history-level justification by induction over event histories; exhaustive case analysis of the gate; per-Interest projection of a small-step machine with a frozen-heap invariant, refinement to the atomic gate) + model/implementation correspondence check'
DESIGN_REF = 'DESIGN.md section 7, C05'
