"""C08 — TLV models encode to exact, minimal TLV and decode back to equal values."""
import importlib
import os
import struct
import tlvschema as T
import pktcommon as PK

PROP = 'C08'
TITLE = 'TLV models encode to exact, minimal TLV and decode back to equal values'
LEAN_TARGETS = ['NdnProofs.Props.C08', 'NdnGen.C08', 'NdnProofs.Props.TlvVarGen', 'NdnGen.TlvVar',
                'NdnProofs.Props.TlvModelGen', 'NdnProofs.Props.TlvModelParseGen', 'NdnGen.TlvModelFields']
THEOREMS = [
    'Ndn.C08.announced_length_exact', 'Ndn.C08.enc_wellformed', 'Ndn.C08.writeTlNum_shortest',
    'Ndn.C08.uint_smallest_width', 'Ndn.C08.parse_enc_roundtrip',
    'Ndn.C08.unknown_noncritical_skipped', 'Ndn.C08.unknown_critical_rejected', 'Ndn.Gen.C08.shipped_wf',
    # the metaclass (inheritance / IncludeBase): NdnModel/ClassMerge.lean
    'Ndn.C08.merge_is_assignment', 'Ndn.C08.merge_ok_iff', 'Ndn.C08.merged_order',
    'Ndn.C08.merged_field_is_last_assignment', 'Ndn.C08.merged_plain', 'Ndn.C08.base_not_included_ignored',
    'Ndn.C08.inherit_without_include', 'Ndn.C08.derived_encodes_in_merged_order', 'Ndn.Gen.C08.shipped_merge_ok',
    # decoder output is well-formed (any byte string): decode . encode . decode = decode
    'Ndn.C08.parse_wf', 'Ndn.C08.reencode_parses_back', 'Ndn.C08.reencode_succeeds', 'Ndn.C08.reencode_fails_only',
    'Ndn.Codec.parse_accept', 'Ndn.Codec.parse_size', 'Ndn.Codec.reencode_ok',
    # tlv_var.py TRANSLATED from its source text on every run (harness/py2lean.py -> NdnGen/TlvVar.lean) = the
    # hand-written model functions the theorems above are about, for all inputs
    'Ndn.TlvVarGen.all_translated', 'Ndn.TlvVarGen.get_tl_num_size_eq', 'Ndn.TlvVarGen.write_tl_num_eq',
    'Ndn.TlvVarGen.write_tl_num_neg', 'Ndn.TlvVarGen.pack_uint_bytes_eq', 'Ndn.TlvVarGen.parse_tl_num_eq',
    'Ndn.TlvVarGen.parse_and_check_tl_eq', 'Ndn.TlvVarGen.shrink_length_eq',
    # the methods of the leaf field classes of tlv_model.py (UintField, BoolField, BytesField on bytes and on text)
    # TRANSLATED from their source text on every run (harness/py2lean.py -> NdnGen/TlvModelFields.lean) = the clauses
    # of the generic codec (Codec.encLen / enc / leafCheck + parseValue), for all inputs
    'Ndn.TlvModelGen.all_translated', 'Ndn.TlvModelGen.uint_encoded_length_eq', 'Ndn.TlvModelGen.uint_encoded_length_none',
    'Ndn.TlvModelGen.uint_encoded_length_neg', 'Ndn.TlvModelGen.uint_encode_into_eq', 'Ndn.TlvModelGen.uint_encode_into_none',
    'Ndn.TlvModelGen.uint_two_pass', 'Ndn.TlvModelGen.bool_encoded_length_eq', 'Ndn.TlvModelGen.bool_encode_into_eq',
    'Ndn.TlvModelGen.bool_encode_into_absent', 'Ndn.TlvModelGen.bytes_encoded_length_eq', 'Ndn.TlvModelGen.str_encoded_length_eq',
    'Ndn.TlvModelGen.bytes_encode_into_eq', 'Ndn.TlvModelGen.str_encode_into_eq', 'Ndn.TlvModelGen.bytes_encode_into_none',
    'Ndn.TlvModelGen.parse_translated', 'Ndn.TlvModelGen.uint_parse_from_eq', 'Ndn.TlvModelGen.bool_parse_from_eq',
    'Ndn.TlvModelGen.bytes_parse_from_eq', 'Ndn.TlvModelGen.str_parse_from_eq',
]
PARTIAL = {}
TRUSTED = [
    'C08: the metaclass (TlvModelMeta.__new__: own fields, IncludeBase, overrides, bases that are not included) is modelled '
    '(Ndn.Codec.mergeFields) from the class namespace on: the step class statement -> cls.__dict__ (name mangling, the order '
    'of a dict) and the MRO / attribute lookup on instances are CPython; a field object bound to two names, and field '
    'objects whose .name was changed after class creation, are outside the model',
    'C08: text fields are UTF-8 bytes in the model; str<->UTF-8 is CPython',
    'C08 (tlv_var.py): get_tl_num_size, write_tl_num, pack_uint_bytes, parse_tl_num, parse_and_check_tl and shrink_length '
    'are translated from the source text by harness/py2lean.py (a compositional translator for a delimited subset; '
    'anything else is reported as not translated) and proved equal to the model functions; trusted there: the '
    'translator itself (about 500 lines), and lean/NdnModel/PySem.lean, the reading of CPython it maps to (unbounded '
    'ints as Int, struct.pack / pack_into / unpack on !BHIQ formats incl. their error classes and the Py_ssize_t '
    'limit on offsets, indexing and slicing with negative indices, memoryview(x) / bytes(x) as the identity on the '
    'contents, a buffer written through pack_into threaded as a value); arguments are the annotated types (int, '
    'bytes-like with one-byte items, writable where written)',
    'C08 (tlv_model.py field classes): encoded_length / encode_into / parse_from of UintField, BoolField and BytesField are '
    'translated the same way, as functions of the attributes of self they read and of their parameters, under the value '
    'types the classes document (None or int / bool / byte string / str; val_base_type and __get__ / __set__ are not '
    'involved in these methods); trusted in addition: the markers dict as the association list of its int entries, '
    'str.encode / bytes.decode("utf-8") as the identity on valid UTF-8 (Ndn.utf8Valid, checked against CPython by the '
    'correspondence stream), a slice assignment into the wire only where slice and value have the same size, 0x100 ** n '
    'for n >= 0. NameField, ModelField, RepeatedField, MapField and TlvModel.encode / parse themselves (loops, dynamic '
    'dispatch) are outside the translated subset and stay tied by differential execution only',
]
RULE = ('(a) randomly generated TlvModel classes (random field kinds incl. nested models, repeated, map, markers; type '
        'numbers 1..2^32-1) with random values at width/length boundaries and non-ASCII text; (b) every plain model class '
        'shipped with the library (NFD management, NDNLPv2, LVS binary, SVS, security_v2, MetaInfo/SignatureInfo/...), schema '
        'extracted live from _encoded_fields; each case is encoded by the real code and by the model, decoded back, and decoded '
        'again after one structural mutation (unknown critical / non-critical element inserted at a gap, duplicated or swapped '
        'elements, truncation, length edit; half of the insertions go INSIDE the Value of a sub-model element). Hardening '
        'streams: (m) the metaclass - hierarchies of 1-4 generated classes (one or two bases incl. diamonds, TlvModel itself or a '
        'non-TlvModel mixin as a base, bases that are not included, a base included twice, overrides before/after the '
        'IncludeBase, names assigned twice in the class body, non-field attributes, dunder names, IncludeBase of a class that '
        'is not a direct base / not a TlvModel) and every shipped class that has a base class or an IncludeBase attribute '
        '(discovered by walking the package): the Lean model computes the merged field list from the class declarations and the '
        '(live) field lists of the bases, compared with the live _encoded_fields by name and field-object identity, and judged '
        'against the documented rule where the documentation speaks; (c) shapes - Type numbers 252/253/254, 65535/65536, 2^32-1 next to each other, repeated sub-models holding '
        'repeated fields, a map inside a repeated sub-model, fixed-length integers of every width; text whose UTF-8 length '
        'is next to 253 (1-4-byte characters); (d) classes with two bases / two IncludeBase and overrides; (e) fields with '
        'declared defaults left unassigned / assigned / explicitly None (oracle only). Every case also checks: decoded == '
        'encoded (__eq__, both directions), a copy differing in one field is unequal, asdict() of the decoded model equals '
        'asdict() of the encoded one and the values assigned, encode(buffer, offset) into a 0xAA-filled caller buffer writes '
        'exactly its range. non-trivial = the value has at least two present fields; distinct = distinct '
        '(schema, value, mutation)')
LEVEL_TEXT = ('Lean 4 theorems about a generic interpreter of TLV model schemas (every nesting of integer, boolean, bytes/text, '
              'name, sub-model, repeated and map fields): announced length = encoded size, output is a well-formed TLV sequence '
              'in field order with shortest T/L and smallest integer width, decode(encode v) = v (MapField included: key '
              'UintField/BytesField, value an element field of another Type, dict keys pairwise different), unknown non-critical '
              'elements skipped and unknown critical ones rejected at every element boundary, also between a map key and its '
              'value - for ALL schemas and values by structural induction; decoder side, for EVERY byte string: whatever parse '
              'accepts is a legal assignment with integers < 2^64 and byte strings / names no longer than the wire (parse_wf), '
              'so re-encoding an accepted model - when encode succeeds, which it must for classes without fixed_len integers '
              'and wires shorter than 2^64 bytes, giving a wire no longer than the original - decodes to the same model '
              '(reencode_parses_back, reencode_succeeds); and about a model of the metaclass (for ALL class '
              'bodies and bases: the position bookkeeping is a Python dict of assignments, names once in first-assignment order, '
              'last assignment wins in place, bases that are not included contribute nothing, IncludeBaseError exactly for a '
              'non-base / non-TlvModel, an instance is encoded in that order). The interpreter and the metaclass model are '
              'tied to tlv_model.py on every run by differential execution on generated and shipped model classes; the '
              'TL-number helpers of tlv_var.py (get_tl_num_size, write_tl_num, pack_uint_bytes, parse_tl_num, '
              'parse_and_check_tl, shrink_length) are tied by translation: their source text is translated to Lean on '
              'every run and proved equal, for all inputs, to the model functions the theorems use; likewise the '
              'encoded_length / encode_into / parse_from methods of UintField, BoolField and BytesField are translated on every '
              'run and proved equal to the leaf clauses of the interpreter (encLen, enc, leafCheck + parseValue).')
LEVEL_NOTE = ('Theorems are about the Lean interpreter; interpreter = tlv_model.py is sampled. Marker pseudo-fields (no value) '
              'are outside wfTop; their offsets are covered by C01/C02. struct/memoryview semantics are CPython.')
TECHNIQUE = 'Lean 4 proof (structural induction over schema trees and field lists) + model/implementation correspondence check'
DESIGN_REF = 'DESIGN.md section 5.3 and section 7, C08'

SHIPPED = [
    'ndn.encoding.ndn_format_0_3:KeyLocator', 'ndn.encoding.ndn_format_0_3:SignatureInfo',
    'ndn.encoding.ndn_format_0_3:Links', 'ndn.encoding.ndn_format_0_3:MetaInfo',
    'ndn.encoding.ndnlp_v2:NetworkNack', 'ndn.encoding.ndnlp_v2:CachePolicy', 'ndn.encoding.ndnlp_v2:LpPacketValue',
    'ndn.encoding.ndnlp_v2:LpPacket',
    'ndn.app_support.nfd_mgmt:Strategy', 'ndn.app_support.nfd_mgmt:ControlParametersValue',
    'ndn.app_support.nfd_mgmt:ControlParameters', 'ndn.app_support.nfd_mgmt:ControlResponse',
    'ndn.app_support.nfd_mgmt:FaceEventNotificationValue', 'ndn.app_support.nfd_mgmt:FaceEventNotification',
    'ndn.app_support.nfd_mgmt:GeneralStatus', 'ndn.app_support.nfd_mgmt:FaceStatus',
    'ndn.app_support.nfd_mgmt:FaceStatusMsg', 'ndn.app_support.nfd_mgmt:FaceQueryFilterValue',
    'ndn.app_support.nfd_mgmt:FaceQueryFilter', 'ndn.app_support.nfd_mgmt:Route', 'ndn.app_support.nfd_mgmt:RibEntry',
    'ndn.app_support.nfd_mgmt:RibStatus', 'ndn.app_support.nfd_mgmt:NextHopRecord', 'ndn.app_support.nfd_mgmt:FibEntry',
    'ndn.app_support.nfd_mgmt:FibStatus', 'ndn.app_support.nfd_mgmt:StrategyChoice',
    'ndn.app_support.nfd_mgmt:StrategyChoiceMsg', 'ndn.app_support.nfd_mgmt:CsInfo',
    'ndn.app_support.light_versec.binary:UserFnArg', 'ndn.app_support.light_versec.binary:UserFnCall',
    'ndn.app_support.light_versec.binary:ConstraintOption', 'ndn.app_support.light_versec.binary:PatternConstraint',
    'ndn.app_support.light_versec.binary:PatternEdge', 'ndn.app_support.light_versec.binary:ValueEdge',
    'ndn.app_support.light_versec.binary:Node', 'ndn.app_support.light_versec.binary:TagSymbol',
    'ndn.app_support.light_versec.binary:LvsModel',
    'ndn.app_support.svs.tlv:StateVecEntry', 'ndn.app_support.svs.tlv:StateVec', 'ndn.app_support.svs.tlv:StateVecWrapper',
    'ndn.app_support.svs.tlv:MappingEntry', 'ndn.app_support.svs.tlv:MappingData',
    'ndn.app_support.security_v2:ValidityPeriod', 'ndn.app_support.security_v2:DescriptionEntry',
    'ndn.app_support.security_v2:AdditionalDescription', 'ndn.app_support.security_v2:CertificateV2Extension',
    'ndn.app_support.security_v2:CertificateV2SignatureInfo',
]


def _cls(path):
    m, c = path.split(':')
    return getattr(importlib.import_module(m), c)


def _exc(e):
    from ndn.encoding import DecodeError
    if isinstance(e, DecodeError):
        return 'DecodeError'
    if isinstance(e, struct.error):
        return 'struct.error'
    for c in (IndexError, KeyError, ValueError, TypeError, AttributeError, OverflowError):
        if isinstance(e, c):
            return c.__name__
    return type(e).__name__


# ------------------------------------------------------------------------------------- cases
def _present(v):
    return sum(1 for x in (v or []) if x is not None and x != ('l', []) and x != ('p', []))


def _top_types(fs):
    out = set()
    for s in fs:
        if s[0] == 'R':
            out.add(s[1][1])
        elif s[0] == 'P':
            out.add(s[1][1])
            out.add(s[2][1])       # the value Type is recognised too (right after a key)
        elif s[0] != 'K':
            out.add(s[1])
    return out


def _mutation(rng, fs, vals):
    kind = rng.choice(['none', 'none', 'ins_noncrit', 'ins_noncrit', 'ins_crit', 'dup', 'swap', 'trunc', 'lenedit'])
    m = {'kind': kind, 'gap': rng.randint(0, 8), 'r': rng.randint(0, 10 ** 6)}
    used = _top_types(fs)
    t = rng.choice([2, 100, 254, 1000, 65536])
    while t in used:
        t += 2
    m['even'] = t
    t = rng.choice([3, 101, 253, 1001, 65537])
    while t in used:
        t += 2
    m['odd'] = t
    m['payload'] = bytes(rng.getrandbits(8) for _ in range(rng.choice([0, 1, 5]))).hex()
    # "wherever they are inserted": also inside the Value of a sub-model element (when the wire has one)
    if kind in ('ins_noncrit', 'ins_crit') and rng.random() < 0.5:
        m['nest'] = True
        m['nr'] = rng.randint(0, 10 ** 6)
    return m


def cases(rng, tier):
    n_gen = 1200 if tier == 'quick' else 12000
    n_ship = 800 if tier == 'quick' else 8000
    for _ in range(n_gen):
        fs = T.random_schema(rng)
        vals = [T.random_value(rng, s, big=(tier == 'thorough' and rng.random() < 0.02)) for s in fs]
        yield _spelled(rng, {'kind': 'gen', 'schema': [T.strip_classes(s) for s in fs], 'values': [T.jval(v) for v in vals],
                             'mut': _mutation(rng, fs, vals)})
    for _ in range(200 if tier == 'quick' else 3000):
        yield _inherit_case(rng)
    for path in _inheriting_shipped():
        yield {'kind': 'shipcls', 'cls': path}
    for _ in range(600 if tier == 'quick' else 8000):
        yield _cls_case(rng)
    for _ in range(800 if tier == 'quick' else 6000):
        fs = _shape_schema(rng)
        vals = [T.random_value(rng, s, present=0.9) for s in fs]
        yield _spelled(rng, {'kind': 'gen', 'schema': [T.strip_classes(s) for s in fs], 'values': [T.jval(v) for v in vals],
                             'mut': _mutation(rng, fs, vals), 'shape': 1})
    for _ in range(300 if tier == 'quick' else 3000):
        yield _default_case(rng)
    for _ in range(n_ship):
        path = rng.choice(SHIPPED)
        try:
            fs = T.class_schema(_cls(path))       # the shipped class's own field table is the input of this case
        except Exception as e:     # noqa - not a crash of the generator: a case that reports it (see run_impl)
            yield {'kind': 'shipped', 'cls': path, 'values': [], 'mut': {'kind': 'none'},
                   'setup_error': f'{type(e).__name__}: {e}'[:200]}
            continue
        vals = [T.random_value(rng, s) for s in fs]
        yield _spelled(rng, {'kind': 'shipped', 'cls': path, 'values': [T.jval(v) for v in vals], 'mut': _mutation(rng, fs, vals)})


def _spelled(rng, case):
    """40% of the value cases say how the caller holds its values and the wire (`spell`): byte strings as bytearray /
    memoryview / a memoryview into a larger buffer; names as URI string, list of URI components, encoded Name (bytes,
    bytearray, memoryview), tuple, mixed; the model built by attribute assignment instead of through __dict__; the
    wire handed to parse() as bytearray / memoryview / slice of a larger buffer; parse(..., ignore_critical=True)"""
    if rng.random() >= 0.4:
        return case
    sp = {'seed': rng.getrandbits(16)}
    if rng.random() < 0.5:
        sp['bytes'] = rng.choice(PK.BUF_FORMS[1:])
    if rng.random() < 0.4:
        sp['name'] = rng.choice(['uri', 'strs', 'wire', 'wire_mv', 'wire_ba', 'mixed', 'tuple', 'uri_alt', 'strs_alt'])
    if rng.random() < 0.4:
        sp['wire'] = rng.choice(PK.BUF_FORMS[1:])
    if rng.random() < 0.3:
        sp['ic'] = 1
    if rng.random() < 0.3:
        sp['build'] = 'setattr'
    case['spell'] = sp
    return case


def _shape_schema(rng):
    """model shapes the random schema generator reaches rarely: Type numbers on both sides of the 253 / 65536 form
    changes next to each other; a repeated sub-model holding repeated fields; a map inside a repeated sub-model;
    fixed-length integers of every width"""
    k = rng.choice(['adjacent', 'adjacent', 'rep_in_rep', 'map_in_rep', 'fixed', 'rep_model_in_model'])

    def leaf(t):
        r = rng.choice(['U', 'U', 'Y', 'T', 'B'])
        return ('U', t, rng.choice([None, None, 1, 2, 4, 8])) if r == 'U' else ('Y', t, False) if r == 'Y' \
            else ('Y', t, True) if r == 'T' else ('B', t)
    if k == 'adjacent':
        ts = rng.choice([[252, 253, 254], [251, 252, 253, 255], [65534, 65535, 65536, 65537], [252, 253, 65535, 65536],
                         [252, 254, 65536, 2 ** 32 - 2, 2 ** 32 - 1], [2 ** 32 - 2, 2 ** 32 - 1, 2 ** 32]])
        fs = [leaf(t) for t in ts]
        if rng.random() < 0.4:
            i = rng.randrange(len(fs))
            fs[i] = ('R', fs[i]) if fs[i][0] != 'B' else fs[i]
        return fs
    if k == 'fixed':
        return [('U', 10 + i, w) for i, w in enumerate(rng.sample([1, 2, 4, 8, None, 1, 8], 4))]
    inner_t = iter(rng.sample(range(1, 250), 8))
    if k == 'rep_in_rep':
        sub = [('R', ('U', next(inner_t), rng.choice([None, 2]))), ('R', ('Y', next(inner_t), rng.random() < 0.5)),
               ('U', next(inner_t), None)]
        if rng.random() < 0.5:
            sub.insert(rng.randint(0, 3), ('R', ('M', next(inner_t), False, [('R', ('U', 1, None)), ('B', 2)], None)))
        return [('R', ('M', rng.choice([100, 253, 65536]), False, sub, None)), ('U', 300, None)]
    if k == 'map_in_rep':
        kk = ('U', next(inner_t), None) if rng.random() < 0.5 else ('Y', next(inner_t), True)
        vv = rng.choice([('U', next(inner_t), None), ('Y', next(inner_t), False),
                         ('M', next(inner_t), False, [('U', 1, None), ('R', ('Y', 2, False))], None)])
        sub = [('U', next(inner_t), None), ('P', kk, vv)]
        if rng.random() < 0.5:
            sub.reverse()
        return [('Y', 90, True), ('R', ('M', rng.choice([101, 254, 65537]), rng.random() < 0.2, sub, None))]
    sub2 = [('R', ('M', next(inner_t), False, [('U', 1, None), ('Y', 2, True)], None)), ('B', next(inner_t))]
    return [('M', rng.choice([129, 253]), rng.random() < 0.3, sub2, None), ('R', ('U', 131, 1))]


def _default_case(rng):
    """a flat model whose fields declare default values; some fields are left unassigned (the default is to be encoded
    and read back), the others are assigned"""
    used = set()
    fields = []
    for _ in range(rng.randint(1, 4)):
        s = _leaf(rng, used)
        if s[0] == 'B':
            s = ['U', s[1], None]
        sd = T.unstrip(s)
        d = T.random_value(rng, sd, present=0.75)
        v = T.random_value(rng, sd, present=1.0) if rng.random() < 0.5 else rng.choice(['unset', 'unset', 'none'])
        fields.append({'schema': s, 'default': T.jval(d), 'value': v if isinstance(v, str) else T.jval(v)})
    if rng.random() < 0.3:
        fields.insert(rng.randint(0, len(fields)), {'schema': ['N', 7], 'default': ['n', [T.random_comp(rng).hex()]],
                                                     'value': 'unset' if rng.random() < 0.6 else T.jval(T.random_value(rng, ('N', 7), 1.0))})
    return {'kind': 'dflt', 'fields': fields, 'values': [],
            'mut': {'kind': 'none', 'gap': 0, 'r': 0, 'even': 2, 'odd': 3, 'payload': ''}}


def _leaf(rng, used):
    while True:
        t = rng.choice([rng.randint(1, 252), rng.randint(1, 252), 253, 256, 65536 + rng.randint(0, 9)])
        if t not in used and t != 7:
            used.add(t)
            break
    k = rng.choice(['U', 'Y', 'B'])
    return ['U', t, rng.choice([None, None, 2])] if k == 'U' else ['Y', t, rng.random() < 0.3] if k == 'Y' else ['B', t]


def _inherit_case(rng):
    """a derived TlvModel class: own fields, IncludeBase(Base) at a random position, overrides of base fields (before or
    after the IncludeBase); values are assigned by field name"""
    used = set()
    base = [_leaf(rng, used) for _ in range(rng.randint(1, 4))]
    derived = [['own', _leaf(rng, used)] for _ in range(rng.randint(0, 3))]
    derived.insert(rng.randint(0, len(derived)), ['inc'])
    for i in rng.sample(range(len(base)), rng.randint(0, min(2, len(base)))):
        derived.insert(rng.randint(0, len(derived)), ['ovr', i, _leaf(rng, used)])
    case = {'kind': 'inh', 'base': base, 'derived': derived,
            'mut': {'kind': 'none', 'gap': 0, 'r': 0, 'even': 2, 'odd': 3, 'payload': ''}}
    if rng.random() < 0.4:
        # a second base class, included by its own IncludeBase (as CertificateV2SignatureInfo does)
        base2 = [_leaf(rng, used) for _ in range(rng.randint(1, 3))]
        derived.insert(rng.randint(0, len(derived)), ['inc2'])
        if rng.random() < 0.5:
            derived.insert(rng.randint(0, len(derived)), ['ovr2', rng.randrange(len(base2)), _leaf(rng, used)])
        case['base2'] = base2
    names, vals = _inherit_expected(base, derived, case.get('base2'))
    case['values'] = {n: T.jval(T.random_value(rng, T.unstrip(s), present=0.85)) for n, s in names}
    # the Type number a base field had BEFORE it was overridden is not a Type of the derived model any more: an element
    # carrying it is an unrecognised element like any other (skipped when non-critical, DecodeError when critical)
    old = [base[d[1]][1] for d in derived if d[0] == 'ovr'] + \
          [case['base2'][d[1]][1] for d in derived if d[0] == 'ovr2']
    old = [t for t in old if t not in {sch[1] for _, sch in names}]
    if old and rng.random() < 0.7:
        t = rng.choice(old)
        pl = rng.choice([b'', bytes([rng.randrange(256)]), bytes(rng.getrandbits(8) for _ in range(rng.choice([2, 4, 8])))])
        case['mut'] = {'kind': 'ins_noncrit' if t % 2 == 0 else 'ins_crit', 'gap': rng.randint(0, 8), 'r': 0,
                       'even': t, 'odd': t, 'payload': pl.hex()}
    return case


def _inherit_expected(base, derived, base2=None):
    """the field order the documentation of TlvModel / IncludeBase promises: attributes in definition order; a
    name seen before (own, or brought in by IncludeBase) is replaced where it stands, a new name is appended"""
    order, pos = [], {}

    def put(name, schema):
        if name in pos:
            order[pos[name]] = (name, schema)
        else:
            pos[name] = len(order)
            order.append((name, schema))
    k = 0
    for d in derived:
        if d[0] == 'own':
            put(f'o{k}', d[1])
            k += 1
        elif d[0] == 'inc':
            for i, s in enumerate(base):
                put(f'b{i}', s)
        elif d[0] == 'inc2':
            for i, s in enumerate(base2):
                put(f'c{i}', s)
        elif d[0] == 'ovr2':
            put(f'c{d[1]}', d[2])
        else:
            put(f'b{d[1]}', d[2])
    return order, None


def _inherit_classes(case):
    from ndn.encoding import tlv_model as tm
    battrs = {}
    for i, s in enumerate(case['base']):
        battrs[f'b{i}'] = T._build_field(T.unstrip(s))[0]
    Base = type('InhBase', (tm.TlvModel,), battrs)
    bases = (Base,)
    if case.get('base2'):
        Base2 = type('InhBase2', (tm.TlvModel,), {f'c{i}': T._build_field(T.unstrip(s))[0] for i, s in enumerate(case['base2'])})
        bases = (Base, Base2)
    dattrs, k = {}, 0
    for d in case['derived']:
        if d[0] == 'own':
            dattrs[f'o{k}'] = T._build_field(T.unstrip(d[1]))[0]
            k += 1
        elif d[0] == 'inc':
            dattrs['_inc'] = tm.IncludeBase(Base)
        elif d[0] == 'inc2':
            dattrs['_inc2'] = tm.IncludeBase(Base2)
        elif d[0] == 'ovr2':
            dattrs[f'c{d[1]}'] = T._build_field(T.unstrip(d[2]))[0]
        else:
            dattrs[f'b{d[1]}'] = T._build_field(T.unstrip(d[2]))[0]
    return type('InhDerived', bases, dattrs)


# ------------------------------------------------------------------ class hierarchies (the metaclass)
_SHIPCLS = None


def _inheriting_shipped():
    """every TlvModel class shipped with the library that has a base class other than TlvModel or an IncludeBase
    attribute, as 'module:Name' (found by walking the package; modules that do not import here are skipped)"""
    global _SHIPCLS
    if _SHIPCLS is not None:
        return _SHIPCLS
    import pkgutil
    import ndn
    from ndn.encoding import tlv_model as tm
    found = set()
    for m in pkgutil.walk_packages(ndn.__path__, 'ndn.', onerror=lambda n: None):
        if m.name.startswith('ndn.contrib'):
            continue
        try:
            spec = m.module_finder.find_spec(m.name)
            if not spec or not spec.origin or 'TlvModel' not in open(spec.origin, encoding='utf-8').read():
                continue
            mod = importlib.import_module(m.name)
        except Exception:     # noqa  (platform-specific modules)
            continue
        for n, o in vars(mod).items():
            if isinstance(o, type) and issubclass(o, tm.TlvModel) and o is not tm.TlvModel and o.__module__ == m.name \
                    and o.__qualname__ == n:
                if o.__bases__ != (tm.TlvModel,) or any(isinstance(v, tm.IncludeBase) for v in vars(o).values()):
                    found.add(f'{m.name}:{n}')
    _SHIPCLS = sorted(found)
    return _SHIPCLS


FIELD_NAMES = ['a', 'b', 'c', 'd', 'e', 'f1', 'g_2', '_p']


def _cls_case(rng):
    """a small hierarchy of TlvModel classes.  class = {'bases': [index of an earlier class | 'T' (TlvModel itself) |
    'X' (a mixin that is not a TlvModel)], 'body': the assignments of the class body in order, each
    [name, 'f', schema] (a field) | [name, 'i', k] (IncludeBase(bases[k])) | [name, 'I', j] (IncludeBase of class j,
    which is NOT a direct base; -1: an unrelated TlvModel) | [name, 'o'] (something that is not a field)}"""
    used = set()
    classes, anc, names_of = [], [], []
    n = rng.choice([1, 2, 2, 3, 3, 4])
    for ci in range(n):
        prev = list(range(ci))
        bases = []
        if prev:
            cand = rng.sample(prev, min(rng.choice([0, 1, 1, 1, 2, 2]), len(prev)))
            # (a base that is an ancestor of another base has no consistent MRO)
            bases = [b for b in cand if not any(b in anc[o] for o in cand if o != b)]
        if not bases or rng.random() < 0.08:
            bases.append('T')
        if rng.random() < 0.12:
            bases.insert(rng.randint(0, len(bases) - 1), 'X')
        inherited = sorted(set().union(*[names_of[b] for b in bases if isinstance(b, int)]))
        body = []
        for _ in range(rng.randint(0, 4)):
            body.append([rng.choice(FIELD_NAMES + inherited * 2), 'f', _leaf(rng, used)])

        def ins(x):
            body.insert(rng.randint(0, len(body)), x)
        for k, b in enumerate(bases):
            if rng.random() < (0.8 if b != 'X' else 0.1):
                ins([f'_inc{k}', 'i', k])
                if rng.random() < 0.08:
                    ins([f'_again{k}', 'i', k])
        if rng.random() < 0.15:
            ins([rng.choice(['helper', 'a', 'b'] + inherited), 'o'])
        if rng.random() < 0.1:
            ins([rng.choice(['__hidden', '__a__']), 'f', _leaf(rng, used)])
        if rng.random() < 0.06:
            ins(['__inc', 'i', rng.randrange(len(bases))])
        if ci == n - 1 and rng.random() < 0.08:
            foreign = [j for j in prev if j not in bases]
            ins(['_bad', 'I', rng.choice(foreign) if foreign and rng.random() < 0.7 else -1])
        classes.append({'bases': bases, 'body': body})
        anc.append(set(b for b in bases if isinstance(b, int)).union(*[anc[b] for b in bases if isinstance(b, int)]))
        own = {d[0] for d in body if d[1] == 'f'}
        names_of.append(own.union(*[names_of[bases[d[2]]] for d in body if d[1] == 'i' and isinstance(bases[d[2]], int)]))
    return {'kind': 'cls', 'classes': classes, 'values': [],
            'mut': {'kind': 'none', 'gap': 0, 'r': 0, 'even': 2, 'odd': 3, 'payload': ''}}


def _visible_dict(body):
    """cls.__dict__ as the class body leaves it (a name assigned again keeps its place), without dunder names"""
    d = {}
    for e in body:
        d[e[0]] = e
    return [e for n, e in d.items() if not n.startswith('__')]


def _doc_merge(classes):
    """per class the field list [(name, field id)] the documentation of TlvModel promises ("Derivation", "Overriding":
    attributes in definition order, an IncludeBase stands for the fields of that base, a name seen before is replaced
    where it stands), 'IncludeBaseError' for an IncludeBase of a class that is not a base / not a TlvModel, and None
    where the documentation does not speak (a TlvModel base without its IncludeBase field, or a class built on one)"""
    out = []
    for ci, c in enumerate(classes):
        vis = _visible_dict(c['body'])
        included = {e[2] for e in vis if e[1] == 'i'}
        if any(e[1] == 'I' or (e[1] == 'i' and c['bases'][e[2]] == 'X') for e in vis):
            out.append('IncludeBaseError')
            continue
        if any(isinstance(b, int) and (k not in included or not isinstance(out[b], list)) for k, b in enumerate(c['bases'])):
            out.append(None)
            continue
        order, pos = [], {}
        for e in vis:
            if e[1] == 'f':
                items = [(e[0], ci * 100 + next(j for j, x in enumerate(c['body']) if x is e))]
            elif e[1] == 'i':
                b = c['bases'][e[2]]
                items = out[b] if isinstance(b, int) else []
            else:
                items = []
            for nm, fid in items:
                if nm in pos:
                    order[pos[nm]] = (nm, fid)
                else:
                    pos[nm] = len(order)
                    order.append((nm, fid))
        out.append([list(x) for x in order])
    return out


def _q_fields(fields, fid):
    return ','.join(f'{f.name}={fid[id(f)]}' for f in fields) if fields else '.'


def _q_bases(bases_live, fid):
    """the base classes as the model is told about them: position, and the field list each one has collected"""
    from ndn.encoding import tlv_model as tm
    out = []
    for b in bases_live:
        if not (isinstance(b, type) and issubclass(b, tm.TlvModel)):
            out.append('!')
        else:
            for f in b._encoded_fields:
                fid.setdefault(id(f), 100000 + len(fid))
            out.append(_q_fields(b._encoded_fields, fid))
    return '|'.join(out) if out else '-'


def _run_cls(case):
    """build the hierarchy with the real metaclass; per class the question for the model and what the library collected"""
    from ndn.encoding import tlv_model as tm
    Unrelated = type('Unrelated', (tm.TlvModel,), {'zz': tm.UintField(1)})
    live, fid, keep, qs, got = [], {}, [], [], []
    for ci, c in enumerate(case['classes']):
        bases = tuple(tm.TlvModel if b == 'T' else type(f'Mixin{ci}', (), {}) if b == 'X' else live[b] for b in c['bases'])
        attrs, decls = {}, []
        for j, d in enumerate(c['body']):
            if d[1] == 'f':
                obj = T._build_field(T.unstrip(d[2]))[0]
                keep.append(obj)
                fid[id(obj)] = ci * 100 + j
                attrs[d[0]] = obj
                decls.append(f'{d[0]}=f{ci * 100 + j}')
            elif d[1] == 'i':
                attrs[d[0]] = tm.IncludeBase(bases[d[2]])
                decls.append(f'{d[0]}=i{d[2]}')
            elif d[1] == 'I':
                attrs[d[0]] = tm.IncludeBase(live[d[2]] if d[2] >= 0 else Unrelated)
                decls.append(f'{d[0]}=i{len(bases) + 3}')
            else:
                attrs[d[0]] = 5
                decls.append(f'{d[0]}=o')
        qs.append(f"merge {_q_bases(bases, fid)} {','.join(decls) if decls else '-'}")
        try:
            cls = type(f'C{ci}', bases, attrs)
        except tm.IncludeBaseError:
            got.append('IncludeBaseError')
            break
        live.append(cls)
        got.append([[f.name, fid.get(id(f), -1)] for f in cls._encoded_fields])
    return {'cls': True, 'merge_q': qs, 'merge_live': got, 'doc': _doc_merge(case['classes'])[:len(got)]}


def _live_question(cls):
    """the question for the model about a class that exists: bases = cls.__bases__ with the lists they collected, body =
    cls.__dict__ in order (what the metaclass iterated over)"""
    from ndn.encoding import tlv_model as tm
    fid, decls = {}, []
    bq = _q_bases(cls.__bases__, fid)
    for name, v in vars(cls).items():
        if isinstance(v, tm.Field):
            fid.setdefault(id(v), len(fid))
            decls.append(f'{name}=f{fid[id(v)]}')
        elif isinstance(v, tm.IncludeBase):
            k = [i for i, b in enumerate(cls.__bases__) if b is v.base]
            decls.append(f'{name}=i{k[0] if k else len(cls.__bases__) + 3}')
        else:
            decls.append(f'{name}=o')
    return f"merge {bq} {','.join(decls) if decls else '-'}", [[f.name, fid.get(id(f), -1)] for f in cls._encoded_fields]


def _run_shipcls(case):
    cls = _cls(case['cls'])
    q, got = _live_question(cls)
    return {'cls': True, 'merge_q': [q], 'merge_live': [got], 'doc': [None]}


def _merge_answer(a):
    """driver answer -> the same form as merge_live"""
    t = a.split()
    if t[0] == 'err':
        return t[1]
    if t[0] != 'ok':
        return 'model said ' + a
    return [] if t[1] == '-' else [[x.split('=')[0], int(x.split('=')[1])] for x in t[1].split(',')]


def shrink(case):
    if case['kind'] == 'shipcls':
        return
    if case['kind'] == 'cls':
        cl = case['classes']
        if len(cl) > 1:
            yield dict(case, classes=cl[:-1])
        for i, c in enumerate(cl):
            for j, d in enumerate(c['body']):
                # (ids are positions in the body: removing an entry renumbers consistently on both sides)
                yield dict(case, classes=cl[:i] + [dict(c, body=c['body'][:j] + c['body'][j + 1:])] + cl[i + 1:])
        return
    if case['kind'] == 'dflt':
        f = case['fields']
        for i in range(len(f)):
            if len(f) > 1:
                yield dict(case, fields=f[:i] + f[i + 1:])
        return
    if case['kind'] == 'inh':
        d = case['derived']
        for i in range(len(d)):
            if d[i][0] not in ('inc', 'inc2'):
                d2 = d[:i] + d[i + 1:]
                names, _ = _inherit_expected(case['base'], d2, case.get('base2'))
                yield dict(case, derived=d2, values={n: case['values'].get(n) for n, _ in names})
        return
    vals = case['values']
    if case.get('spell'):
        yield {a: b for a, b in case.items() if a != 'spell'}
        for k in case['spell']:
            if k != 'seed':
                yield dict(case, spell={a: b for a, b in case['spell'].items() if a != k})
    for i, v in enumerate(vals):
        if v is not None:
            yield dict(case, values=vals[:i] + [None] + vals[i + 1:])
    if case['mut']['kind'] != 'none':
        yield dict(case, mut=dict(case['mut'], kind='none'))
    for i, v in enumerate(vals):
        if v is not None and v[0] == 'y' and len(v[1]) > 2:
            yield dict(case, values=vals[:i] + [['y', v[1][:2]]] + vals[i + 1:])
        if v is not None and v[0] in ('l', 'm', 'p') and len(v[1]) > 0:
            for j in range(len(v[1])):
                if v[0] == 'm':
                    if v[1][j] is not None:
                        yield dict(case, values=vals[:i] + [[v[0], v[1][:j] + [None] + v[1][j + 1:]]] + vals[i + 1:])
                else:
                    yield dict(case, values=vals[:i] + [[v[0], v[1][:j] + v[1][j + 1:]]] + vals[i + 1:])


# -------------------------------------------------------------------------- implementation
def _to_py_sp(s, v, sp, ctr):
    """T.to_py with the leaves held the way `sp` says"""
    k = s[0]
    if k == 'R':
        return [_to_py_sp(s[1], x, sp, ctr) for x in (v[1] if v else [])]
    if k == 'P':
        return {T.to_py(s[1], a): _to_py_sp(s[2], b, sp, ctr) for a, b in (v[1] if v else [])}
    if v is None:
        return None
    if k == 'Y' and not s[2]:
        return PK.buf_in_form(v[1], sp.get('bytes'))
    if k == 'N':
        ctr[0] += 1
        return PK.name_in_form(v[1], sp.get('name'), sp['seed'] + ctr[0])
    if k == 'M':
        return _to_instance_sp(s[4], s[3], v[1], sp, ctr)
    return T.to_py(s, v)


def _to_instance_sp(cls, fs, vals, sp, ctr=None):
    ctr = [0] if ctr is None else ctr
    inst = cls()
    inst.__dict__.clear()
    for f, s, v in zip(cls._encoded_fields, fs, vals):
        if s[0] == 'K':
            continue
        pv = _to_py_sp(s, v, sp, ctr)
        if sp.get('build') == 'setattr':
            setattr(inst, f.name, pv)
        else:
            inst.__dict__[f.name] = pv
    return inst


def _setup(case):
    if case['kind'] == 'inh':
        cls = _inherit_classes(case)
        names, _ = _inherit_expected(case['base'], case['derived'], case.get('base2'))
        fs = [T.unstrip(sch) for _, sch in names]          # the EXPECTED field list (documented merge rule)
        vals = [T.unjval(case['values'].get(n)) for n, _ in names]
        return cls, fs, vals
    if case['kind'] == 'gen':
        fs0 = [T.unstrip(s) for s in case['schema']]
        cls, fs = T.build_class(fs0)
    else:
        cls = _cls(case['cls'])
        fs = T.class_schema(cls)
    vals = [T.unjval(v) for v in case['values']]
    return cls, fs, vals


def _value_of(el):
    """Value bytes of one complete element"""
    def num(o):
        b = el[o]
        if b <= 0xFC:
            return b, 1
        w = {0xFD: 2, 0xFE: 4, 0xFF: 8}[b]
        return int.from_bytes(el[o + 1:o + 1 + w], 'big'), 1 + w
    _, a = num(0)
    ln, b = num(a)
    return el[a + b:a + b + ln]


def _elements(wire):
    """split a TLV sequence into (type, whole-element bytes); stops at the first element it cannot read"""
    out, off = [], 0
    try:
        while off < len(wire):
            def num(o):
                b = wire[o]
                if b <= 0xFC:
                    return b, 1
                w = {0xFD: 2, 0xFE: 4, 0xFF: 8}[b]
                if o + 1 + w > len(wire):
                    raise IndexError
                return int.from_bytes(wire[o + 1:o + 1 + w], 'big'), 1 + w
            t, st = num(off)
            l, sl = num(off + st)
            if off + st + sl + l > len(wire):
                raise IndexError
            out.append((t, wire[off:off + st + sl + l]))
            off += st + sl + l
    except IndexError:
        if off < len(wire):
            out.append((-1, wire[off:]))
    return out


def _nest_target(wire, m, fs):
    """(index of the top-level element to edit, its sub-model schema) for a nested insertion, or None"""
    if not m.get('nest') or fs is None:
        return None
    sub = {}
    for s in fs:
        e = s[1] if s[0] == 'R' else s
        if e[0] == 'M' and s[0] in ('M', 'R'):
            sub.setdefault(e[1], e)
    els = _elements(wire)
    cand = [i for i, (t, _) in enumerate(els) if t in sub]
    if not cand:
        return None
    i = cand[m['nr'] % len(cand)]
    return i, sub[els[i][0]]


def _mutate(wire, m, fs=None):
    k = m['kind']
    if k == 'none':
        return wire
    els = _elements(wire)
    nt = _nest_target(wire, m, fs) if k in ('ins_noncrit', 'ins_crit') else None
    if nt is not None:
        i, e = nt
        t = m['even'] if k == 'ins_noncrit' else m['odd']
        while t in _top_types(e[3]):
            t += 2
        inner = _elements(_value_of(els[i][1]))
        g = m['gap'] % (len(inner) + 1)
        pl = bytes.fromhex(m['payload'])
        body = b''.join(x for _, x in inner[:g]) + T.tl(t) + T.tl(len(pl)) + pl + b''.join(x for _, x in inner[g:])
        new = T.tl(e[1]) + T.tl(len(body)) + body
        return b''.join(x for _, x in els[:i]) + new + b''.join(x for _, x in els[i + 1:])
    g = m['gap'] % (len(els) + 1)
    pre = b''.join(e for _, e in els[:g])
    post = b''.join(e for _, e in els[g:])
    pl = bytes.fromhex(m['payload'])
    if k == 'ins_noncrit':
        return pre + T.tl(m['even']) + T.tl(len(pl)) + pl + post
    if k == 'ins_crit':
        return pre + T.tl(m['odd']) + T.tl(len(pl)) + pl + post
    if k == 'dup':
        if not els:
            return wire
        i = m['r'] % len(els)
        return b''.join(e for _, e in els[:i + 1]) + els[i][1] + b''.join(e for _, e in els[i + 1:])
    if k == 'swap':
        if len(els) < 2:
            return wire
        i = m['r'] % (len(els) - 1)
        els2 = els[:i] + [els[i + 1], els[i]] + els[i + 2:]
        return b''.join(e for _, e in els2)
    if k == 'trunc':
        return wire[:m['r'] % (len(wire) + 1)]
    if k == 'lenedit':
        if not wire:
            return wire
        i = m['r'] % len(wire)
        return wire[:i] + bytes([(wire[i] + 1 + m['gap']) % 256]) + wire[i + 1:]
    return wire


def _run_default(case):
    """fields with declared defaults: what is encoded for an unassigned field, and what reading a field gives back"""
    from ndn.encoding import tlv_model as tm
    attrs, fs, eff = {}, [], []
    for i, f in enumerate(case['fields']):
        sch = T.unstrip(f['schema'])
        d = T.unjval(f['default'])
        dpy = None if d is None else T.to_py(sch, d)
        if sch[0] == 'U':
            attrs[f'f{i}'] = tm.UintField(sch[1], default=dpy, fixed_len=sch[2])
        elif sch[0] == 'Y':
            attrs[f'f{i}'] = tm.BytesField(sch[1], default=dpy, is_string=sch[2])
        else:
            attrs[f'f{i}'] = tm.NameField(default=dpy)
        fs.append(sch)
        # unassigned -> the declared default is encoded; explicitly None -> omitted; otherwise the value
        eff.append(d if f['value'] == 'unset' else None if f['value'] == 'none' else T.unjval(f['value']))
    cls = type('Dflt', (tm.TlvModel,), attrs)
    out = {'dflt': True}
    try:
        inst = cls()
        for i, f in enumerate(case['fields']):
            if f['value'] == 'none':
                setattr(inst, f'f{i}', None)
            elif f['value'] != 'unset':
                setattr(inst, f'f{i}', T.to_py(fs[i], T.unjval(f['value'])))
        announced = inst.encoded_length()
        wire = bytes(inst.encode())
        out['enc'] = ['ok', wire.hex(), announced]
    except Exception as e:     # noqa
        out['enc'] = ['err', _exc(e)]
        return out
    out['ref'] = b''.join(T.ref_encode(sch, v) for sch, v in zip(fs, eff)).hex()
    try:
        back = cls.parse(wire)
        out['read_back'] = T.values_text([T.from_py(sch, getattr(back, f'f{i}')) for i, sch in enumerate(fs)])
        # (a field explicitly set to None reads back as its default: documented, so no equality is expected then)
        out['eq'] = (bool(back == inst) and bool(inst == back)) or \
            any(f['value'] == 'none' and f['default'] is not None for f in case['fields'])
        empty = cls.parse(b'')
        out['read_empty'] = T.values_text([T.from_py(sch, getattr(empty, f'f{i}')) for i, sch in enumerate(fs)])
    except Exception as e:     # noqa
        out['read_back'] = 'raised ' + _exc(e)
    out['want_back'] = T.values_text([T.unjval(f['default']) if v is None else v for f, v in zip(case['fields'], eff)])
    out['want_empty'] = T.values_text([T.unjval(f['default']) for f in case['fields']])
    return out


def _want_dict(cls, fs, vals):
    """field name -> plain Python value, as the documentation of asdict() describes it (generated classes only)"""
    out = {}
    for f, s, v in zip(cls._encoded_fields, fs, vals):
        if s[0] == 'K':
            out[f.name] = f         # (a marker pseudo-field reads as itself; compared by identity below)
            continue
        out[f.name] = _want1(s, v)
    return out


def _want1(s, v):
    k = s[0]
    if k == 'R':
        return [_want1(s[1], x) for x in (v[1] if v else [])]
    if k == 'P':
        return {_want1(s[1], a): _want1(s[2], b) for a, b in (v[1] if v else [])}
    if v is None:
        return None
    if k == 'U':
        return v[1]
    if k == 'B':
        return True
    if k == 'Y':
        return v[1].decode('utf-8') if s[2] else bytes(v[1])
    if k == 'N':
        return [bytes(c) for c in v[1]]
    return _want_dict(s[4], s[3], v[1])


def _extras(cls, fs, vals, inst, wire, names, want_dict=None, skip_eq=False):
    """observations next to encode / parse: __eq__ and asdict() after a round trip, a changed copy is unequal,
    encoding into a caller-supplied buffer at an offset (bytearray, memoryview, exact size), the two-pass API with one
    markers dict, and the SAME instance encoded again after one of its fields was changed (and changed back)"""
    ex = {}
    _second_uses(cls, fs, vals, inst, wire, names, ex)
    if skip_eq:
        # (a name assigned as URI text / encoded Name does not compare equal to the decoded list of components)
        return ex
    try:
        back = cls.parse(wire)
        ex['eq'] = bool(back == inst) and bool(inst == back)
        try:
            d1 = inst.asdict()
        except Exception:     # noqa
            # asdict() of a model with an absent bytes / sub-model field raises TypeError / AttributeError (reported,
            # not judged); an integer outside the Enum / Flag type of its field raises ValueError (not a legal value)
            d1 = None
        if d1 is not None:
            try:
                ex['asdict'] = bool(_plain(back.asdict()) == _plain(d1))
                if ex['asdict'] and want_dict is not None and _plain(d1) != want_dict:
                    ex['asdict'] = 'differs from the values assigned'
            except Exception as e:     # noqa
                ex['asdict'] = 'raised ' + _exc(e)
        # a copy differing in one top-level integer / text / bytes field must compare unequal
        for f, s, v in zip(cls._encoded_fields if names is None else [getattr(cls, n) for n in names], fs, vals):
            if s[0] in ('U', 'Y') and v is not None:
                other = cls.parse(wire)
                if s[0] == 'U':
                    nv = v[1] ^ 1
                    if s[2] is None and (nv.bit_length() + 7) // 8 != (v[1].bit_length() + 7) // 8 and False:
                        continue
                else:
                    nv = (v[1] + b'x') if not s[2] else (v[1].decode('utf-8') + 'x')
                other.__dict__[f.name] = nv
                ex['neq'] = bool(other != inst) and not bool(other == inst)
                break
    except Exception as e:     # noqa
        ex['eq'] = 'raised ' + _exc(e)
    try:
        off, tail = 3, 5
        buf = bytearray(b'\xaa' * (off + len(wire) + tail))
        ret = inst.encode(buf, off)
        ex['into_buffer'] = bool(bytes(buf[:off]) == b'\xaa' * off and bytes(buf[off:off + len(wire)]) == wire
                                 and bytes(buf[off + len(wire):]) == b'\xaa' * tail and ret is buf)
    except Exception as e:     # noqa
        ex['into_buffer'] = 'raised ' + _exc(e)
    return ex


def _second_uses(cls, fs, vals, inst, wire, names, ex):
    try:
        m = {}
        n = inst.encoded_length(m)
        w = inst.encode(markers=m)
        ex['two_pass'] = bool(n == len(wire) and bytes(w) == wire)
    except Exception as e:     # noqa
        ex['two_pass'] = 'raised ' + _exc(e)
    try:
        buf = bytearray(b'\xaa' * len(wire))
        mv = memoryview(buf)
        ret = inst.encode(mv)
        ex['into_view'] = bool(bytes(buf) == wire and ret is mv)
    except Exception as e:     # noqa
        ex['into_view'] = 'raised ' + _exc(e)
    # the same instance, one integer / byte-string field changed to a value of another size, encoded, changed back
    try:
        flds = cls._encoded_fields if names is None else [getattr(cls, n) for n in names]
        for i, (f, s, v) in enumerate(zip(flds, fs, vals)):
            if s[0] == 'U' and s[2] is None and v is not None:
                nv, npy = ('u', 0 if v[1] >= 256 else 2 ** 40), None
            elif s[0] == 'Y' and not s[2] and v is not None:
                nv, npy = ('y', bytes(v[1]) + b'x' * 300), None
            else:
                continue
            old = inst.__dict__[f.name]
            inst.__dict__[f.name] = nv[1]
            try:
                announced = inst.encoded_length()
                w2 = bytes(inst.encode())
            finally:
                inst.__dict__[f.name] = old
            want = b''.join(T.ref_encode(a, b) for a, b in zip(fs, list(vals[:i]) + [nv] + list(vals[i + 1:])))
            ex['modify'] = bool(w2 == want and announced == len(want)) and bool(bytes(inst.encode()) == wire)
            break
    except Exception as e:     # noqa
        ex['modify'] = 'raised ' + _exc(e)


def _plain(x):
    if isinstance(x, dict):
        return {(bytes(k) if isinstance(k, memoryview) else k): _plain(v) for k, v in x.items()}
    if isinstance(x, (list, tuple)):
        return [_plain(v) for v in x]
    if isinstance(x, (memoryview, bytearray)):
        return bytes(x)
    return x


def run_impl(case):
    if case['kind'] == 'dflt':
        return _run_default(case)
    if case['kind'] == 'cls':
        return _run_cls(case)
    if case['kind'] == 'shipcls':
        return _run_shipcls(case)
    if case.get('setup_error'):
        # the generator could not read the field table of a shipped model class: that class cannot encode anything
        return {'enc': ['err', 'setup of ' + case['cls'] + ': ' + case['setup_error']], 'setup_error': True}
    cls, fs, vals = _setup(case)
    out = {'schema_text': T.schemas_text(fs), 'values_text': T.values_text(vals)}
    names = None
    if case['kind'] == 'inh':
        names = [n for n, _ in _inherit_expected(case['base'], case['derived'], case.get('base2'))[0]]
        actual = [T.strip_classes(x) for x in T.class_schema(cls)]
        out['merged_as_documented'] = (actual == [T.strip_classes(x) for x in fs]
                                       and [f.name for f in cls._encoded_fields] == names)
        # the same class as a question to the model of the metaclass
        q, got = _live_question(cls)
        out['merge_q'], out['merge_live'] = [q], [got]
    try:
        if names is None and case.get('spell'):
            inst = _to_instance_sp(cls, fs, vals, case['spell'])
        elif names is None:
            inst = T.to_instance(cls, fs, vals)
        else:
            inst = cls()
            inst.__dict__.clear()
            for n, sch, v in zip(names, fs, vals):
                inst.__dict__[n] = T.to_py(sch, v)
        announced = inst.encoded_length()
        wire = bytes(inst.encode())
        out['enc'] = ['ok', wire.hex(), announced]
    except Exception as e:     # noqa
        out['enc'] = ['err', _exc(e)]
        return out
    try:
        out['ref'] = b''.join(T.ref_encode(s, v) for s, v in zip(fs, vals)).hex()
    except Exception as e:     # noqa
        out['ref'] = 'ref-failed:' + type(e).__name__
    want = None
    if case['kind'] == 'gen':
        try:
            want = _want_dict(cls, fs, _normalise(fs, vals))
        except Exception:     # noqa
            want = None
    sp = case.get('spell') or {}
    out['extras'] = _extras(cls, fs, vals, inst, wire, names, want,
                            skip_eq=bool(sp.get('name')) and 'N' in out['schema_text'])
    mw = _mutate(wire, case['mut'], fs)
    out['mwire'] = mw.hex()
    out['ic'] = 1 if sp.get('ic') else 0
    try:
        arg = PK.buf_in_form(mw, sp.get('wire'))
        back = cls.parse(arg, ignore_critical=True) if sp.get('ic') else cls.parse(arg)
        if names is None:
            out['parse'] = ['ok', T.values_text(T.from_instance(fs, back))]
        else:
            out['parse'] = ['ok', T.values_text([T.from_py(sch, back.__dict__.get(n)) for n, sch in zip(names, fs)])]
    except Exception as e:     # noqa
        out['parse'] = ['err', _exc(e)]
    # what the property statement predicts for this mutation (None = no prediction)
    els = _elements(wire)
    k = case['mut']['kind']
    norm = T.values_text(_normalise(fs, vals))
    exp = None
    nt = _nest_target(wire, case['mut'], fs) if k in ('ins_noncrit', 'ins_crit') else None
    if k in ('none', 'ins_noncrit'):
        exp = ['ok', norm]
    elif k == 'ins_crit' and nt is not None and case['kind'] != 'shipped' and nt[1][2]:
        exp = ['ok', norm]          # this generated sub-model was declared with ignore_critical=True
    elif k == 'ins_crit' and nt is None and sp.get('ic'):
        exp = ['ok', norm]          # the caller asked parse() to ignore unknown critical elements (of this model)
    elif sp.get('ic') and k in ('dup', 'swap'):
        exp = None                  # (with ignore_critical a repeated / out-of-order critical element is skipped too)
    elif k == 'ins_crit':
        # (no sub-model field of a shipped model class may ignore critical elements: taken from the formats, not
        # from the flag found in the source)
        exp = ['err', 'DecodeError']
    elif k == 'dup' and els:
        i = case['mut']['r'] % len(els)
        t = els[i][0]
        rep = any(s[0] in ('R', 'P') and s[1][1] == t for s in fs)
        if t % 2 == 1 and not rep:
            exp = ['err', 'DecodeError']
    elif k == 'swap' and len(els) >= 2:
        i = case['mut']['r'] % (len(els) - 1)
        a, b = els[i][0], els[i + 1][0]
        if a != b and a % 2 == 1 and not any(s[0] == 'P' for s in fs):
            exp = ['err', 'DecodeError']
    out['expected_parse'] = exp
    out['nested_ok'] = _well_nested(fs, mw)
    if exp is not None and exp[0] == 'ok' and out['parse'] == exp:
        # the decoded model is equal to the encoded one: encoding IT gives the same bytes again
        try:
            out['reencode'] = bool(bytes(back.encode()) == wire)
        except Exception as e:     # noqa
            out['reencode'] = 'raised ' + _exc(e)
    return out


def _normalise(fs, vals):
    """what decoding is expected to return for an encoded value: absent == None; empty list/map stay empty;
    None elements of repeated fields are not encoded; sub-models normalised recursively"""
    out = []
    for s, v in zip(fs, vals):
        out.append(_norm1(s, v))
    return out


def _norm1(s, v):
    k = s[0]
    if k == 'K':
        return None
    if k == 'R':
        return ('l', [_norm1(s[1], x) for x in (v[1] if v else []) if x is not None])
    if k == 'P':
        return ('p', [(_norm1(s[1], a), _norm1(s[2], b)) for a, b in (v[1] if v else [])])
    if v is None:
        return None
    if k == 'M':
        return ('m', _normalise(s[3], v[1]))
    return v


def _well_nested(fs, wire):
    """independent structural check: the wire is a sequence of complete elements, recursively inside every
    element whose type is a sub-model field of the schema (first match)"""
    off = 0
    n = len(wire)
    while off < n:
        def num(o):
            if o >= n:
                return None
            b = wire[o]
            if b <= 0xFC:
                return b, 1
            w = {0xFD: 2, 0xFE: 4, 0xFF: 8}[b]
            if o + 1 + w > n:
                return None
            return int.from_bytes(wire[o + 1:o + 1 + w], 'big'), 1 + w
        a = num(off)
        if a is None:
            return False
        b = num(off + a[1])
        if b is None:
            return False
        start = off + a[1] + b[1]
        if start + b[0] > n:
            return False
        off = start + b[0]
    return True


# ------------------------------------------------------------------------------------- model
def model_line(case, impl):
    # two questions in one line are not supported: ask for enc; the parse question is asked via a second case kind
    return None


def _lines(case, impl):
    ic = str(impl.get('ic', 0))
    l1 = f"C08 enc {impl['schema_text']} {impl['values_text']}"
    l2 = f"C08 parse {impl['schema_text']} {ic} {T.hx(bytes.fromhex(impl['mwire']))}" if 'mwire' in impl else None
    return l1, l2


def model_line(case, impl):       # noqa: F811  (enc question; parse question is appended with a separator)
    if case['kind'] == 'dflt' or impl.get('setup_error'):
        return None               # declared defaults are not part of the Lean model: oracle only
    if impl.get('cls'):
        return 'C08 ' + ' ;; '.join(impl['merge_q'])
    l1, l2 = _lines(case, impl)
    ln = l1 if l2 is None else l1 + ' ;; ' + l2.split(' ', 1)[1]
    if 'merge_q' in impl:
        # (only when both earlier questions are there, so that the answers keep their places)
        ln = ln + ' ;; ' + ' ;; '.join(impl['merge_q']) if l2 is not None else ln
    return ln


def model_obs(answer, case, impl):
    parts = answer.split(' ;; ')
    if impl.get('cls'):
        return {'merge': [_merge_answer(a) for a in parts]}
    a = parts[0].split()
    if a[0] == 'ok':
        enc = ['ok', '' if a[1] == '-' else a[1], int(a[2])]
    else:
        enc = ['err', a[1]]
    out = {'enc': enc}
    if len(parts) > 1:
        b = parts[1].split()
        out['parse'] = [b[0], b[1]]
    if len(parts) > 2:
        out['merge'] = [_merge_answer(a) for a in parts[2:]]
    return out


def impl_obs(impl):
    if impl.get('cls'):
        return {'merge': impl['merge_live']}
    out = {'enc': impl['enc']}
    if 'parse' in impl:
        out['parse'] = impl['parse']
        if 'merge_q' in impl:
            out['merge'] = impl['merge_live']
    return out


# ------------------------------------------------------------------------------------- oracle
def _oracle_default(case, impl):
    if impl['enc'][0] == 'err':
        return f"encoding a model with default values raised {impl['enc'][1]}"
    _, wire, announced = impl['enc']
    if announced * 2 != len(wire):
        return f'announced length {announced} != encoded size {len(wire) // 2}'
    if impl['ref'] != wire:
        return 'a field left unassigned is not encoded with its declared default (or an assigned one not with its value)'
    if impl.get('read_back') != impl['want_back']:
        return f"reading the fields of the decoded model: got {str(impl.get('read_back'))[:60]} expected {impl['want_back'][:60]}"
    if impl.get('read_empty') != impl['want_empty']:
        return 'a field absent from the wire does not read as its declared default'
    if impl.get('eq') is not True:
        return 'decoded model is not == the encoded one'
    return None


def oracle(case, impl):
    if case['kind'] == 'dflt':
        return _oracle_default(case, impl)
    if impl.get('cls'):
        for i, (got, doc) in enumerate(zip(impl['merge_live'], impl['doc'])):
            if doc is not None and got != doc:
                if doc == 'IncludeBaseError' or got == 'IncludeBaseError':
                    return 'IncludeBase of a class that is not a base TlvModel: IncludeBaseError expected exactly then'
                return 'a derived model class does not list its fields in the documented order (own fields, IncludeBase, overrides)'
        return None
    if impl.get('merged_as_documented') is False:
        return 'a derived model class does not list its fields in the documented order (own fields, IncludeBase, overrides)'
    if impl['enc'][0] == 'err':
        return f"encoding a legal value raised {impl['enc'][1]}"
    _, wire, announced = impl['enc']
    if announced * 2 != len(wire):
        return f'announced length {announced} != encoded size {len(wire) // 2}'
    if impl['ref'] != wire:
        return 'encoding is not the exact minimal TLV of the fields in declared order (differs from the reference encoder)'
    exp = impl.get('expected_parse')
    if exp is not None and impl['parse'] != exp:
        k = case['mut']['kind'] + ('-nested' if case['mut'].get('nest') else '')
        return f'decode after mutation {k}: expected {exp[0]} {exp[1][:60]} got {impl["parse"][0]} {impl["parse"][1][:60]}'
    ex = impl.get('extras') or {}
    if ex.get('eq', True) is not True:
        return f"the model decoded from the encoding does not compare equal (__eq__) to the encoded one: {ex['eq']}"
    if ex.get('asdict', True) is not True:
        return f"asdict() of the decoded model differs from asdict() of the encoded one: {ex['asdict']}"
    if ex.get('neq', True) is not True:
        return '__eq__ calls two models equal although a field differs'
    if ex.get('into_buffer', True) is not True:
        return f"encode(wire, offset) into a caller-supplied buffer: wrong bytes / wrote outside its range ({ex['into_buffer']})"
    if ex.get('into_view', True) is not True:
        return f"encode(wire) into a caller-supplied memoryview of exactly the announced size: wrong bytes ({ex['into_view']})"
    if ex.get('two_pass', True) is not True:
        return f"encoded_length(markers) followed by encode(markers=markers): size or bytes differ from a plain encode() ({ex['two_pass']})"
    if ex.get('modify', True) is not True:
        return ('the same model instance encoded again after one field was changed (and once more after it was changed back) '
                f"is not the exact encoding of its current values ({ex['modify']})")
    if impl.get('reencode', True) is not True:
        return f"encoding the decoded model does not give the bytes it was decoded from ({impl['reencode']})"
    return None


def nontrivial(case, impl):
    if case['kind'] == 'dflt':
        return impl['enc'][0] == 'ok' and len(case['fields']) >= 2
    if impl.get('cls'):
        return any(isinstance(g, list) and len(g) >= 2 for g in impl['merge_live'])
    return _present([T.unjval(v) for v in case['values']]) >= 2 and impl['enc'][0] == 'ok'


def tags(case, impl):
    if impl.get('cls'):
        t = ['kind:' + case['kind'], 'merge:' + ('IncludeBaseError' if 'IncludeBaseError' in impl['merge_live'] else 'ok'),
             'merge-doc:' + ('silent' if any(d is None for d in impl['doc']) else 'speaks')]
        if case['kind'] == 'cls':
            vis = [_visible_dict(c['body']) for c in case['classes']]
            t.append('classes:%d' % len(case['classes']))
            if any(len(c['bases']) > 1 for c in case['classes']):
                t.append('merge:multi-base')
            if any(len({e[0] for e in c['body']}) < len(c['body']) for c in case['classes']):
                t.append('merge:name-assigned-twice')
            if any(isinstance(b, int) and k not in {e[2] for e in v if e[1] == 'i'}
                   for c, v in zip(case['classes'], vis) for k, b in enumerate(c['bases'])):
                t.append('merge:base-not-included')
        return t
    t = ['kind:' + case['kind'] + ('-shape' if case.get('shape') else ''),
         'mut:' + case['mut']['kind'] + ('-nested' if case['mut'].get('nest') else ''), 'enc:' + impl['enc'][0]]
    for k, v in (impl.get('extras') or {}).items():
        t.append(f'{k}:{v}')
    for k, v in (case.get('spell') or {}).items():
        if k != 'seed':
            t.append(f'spell-{k}:{v}')
    if 'reencode' in impl:
        t.append(f"reencode:{impl['reencode']}")
    if 'parse' in impl:
        t.append('parse:' + (impl['parse'][0] if impl['parse'][0] == 'ok' else impl['parse'][1]))
    if impl['enc'][0] == 'ok':
        n = len(impl['enc'][1]) // 2
        t.append('size:' + ('0' if n == 0 else '<253' if n < 253 else '<65536' if n < 65536 else '>=65536'))
    return t


def finding_key(case, impl, why):
    import re
    w = re.sub(r'[0-9]+', 'N', why)
    w = re.sub(r'[^a-zA-Z]+', '-', w).strip('-').lower()
    return w[:70]


# ------------------------------------------------------------------ generated table (lean/NdnGen/C08.lean)
def _lean_schema(s):
    k = s[0]
    if k == 'U':
        return f"(.uint {s[1]} {'none' if s[2] is None else '(some %d)' % s[2]})"
    if k == 'B':
        return f'(.bool {s[1]})'
    if k == 'Y':
        return f"(.bytes {s[1]} {'true' if s[2] else 'false'})"
    if k == 'N':
        return f'(.name {s[1]})'
    if k == 'M':
        return f"(.model {s[1]} [{', '.join(_lean_schema(x) for x in s[3])}] {'true' if s[2] else 'false'})"
    if k == 'R':
        return f'(.repeated {_lean_schema(s[1])})'
    if k == 'P':
        return f'(.map {_lean_schema(s[1])} {_lean_schema(s[2])})'
    return '.marker'


def _lean_name(n):
    assert n.isascii() and n.isidentifier(), n
    return f'"{n}".toList'


def _extract_merge():
    """per shipped class with a base class / IncludeBase: its bases (with the field lists they collected) and its
    namespace as Lean data, and the obligation that the metaclass model maps them to the live `_encoded_fields`"""
    from ndn.encoding import tlv_model as tm
    out, obligations = [], []

    def flist(fields):
        return '[' + ', '.join(f'({_lean_name(f.name)}, {_lean_schema(T.field_schema(f))})' for f in fields) + ']'
    for path in _inheriting_shipped():
        cls = _cls(path)
        nm = 'merge_' + path.split(':')[0].split('.')[-1] + '_' + path.split(':')[1]
        bases = ['(some ' + flist(b._encoded_fields) + ')' if issubclass(b, tm.TlvModel) else 'none' for b in cls.__bases__]
        body = []
        for name, v in vars(cls).items():
            if isinstance(v, tm.Field):
                body.append(f'({_lean_name(name)}, .field {_lean_schema(T.field_schema(v))})')
            elif isinstance(v, tm.IncludeBase):
                k = [i for i, b in enumerate(cls.__bases__) if b is v.base]
                body.append(f'({_lean_name(name)}, .includeBase {k[0] if k else len(cls.__bases__) + 3})')
            else:
                body.append(f'({_lean_name(name)}, .other)')
        out.append(f'def {nm}_bases : List (BaseCls (List Char) Schema) := [' + ',\n    '.join(bases) + ']')
        out.append(f'def {nm}_body : List (List Char × Decl Schema) := [' + ',\n    '.join(body) + ']')
        out.append(f'def {nm}_fields : List (List Char × Schema) := ' + flist(cls._encoded_fields))
        out.append('')
        obligations.append(f'mergeFields {nm}_bases {nm}_body = .ok {nm}_fields')
    out.append('/-- for every shipped class with a base class or an IncludeBase attribute the model of the metaclass yields, from')
    out.append('    the class namespace and the field lists of its bases, the `_encoded_fields` (names, fields, order) the library has -/')
    if obligations:
        out.append('theorem shipped_merge_ok :\n    ' + ' ∧\n    '.join('(' + o + ')' for o in obligations) + ' :=\n  ⟨'
                   + ', '.join('by rfl' for _ in obligations) + '⟩' if len(obligations) > 1 else
                   'theorem shipped_merge_ok : ' + obligations[0] + ' := by rfl')
    else:
        out.append('theorem shipped_merge_ok : True := trivial')
    out.append('')
    return out


def _write_tlv_var(repo):
    """lean/NdnGen/TlvVar.lean (and Component.lean, for C09): the pure helpers of tlv_var.py translated from the source
    text of the tree under test (harness/py2lean.py); lean/NdnProofs/Props/TlvVarGen.lean proves them equal to the
    model functions"""
    import py2lean
    py2lean.write_generated(repo)


def extract(repo):
    lib = __import__('lib')
    lib.setup_repo_path()
    _write_tlv_var(repo)
    out = ['import NdnModel.CodecWF', 'import NdnModel.ClassMerge',
           '/- GENERATED on every run by harness/props/c08.py from the live `_encoded_fields` of the model classes',
           '   shipped with python-ndn, and (merge_*) from the class namespaces and base classes of the shipped classes that',
           '   use inheritance / IncludeBase.  Do not edit. -/',
           'namespace Ndn.Gen.C08', 'open Ndn.Codec', '']
    names = []
    for path in SHIPPED:
        cls = _cls(path)
        fs = T.class_schema(cls)
        nm = path.split(':')[0].split('.')[-1] + '_' + path.split(':')[1]
        names.append(nm)
        out.append(f"def {nm} : List Schema := [{', '.join(_lean_schema(s) for s in fs)}]")
    out.append('')
    out.append('def shipped : List (List Schema) := [' + ', '.join(names) + ']')
    out.append('')
    out.append('/-- every shipped model class satisfies the hypothesis of the C08 theorems -/')
    out.append('theorem shipped_wf : shipped.all wfTop = true := by decide')
    out.append('')
    out += _extract_merge()
    out.append('end Ndn.Gen.C08')
    return '\n'.join(out) + '\n'
