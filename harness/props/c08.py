"""C08 — TLV models encode to exact, minimal TLV and decode back to equal values."""
import importlib
import struct
import tlvschema as T

PROP = 'C08'
TITLE = 'TLV models encode to exact, minimal TLV and decode back to equal values'
LEAN_TARGETS = ['NdnProofs.Props.C08', 'NdnGen.C08']
THEOREMS = [
    'Ndn.C08.announced_length_exact', 'Ndn.C08.enc_wellformed', 'Ndn.C08.writeTlNum_shortest',
    'Ndn.C08.uint_smallest_width', 'Ndn.C08.parse_enc_roundtrip',
    'Ndn.C08.unknown_noncritical_skipped', 'Ndn.C08.unknown_critical_rejected', 'Ndn.Gen.C08.shipped_wf',
]
PARTIAL = {}
TRUSTED = [
    'C08: the metaclass merge (inheritance / IncludeBase) is resolved by the library before extraction: the model starts from _encoded_fields; random classes with inheritance are exercised by the correspondence only',
    'C08: text fields are UTF-8 bytes in the model; str<->UTF-8 is CPython',
]
RULE = ('(a) randomly generated TlvModel classes (random field kinds incl. nested models, repeated, map, markers; type '
        'numbers 1..2^32-1) with random values at width/length boundaries and non-ASCII text; (b) every plain model class '
        'shipped with the library (NFD management, NDNLPv2, LVS binary, SVS, security_v2, MetaInfo/SignatureInfo/...), schema '
        'extracted live from _encoded_fields; each case is encoded by the real code and by the model, decoded back, and decoded '
        'again after one structural mutation (unknown critical / non-critical element inserted at a gap, duplicated or swapped '
        'elements, truncation, length edit). non-trivial = the value has at least two present fields; distinct = distinct '
        '(schema, value, mutation)')
LEVEL_TEXT = ('Lean 4 theorems about a generic interpreter of TLV model schemas (every nesting of integer, boolean, bytes/text, '
              'name, sub-model, repeated and map fields): announced length = encoded size, output is a well-formed TLV sequence '
              'in field order with shortest T/L and smallest integer width, decode(encode v) = v (MapField included: key '
              'UintField/BytesField, value an element field of another Type, dict keys pairwise different), unknown non-critical '
              'elements skipped and unknown critical ones rejected at every element boundary, also between a map key and its '
              'value - for ALL schemas and values by structural induction. The interpreter '
              'is tied to tlv_model.py on every run by differential execution on generated and shipped model classes.')
LEVEL_NOTE = ('Theorems are about the Lean interpreter; interpreter = tlv_model.py is sampled. Marker pseudo-fields (no value) '
              'are outside wfTop; their offsets are covered by C01/C02. struct/memoryview semantics are CPython.')
TECHNIQUE = 'Lean 4 proof (structural induction over schema trees and field lists) + model/implementation correspondence check'
DESIGN_REF = 'DESIGN.md section 5.3 and section 7, C08'

SHIPPED = [
    'ndn.encoding.ndn_format_0_3:KeyLocator', 'ndn.encoding.ndn_format_0_3:SignatureInfo',
    'ndn.encoding.ndn_format_0_3:Links', 'ndn.encoding.ndn_format_0_3:MetaInfo',
    'ndn.encoding.ndnlp_v2:NetworkNack', 'ndn.encoding.ndnlp_v2:CachePolicy', 'ndn.encoding.ndnlp_v2:LpPacketValue',
    'ndn.encoding.ndnlp_v2:LpPacket',
    'ndn.app_support.nfd_mgmt:Strategy', 'ndn.app_support.nfd_mgmt:ControlParametersValue',
    'ndn.app_support.nfd_mgmt:ControlParameters', 'ndn.app_support.nfd_mgmt:ControlResponse',
    'ndn.app_support.nfd_mgmt:FaceEventNotificationValue', 'ndn.app_support.nfd_mgmt:FaceEventNotification',
    'ndn.app_support.nfd_mgmt:GeneralStatus', 'ndn.app_support.nfd_mgmt:FaceStatus',
    'ndn.app_support.nfd_mgmt:FaceStatusMsg', 'ndn.app_support.nfd_mgmt:FaceQueryFilterValue',
    'ndn.app_support.nfd_mgmt:FaceQueryFilter', 'ndn.app_support.nfd_mgmt:Route', 'ndn.app_support.nfd_mgmt:RibEntry',
    'ndn.app_support.nfd_mgmt:RibStatus', 'ndn.app_support.nfd_mgmt:NextHopRecord', 'ndn.app_support.nfd_mgmt:FibEntry',
    'ndn.app_support.nfd_mgmt:FibStatus', 'ndn.app_support.nfd_mgmt:StrategyChoice',
    'ndn.app_support.nfd_mgmt:StrategyChoiceMsg', 'ndn.app_support.nfd_mgmt:CsInfo',
    'ndn.app_support.light_versec.binary:UserFnArg', 'ndn.app_support.light_versec.binary:UserFnCall',
    'ndn.app_support.light_versec.binary:ConstraintOption', 'ndn.app_support.light_versec.binary:PatternConstraint',
    'ndn.app_support.light_versec.binary:PatternEdge', 'ndn.app_support.light_versec.binary:ValueEdge',
    'ndn.app_support.light_versec.binary:Node', 'ndn.app_support.light_versec.binary:TagSymbol',
    'ndn.app_support.light_versec.binary:LvsModel',
    'ndn.app_support.svs.tlv:StateVecEntry', 'ndn.app_support.svs.tlv:StateVec', 'ndn.app_support.svs.tlv:StateVecWrapper',
    'ndn.app_support.svs.tlv:MappingEntry', 'ndn.app_support.svs.tlv:MappingData',
    'ndn.app_support.security_v2:ValidityPeriod', 'ndn.app_support.security_v2:DescriptionEntry',
    'ndn.app_support.security_v2:AdditionalDescription', 'ndn.app_support.security_v2:CertificateV2Extension',
    'ndn.app_support.security_v2:CertificateV2SignatureInfo',
]


def _cls(path):
    m, c = path.split(':')
    return getattr(importlib.import_module(m), c)


def _exc(e):
    from ndn.encoding import DecodeError
    if isinstance(e, DecodeError):
        return 'DecodeError'
    if isinstance(e, struct.error):
        return 'struct.error'
    for c in (IndexError, KeyError, ValueError, TypeError, AttributeError, OverflowError):
        if isinstance(e, c):
            return c.__name__
    return type(e).__name__


# ------------------------------------------------------------------------------------- cases
def _present(v):
    return sum(1 for x in (v or []) if x is not None and x != ('l', []) and x != ('p', []))


def _top_types(fs):
    out = set()
    for s in fs:
        if s[0] == 'R':
            out.add(s[1][1])
        elif s[0] == 'P':
            out.add(s[1][1])
            out.add(s[2][1])       # the value Type is recognised too (right after a key)
        elif s[0] != 'K':
            out.add(s[1])
    return out


def _mutation(rng, fs, vals):
    kind = rng.choice(['none', 'none', 'ins_noncrit', 'ins_noncrit', 'ins_crit', 'dup', 'swap', 'trunc', 'lenedit'])
    m = {'kind': kind, 'gap': rng.randint(0, 8), 'r': rng.randint(0, 10 ** 6)}
    used = _top_types(fs)
    t = rng.choice([2, 100, 254, 1000, 65536])
    while t in used:
        t += 2
    m['even'] = t
    t = rng.choice([3, 101, 253, 1001, 65537])
    while t in used:
        t += 2
    m['odd'] = t
    m['payload'] = bytes(rng.getrandbits(8) for _ in range(rng.choice([0, 1, 5]))).hex()
    return m


def cases(rng, tier):
    n_gen = 350 if tier == 'quick' else 12000
    n_ship = 250 if tier == 'quick' else 8000
    for _ in range(n_gen):
        fs = T.random_schema(rng)
        vals = [T.random_value(rng, s, big=(tier == 'thorough' and rng.random() < 0.02)) for s in fs]
        yield {'kind': 'gen', 'schema': [T.strip_classes(s) for s in fs], 'values': [T.jval(v) for v in vals],
               'mut': _mutation(rng, fs, vals)}
    for _ in range(60 if tier == 'quick' else 3000):
        yield _inherit_case(rng)
    for _ in range(n_ship):
        path = rng.choice(SHIPPED)
        fs = T.class_schema(_cls(path))
        vals = [T.random_value(rng, s) for s in fs]
        yield {'kind': 'shipped', 'cls': path, 'values': [T.jval(v) for v in vals], 'mut': _mutation(rng, fs, vals)}


def _leaf(rng, used):
    while True:
        t = rng.choice([rng.randint(1, 252), rng.randint(1, 252), 253, 256, 65536 + rng.randint(0, 9)])
        if t not in used and t != 7:
            used.add(t)
            break
    k = rng.choice(['U', 'Y', 'B'])
    return ['U', t, rng.choice([None, None, 2])] if k == 'U' else ['Y', t, rng.random() < 0.3] if k == 'Y' else ['B', t]


def _inherit_case(rng):
    """a derived TlvModel class: own fields, IncludeBase(Base) at a random position, overrides of base fields (before or
    after the IncludeBase); values are assigned by field name"""
    used = set()
    base = [_leaf(rng, used) for _ in range(rng.randint(1, 4))]
    derived = [['own', _leaf(rng, used)] for _ in range(rng.randint(0, 3))]
    derived.insert(rng.randint(0, len(derived)), ['inc'])
    for i in rng.sample(range(len(base)), rng.randint(0, min(2, len(base)))):
        derived.insert(rng.randint(0, len(derived)), ['ovr', i, _leaf(rng, used)])
    names, vals = _inherit_expected(base, derived)
    values = {n: T.jval(T.random_value(rng, T.unstrip(s), present=0.85)) for n, s in names}
    return {'kind': 'inh', 'base': base, 'derived': derived, 'values': values,
            'mut': {'kind': 'none', 'gap': 0, 'r': 0, 'even': 2, 'odd': 3, 'payload': ''}}


def _inherit_expected(base, derived):
    """the field order the documentation of TlvModel / IncludeBase promises: attributes in definition order; a
    name seen before (own, or brought in by IncludeBase) is replaced where it stands, a new name is appended"""
    order, pos = [], {}

    def put(name, schema):
        if name in pos:
            order[pos[name]] = (name, schema)
        else:
            pos[name] = len(order)
            order.append((name, schema))
    k = 0
    for d in derived:
        if d[0] == 'own':
            put(f'o{k}', d[1])
            k += 1
        elif d[0] == 'inc':
            for i, s in enumerate(base):
                put(f'b{i}', s)
        else:
            put(f'b{d[1]}', d[2])
    return order, None


def _inherit_classes(case):
    from ndn.encoding import tlv_model as tm
    battrs = {}
    for i, s in enumerate(case['base']):
        battrs[f'b{i}'] = T._build_field(T.unstrip(s))[0]
    Base = type('InhBase', (tm.TlvModel,), battrs)
    dattrs, k = {}, 0
    for d in case['derived']:
        if d[0] == 'own':
            dattrs[f'o{k}'] = T._build_field(T.unstrip(d[1]))[0]
            k += 1
        elif d[0] == 'inc':
            dattrs['_inc'] = tm.IncludeBase(Base)
        else:
            dattrs[f'b{d[1]}'] = T._build_field(T.unstrip(d[2]))[0]
    return type('InhDerived', (Base,), dattrs)


def shrink(case):
    if case['kind'] == 'inh':
        d = case['derived']
        for i in range(len(d)):
            if d[i][0] != 'inc':
                d2 = d[:i] + d[i + 1:]
                names, _ = _inherit_expected(case['base'], d2)
                yield dict(case, derived=d2, values={n: case['values'].get(n) for n, _ in names})
        return
    vals = case['values']
    for i, v in enumerate(vals):
        if v is not None:
            yield dict(case, values=vals[:i] + [None] + vals[i + 1:])
    if case['mut']['kind'] != 'none':
        yield dict(case, mut=dict(case['mut'], kind='none'))
    for i, v in enumerate(vals):
        if v is not None and v[0] == 'y' and len(v[1]) > 2:
            yield dict(case, values=vals[:i] + [['y', v[1][:2]]] + vals[i + 1:])
        if v is not None and v[0] in ('l', 'm', 'p') and len(v[1]) > 0:
            for j in range(len(v[1])):
                if v[0] == 'm':
                    if v[1][j] is not None:
                        yield dict(case, values=vals[:i] + [[v[0], v[1][:j] + [None] + v[1][j + 1:]]] + vals[i + 1:])
                else:
                    yield dict(case, values=vals[:i] + [[v[0], v[1][:j] + v[1][j + 1:]]] + vals[i + 1:])


# -------------------------------------------------------------------------- implementation
def _setup(case):
    if case['kind'] == 'inh':
        cls = _inherit_classes(case)
        names, _ = _inherit_expected(case['base'], case['derived'])
        fs = [T.unstrip(sch) for _, sch in names]          # the EXPECTED field list (documented merge rule)
        vals = [T.unjval(case['values'].get(n)) for n, _ in names]
        return cls, fs, vals
    if case['kind'] == 'gen':
        fs0 = [T.unstrip(s) for s in case['schema']]
        cls, fs = T.build_class(fs0)
    else:
        cls = _cls(case['cls'])
        fs = T.class_schema(cls)
    vals = [T.unjval(v) for v in case['values']]
    return cls, fs, vals


def _elements(wire):
    """split a TLV sequence into (type, whole-element bytes); stops at the first element it cannot read"""
    out, off = [], 0
    try:
        while off < len(wire):
            def num(o):
                b = wire[o]
                if b <= 0xFC:
                    return b, 1
                w = {0xFD: 2, 0xFE: 4, 0xFF: 8}[b]
                if o + 1 + w > len(wire):
                    raise IndexError
                return int.from_bytes(wire[o + 1:o + 1 + w], 'big'), 1 + w
            t, st = num(off)
            l, sl = num(off + st)
            if off + st + sl + l > len(wire):
                raise IndexError
            out.append((t, wire[off:off + st + sl + l]))
            off += st + sl + l
    except IndexError:
        if off < len(wire):
            out.append((-1, wire[off:]))
    return out


def _mutate(wire, m):
    k = m['kind']
    if k == 'none':
        return wire
    els = _elements(wire)
    g = m['gap'] % (len(els) + 1)
    pre = b''.join(e for _, e in els[:g])
    post = b''.join(e for _, e in els[g:])
    pl = bytes.fromhex(m['payload'])
    if k == 'ins_noncrit':
        return pre + T.tl(m['even']) + T.tl(len(pl)) + pl + post
    if k == 'ins_crit':
        return pre + T.tl(m['odd']) + T.tl(len(pl)) + pl + post
    if k == 'dup':
        if not els:
            return wire
        i = m['r'] % len(els)
        return b''.join(e for _, e in els[:i + 1]) + els[i][1] + b''.join(e for _, e in els[i + 1:])
    if k == 'swap':
        if len(els) < 2:
            return wire
        i = m['r'] % (len(els) - 1)
        els2 = els[:i] + [els[i + 1], els[i]] + els[i + 2:]
        return b''.join(e for _, e in els2)
    if k == 'trunc':
        return wire[:m['r'] % (len(wire) + 1)]
    if k == 'lenedit':
        if not wire:
            return wire
        i = m['r'] % len(wire)
        return wire[:i] + bytes([(wire[i] + 1 + m['gap']) % 256]) + wire[i + 1:]
    return wire


def run_impl(case):
    cls, fs, vals = _setup(case)
    out = {'schema_text': T.schemas_text(fs), 'values_text': T.values_text(vals)}
    names = None
    if case['kind'] == 'inh':
        names = [n for n, _ in _inherit_expected(case['base'], case['derived'])[0]]
        actual = [T.strip_classes(x) for x in T.class_schema(cls)]
        out['merged_as_documented'] = (actual == [T.strip_classes(x) for x in fs]
                                       and [f.name for f in cls._encoded_fields] == names)
    try:
        if names is None:
            inst = T.to_instance(cls, fs, vals)
        else:
            inst = cls()
            inst.__dict__.clear()
            for n, sch, v in zip(names, fs, vals):
                inst.__dict__[n] = T.to_py(sch, v)
        announced = inst.encoded_length()
        wire = bytes(inst.encode())
        out['enc'] = ['ok', wire.hex(), announced]
    except Exception as e:     # noqa
        out['enc'] = ['err', _exc(e)]
        return out
    try:
        out['ref'] = b''.join(T.ref_encode(s, v) for s, v in zip(fs, vals)).hex()
    except Exception as e:     # noqa
        out['ref'] = 'ref-failed:' + type(e).__name__
    mw = _mutate(wire, case['mut'])
    out['mwire'] = mw.hex()
    try:
        back = cls.parse(mw)
        if names is None:
            out['parse'] = ['ok', T.values_text(T.from_instance(fs, back))]
        else:
            out['parse'] = ['ok', T.values_text([T.from_py(sch, back.__dict__.get(n)) for n, sch in zip(names, fs)])]
    except Exception as e:     # noqa
        out['parse'] = ['err', _exc(e)]
    # what the property statement predicts for this mutation (None = no prediction)
    els = _elements(wire)
    k = case['mut']['kind']
    norm = T.values_text(_normalise(fs, vals))
    exp = None
    if k in ('none', 'ins_noncrit'):
        exp = ['ok', norm]
    elif k == 'ins_crit':
        exp = ['err', 'DecodeError']
    elif k == 'dup' and els:
        i = case['mut']['r'] % len(els)
        t = els[i][0]
        rep = any(s[0] in ('R', 'P') and s[1][1] == t for s in fs)
        if t % 2 == 1 and not rep:
            exp = ['err', 'DecodeError']
    elif k == 'swap' and len(els) >= 2:
        i = case['mut']['r'] % (len(els) - 1)
        a, b = els[i][0], els[i + 1][0]
        if a != b and a % 2 == 1 and not any(s[0] == 'P' for s in fs):
            exp = ['err', 'DecodeError']
    out['expected_parse'] = exp
    out['nested_ok'] = _well_nested(fs, mw)
    return out


def _normalise(fs, vals):
    """what decoding is expected to return for an encoded value: absent == None; empty list/map stay empty;
    None elements of repeated fields are not encoded; sub-models normalised recursively"""
    out = []
    for s, v in zip(fs, vals):
        out.append(_norm1(s, v))
    return out


def _norm1(s, v):
    k = s[0]
    if k == 'K':
        return None
    if k == 'R':
        return ('l', [_norm1(s[1], x) for x in (v[1] if v else []) if x is not None])
    if k == 'P':
        return ('p', [(_norm1(s[1], a), _norm1(s[2], b)) for a, b in (v[1] if v else [])])
    if v is None:
        return None
    if k == 'M':
        return ('m', _normalise(s[3], v[1]))
    return v


def _well_nested(fs, wire):
    """independent structural check: the wire is a sequence of complete elements, recursively inside every
    element whose type is a sub-model field of the schema (first match)"""
    off = 0
    n = len(wire)
    while off < n:
        def num(o):
            if o >= n:
                return None
            b = wire[o]
            if b <= 0xFC:
                return b, 1
            w = {0xFD: 2, 0xFE: 4, 0xFF: 8}[b]
            if o + 1 + w > n:
                return None
            return int.from_bytes(wire[o + 1:o + 1 + w], 'big'), 1 + w
        a = num(off)
        if a is None:
            return False
        b = num(off + a[1])
        if b is None:
            return False
        start = off + a[1] + b[1]
        if start + b[0] > n:
            return False
        off = start + b[0]
    return True


# ------------------------------------------------------------------------------------- model
def model_line(case, impl):
    # two questions in one line are not supported: ask for enc; the parse question is asked via a second case kind
    return None


def _lines(case, impl):
    ic = '0'
    l1 = f"C08 enc {impl['schema_text']} {impl['values_text']}"
    l2 = f"C08 parse {impl['schema_text']} {ic} {T.hx(bytes.fromhex(impl['mwire']))}" if 'mwire' in impl else None
    return l1, l2


def model_line(case, impl):       # noqa: F811  (enc question; parse question is appended with a separator)
    l1, l2 = _lines(case, impl)
    return l1 if l2 is None else l1 + ' ;; ' + l2.split(' ', 1)[1]


def model_obs(answer, case, impl):
    parts = answer.split(' ;; ')
    a = parts[0].split()
    if a[0] == 'ok':
        enc = ['ok', '' if a[1] == '-' else a[1], int(a[2])]
    else:
        enc = ['err', a[1]]
    out = {'enc': enc}
    if len(parts) > 1:
        b = parts[1].split()
        out['parse'] = [b[0], b[1]]
    return out


def impl_obs(impl):
    out = {'enc': impl['enc']}
    if 'parse' in impl:
        out['parse'] = impl['parse']
    return out


# ------------------------------------------------------------------------------------- oracle
def oracle(case, impl):
    if impl.get('merged_as_documented') is False:
        return 'a derived model class does not list its fields in the documented order (own fields, IncludeBase, overrides)'
    if impl['enc'][0] == 'err':
        return f"encoding a legal value raised {impl['enc'][1]}"
    _, wire, announced = impl['enc']
    if announced * 2 != len(wire):
        return f'announced length {announced} != encoded size {len(wire) // 2}'
    if impl['ref'] != wire:
        return 'encoding is not the exact minimal TLV of the fields in declared order (differs from the reference encoder)'
    exp = impl.get('expected_parse')
    if exp is not None and impl['parse'] != exp:
        k = case['mut']['kind']
        return f'decode after mutation {k}: expected {exp[0]} {exp[1][:60]} got {impl["parse"][0]} {impl["parse"][1][:60]}'
    return None


def nontrivial(case, impl):
    return _present([T.unjval(v) for v in case['values']]) >= 2 and impl['enc'][0] == 'ok'


def tags(case, impl):
    t = ['kind:' + case['kind'], 'mut:' + case['mut']['kind'], 'enc:' + impl['enc'][0]]
    if 'parse' in impl:
        t.append('parse:' + (impl['parse'][0] if impl['parse'][0] == 'ok' else impl['parse'][1]))
    if impl['enc'][0] == 'ok':
        n = len(impl['enc'][1]) // 2
        t.append('size:' + ('0' if n == 0 else '<253' if n < 253 else '<65536' if n < 65536 else '>=65536'))
    return t


def finding_key(case, impl, why):
    import re
    w = re.sub(r'[0-9]+', 'N', why)
    w = re.sub(r'[^a-zA-Z]+', '-', w).strip('-').lower()
    return w[:70]


# ------------------------------------------------------------------ generated table (lean/NdnGen/C08.lean)
def _lean_schema(s):
    k = s[0]
    if k == 'U':
        return f"(.uint {s[1]} {'none' if s[2] is None else '(some %d)' % s[2]})"
    if k == 'B':
        return f'(.bool {s[1]})'
    if k == 'Y':
        return f"(.bytes {s[1]} {'true' if s[2] else 'false'})"
    if k == 'N':
        return f'(.name {s[1]})'
    if k == 'M':
        return f"(.model {s[1]} [{', '.join(_lean_schema(x) for x in s[3])}] {'true' if s[2] else 'false'})"
    if k == 'R':
        return f'(.repeated {_lean_schema(s[1])})'
    if k == 'P':
        return f'(.map {_lean_schema(s[1])} {_lean_schema(s[2])})'
    return '.marker'


def extract(repo):
    lib = __import__('lib')
    lib.setup_repo_path()
    out = ['import NdnModel.CodecWF',
           '/- GENERATED on every run by harness/props/c08.py from the live `_encoded_fields` of the model classes',
           '   shipped with python-ndn.  Do not edit. -/',
           'namespace Ndn.Gen.C08', 'open Ndn.Codec', '']
    names = []
    for path in SHIPPED:
        cls = _cls(path)
        fs = T.class_schema(cls)
        nm = path.split(':')[0].split('.')[-1] + '_' + path.split(':')[1]
        names.append(nm)
        out.append(f"def {nm} : List Schema := [{', '.join(_lean_schema(s) for s in fs)}]")
    out.append('')
    out.append('def shipped : List (List Schema) := [' + ', '.join(names) + ']')
    out.append('')
    out.append('/-- every shipped model class satisfies the hypothesis of the C08 theorems -/')
    out.append('theorem shipped_wf : shipped.all wfTop = true := by decide')
    out.append('')
    out.append('end Ndn.Gen.C08')
    return '\n'.join(out) + '\n'
