"""C04 — incoming Interests reach exactly the handler of their longest attached prefix
(src/ndn/appv2.py, src/ndn/app.py, src/ndn/name_tree.py, src/ndn/app_support/dispatcher.py)."""
import re
import apphelp

PROP = 'C04'
TITLE = 'Incoming Interests reach exactly the handler of their longest registered prefix'
LEAN_TARGETS = ['NdnProofs.Props.C04']
THEOREMS = [
    'Ndn.C04.longest_attached_unique', 'Ndn.C04.table_refines', 'Ndn.C04.dispatch_longest', 'Ndn.C04.dispatch_none', 'Ndn.C04.dispatch_never_blank',
    'Ndn.C04.dispatch_exactly_one', 'Ndn.C04.attach_dup_refused', 'Ndn.C04.attach_free_accepted',
    'Ndn.C04.detach_receives_nothing', 'Ndn.C04.detach_frame', 'Ndn.C04.detach_falls_back',
    'Ndn.C04.detach_absent_keyerror', 'Ndn.C04.reply_truthful', 'Ndn.C04.reply_payload',
    'Ndn.C04.reply_deadline_is_lifetime', 'Ndn.C04.key_repr_irrelevant',
]
PARTIAL = {}
TRUSTED = [
    'C04: pygtrie.Trie is trusted - modelled as an association list Name -> node with map semantics for '
    'setdefault/__delitem__ and longest_prefix = the longest key that is a prefix and has a value',
    'C04: that the three accepted representations of a name (URI string, component list, encoded name) normalise to the '
    'same component list is property C09 (Name.normalize); here it is exercised by the harness only (every attach/detach '
    'uses a randomly chosen representation incl. bytearray/memoryview components) and the Lean theorem '
    'key_repr_irrelevant covers only NameTrie._path_from_key (buffer class of the components)',
    'C04: Interests are unsigned and carry no ApplicationParameters (validator path = C05); the clock is the integer '
    'millisecond reading of utils.timestamp() on the virtual-time loop; asyncio task scheduling of submit_interest is '
    'exercised by the correspondence only',
    'C04: reply at exactly the deadline instant counts as "lifetime not elapsed" (inclusive bound, as the code documents '
    'with `now > deadline`)',
]
RULE = ('histories of 2..14 attach/detach operations over the 31 names of a depth-4 tree with labels {a, ab} (so /a/b-like '
        'component-boundary confusions would show), each name given in one of 10 representations (URI string, list of str, '
        'bytes, bytearray, read-only / writable memoryview, mixed, encoded name as bytes/bytearray/memoryview; mutable '
        'buffers are scribbled over after the call); duplicate attaches, detaches of absent names and attaches of a None '
        'handler included; then every name of the tree plus unattached siblings (label b) is delivered as an Interest built '
        'with make_interest (explicit or absent lifetime, optionally inside an LpPacket with a PIT token); in half of the '
        'cases one attached prefix is then detached and the sweep repeated. v2: the reply closure is called at lifetime-1, '
        'lifetime, lifetime+1 ms (subsets, also far before/after, also with the face down). Front-ends v2, legacy v1, '
        'Dispatcher. non-trivial = at least one Interest chose between two or more attached prefixes of its name; '
        'distinct = distinct cases')

LABELS = ['a', 'ab']
SIB = 'b'
DEPTH = 4
REPRS = ['uri', 'strlist', 'byteslist', 'balist', 'mvlist', 'rwmvlist', 'mixed', 'wire', 'wire-ba', 'wire-mv']


# ------------------------------------------------------------------------------------- names
def comp_hex(label):
    b = label.encode()
    return '08%02x' % len(b) + b.hex()


def path_hex(path):
    return [comp_hex(x) for x in path]


def tlv(t, v):
    assert t < 253 and len(v) < 253
    return bytes([t, len(v)]) + v


def represent(path, how):
    """the caller-side object for a name; returns (object, list of mutable buffers to scribble over)"""
    comps = [bytes.fromhex(h) for h in path_hex(path)]
    wire = tlv(7, b''.join(comps))
    if how == 'uri':
        return '/' + '/'.join(path), []
    if how == 'strlist':
        return list(path), []
    if how == 'byteslist':
        return comps, []
    if how == 'balist':
        bas = [bytearray(c) for c in comps]
        return bas, bas
    if how == 'mvlist':
        return [memoryview(c) for c in comps], []
    if how == 'rwmvlist':
        bas = [bytearray(c) for c in comps]
        return [memoryview(b) for b in bas], bas
    if how == 'mixed':
        return [(p if i % 2 == 0 else c) for i, (p, c) in enumerate(zip(path, comps))], []
    if how == 'wire':
        return wire, []
    if how == 'wire-ba':
        ba = bytearray(wire)
        return ba, [ba]
    if how == 'wire-mv':
        return memoryview(wire), []
    raise ValueError(how)


def all_tree():
    out = [[]]
    level = [[]]
    for _ in range(DEPTH):
        level = [p + [l] for p in level for l in LABELS]
        out += level
    return out


# ------------------------------------------------------------------------------------- cases
def _replies(rng, lifetime):
    L = 4000 if lifetime is None else lifetime
    r = rng.random()
    if r < 0.35:
        offs = [L - 1, L, L + 1]
    elif r < 0.5:
        offs = [rng.choice([L - 1, L, L + 1])]
    elif r < 0.6:
        offs = sorted(rng.sample([0, L // 2, L - 1, L, L + 1, L + 1000], 2))
    elif r < 0.7:
        offs = [rng.choice([0, L + 5000])]
    else:
        offs = []
    offs = [o for o in offs if o >= 0]
    return [[o, ('06%02x' % (2 + k)) + '0700' + '%02x' % rng.randrange(256) * k] for k, o in enumerate(offs)]


def _interest(rng, fe, path):
    lifetime = rng.choice([None, 1, 2, 10, 100, 100, 4000, 60000])
    tok = None
    if fe == 'v2' and rng.random() < 0.3:
        tok = bytes(rng.randrange(256) for _ in range(rng.choice([1, 4, 8]))).hex()
    down = fe != 'disp' and rng.random() < 0.04
    reps = _replies(rng, lifetime) if fe != 'disp' else []
    if fe == 'v1':
        reps = reps[:1]
    return ['i', path, rng.choice([0, 1, 7, 250]), lifetime, tok, down, reps]


def _sweep(rng, fe, tree, frac=1.0):
    names = [p for p in tree if rng.random() < frac]
    sib = []
    for _ in range(8):
        p = list(rng.choice(tree))
        k = rng.random()
        if k < 0.4 and p:
            p[rng.randrange(len(p))] = SIB            # a sibling label somewhere
        elif k < 0.7:
            p = p + [SIB]                             # below a tree name
        else:
            p = p + [rng.choice(LABELS), SIB][:max(0, 6 - len(p))]
        sib.append(p)
    names = names + sib
    rng.shuffle(names)
    return [_interest(rng, fe, p) for p in names]


def cases(rng, tier):
    n = 400 if tier == 'quick' else 8000
    tree = all_tree()
    for ci in range(n):
        fe = rng.choice(['v2', 'v2', 'v2', 'v1', 'disp'])
        evs = []
        att = {}
        hid = 0
        # bias towards nested chains: pick a spine and attach mostly on/near it
        spine = rng.choice([p for p in tree if len(p) == DEPTH])
        for _ in range(rng.randint(3, 14)):
            r = rng.random()
            if r < 0.6:
                p = spine[:rng.randint(0, DEPTH)]
            else:
                p = rng.choice(tree)
            key = '/'.join(p)
            r = rng.random()
            how = rng.choice(REPRS)
            if r < 0.62:
                hid += 1
                h = hid if rng.random() > 0.03 else None
                evs.append(['a', p, h, how])
                if key not in att and h is not None:
                    att[key] = hid
            elif r < 0.72 and att:
                k2 = rng.choice(sorted(att))
                hid += 1
                evs.append(['a', k2.split('/') if k2 else [], hid, how])   # duplicate attach
            elif r < 0.92 and att:
                k2 = rng.choice(sorted(att))
                evs.append(['d', k2.split('/') if k2 else [], how])
                del att[k2]
            else:
                evs.append(['d', p, how])
                att.pop(key, None)
        full = tier == 'thorough' or ci % 3 == 0
        evs += _sweep(rng, fe, tree, 1.0 if full else 0.4)
        if att and rng.random() < 0.5:
            k2 = rng.choice(sorted(att))
            evs.append(['d', k2.split('/') if k2 else [], rng.choice(REPRS)])
            evs += _sweep(rng, fe, tree, 1.0 if full else 0.4)
        yield {'fe': fe, 'events': evs}


def shrink(case):
    evs = case['events']
    fe = case['fe']
    ints = [i for i, e in enumerate(evs) if e[0] == 'i']
    ops = [i for i, e in enumerate(evs) if e[0] != 'i']
    if len(ints) > 1:
        for i in ints:                                   # keep a single Interest
            yield {'fe': fe, 'events': [e for j, e in enumerate(evs) if e[0] != 'i' or j == i]}
    if len(evs) > 3:
        h = len(evs) // 2
        yield {'fe': fe, 'events': evs[h:]}
        yield {'fe': fe, 'events': evs[:h]}
    for i in reversed(range(len(evs))):
        yield {'fe': fe, 'events': evs[:i] + evs[i + 1:]}
    for i, e in enumerate(evs):
        if e[0] == 'i':
            if len(e[6]) >= 1:
                for j in range(len(e[6])):
                    yield {'fe': fe, 'events': evs[:i] + [e[:6] + [e[6][:j] + e[6][j + 1:]]] + evs[i + 1:]}
            if e[4] is not None:
                yield {'fe': fe, 'events': evs[:i] + [e[:4] + [None] + e[5:]] + evs[i + 1:]}
            if e[2] != 0:
                yield {'fe': fe, 'events': evs[:i] + [e[:2] + [0] + e[3:]] + evs[i + 1:]}
            if e[5]:
                yield {'fe': fe, 'events': evs[:i] + [e[:5] + [False] + e[6:]] + evs[i + 1:]}
        elif e[-1] != 'uri':
            yield {'fe': fe, 'events': evs[:i] + [e[:-1] + ['uri']] + evs[i + 1:]}
    _ = ops
    if any(e[1] for e in evs):                           # shorten every name by its first component
        yield {'fe': fe, 'events': [e[:1] + [e[1][1:]] + e[2:] for e in evs]}
    for i, e in enumerate(evs):                          # shorten one name
        if e[1]:
            yield {'fe': fe, 'events': evs[:i] + [e[:1] + [e[1][:-1]] + e[2:]] + evs[i + 1:]}


# -------------------------------------------------------------------------------- implementation
def _mkval(fe, tag):
    if fe == 'v2':
        from ndn import types

        async def v(name, sig, ctx):
            return types.ValidResult.PASS
    else:
        async def v(name, sig):
            return True
    v._tag = tag
    return v


def _exc_name(e):
    """exception class, up to subclassing (pygtrie raises ShortKeyError(KeyError) for a key without value)"""
    for cls in (KeyError, IndexError, ValueError, TypeError, AttributeError):
        if isinstance(e, cls):
            return cls.__name__
    return 'Other'


def _ret(v):
    if v is True:
        return 'T'
    if v is False:
        return 'F'
    if v is None:
        return 'N'
    return 'X(%s)' % type(v).__name__


def run_impl(case):
    from ndn import encoding as enc
    fe = case['fe']
    trace = []
    calls = []

    def name_hex(name):
        return [bytes(c).hex() for c in name]

    def mk_v2(hid):
        def handler(name, app_param, reply, context):
            calls.append((hid, name_hex(name), reply, context))
        return handler

    def mk_v1(hid):
        def handler(name, param, app_param):
            calls.append((hid, name_hex(name), None, None))
        return handler

    rig = None
    disp = None
    if fe == 'disp':
        from ndn.app_support.dispatcher import Dispatcher
        disp = Dispatcher()
        do_attach, do_detach = disp.register, disp.unregister
        mk = mk_v1
    else:
        rig = apphelp.AppRig(fe).__enter__()
        if fe == 'v2':
            do_attach, do_detach = rig.app.attach_handler, rig.app.detach_handler
            mk = mk_v2
        else:
            do_attach, do_detach = rig.app.set_interest_filter, rig.app.unset_interest_filter
            mk = mk_v1
    now_ms = 1000000

    def set_clock(ms):
        rig.loop.advance((ms + 0.5) / 1000.0)
        assert rig.now_ms() == ms, (rig.now_ms(), ms)

    try:
        if rig is not None:
            set_clock(now_ms)
        for ev in case['events']:
            if ev[0] in ('a', 'd'):
                obj, scribble = represent(ev[1], ev[-1])
                exc = None
                try:
                    if ev[0] == 'a':
                        if fe == 'disp':
                            do_attach(obj, mk(ev[2]) if ev[2] is not None else None)
                        else:
                            # every attach brings its own (accepting) validator, tagged with the event index, so that
                            # the validator in force at a prefix can be observed after a refused attach
                            do_attach(obj, mk(ev[2]) if ev[2] is not None else None, _mkval(fe, len(trace)))
                    else:
                        do_detach(obj)
                except Exception as e:      # noqa
                    exc = _exc_name(e)
                for b in scribble:
                    b[:] = b'\xff' * len(b)
                vtag = None
                if fe != 'disp':
                    tree = rig.app._fib if fe == 'v2' else rig.app._prefix_tree
                    try:
                        node = tree[[bytes.fromhex(h) for h in path_hex(ev[1])]]
                        vtag = getattr(node.validator, '_tag', None)
                    except KeyError:
                        vtag = None
                trace.append({'ev': ev[0], 'exc': exc, 'vtag': vtag})
                continue
            _, path, gap, lifetime, tok, down, reps = ev
            name = [bytes.fromhex(h) for h in path_hex(path)]
            wire = enc.make_interest(name, enc.InterestParam(lifetime=lifetime, nonce=0x01020304))
            wire = bytes(wire)
            del calls[:]
            rec = {'ev': 'i', 'exc': None, 'ret': None, 'replies': [], 'arrival': 0, 'disp': fe == 'disp'}
            if fe == 'disp':
                pname, pparam, papp, _sig = enc.parse_interest(wire)
                try:
                    rec['ret'] = _ret(disp.dispatch(pname, pparam, papp))
                except Exception as e:      # noqa
                    rec['exc'] = _exc_name(e)
            else:
                now_ms += gap
                set_clock(now_ms)
                rec['arrival'] = now_ms
                pkt = wire if tok is None else tlv(0x64, tlv(0x62, bytes.fromhex(tok)) + tlv(0x50, wire))
                n_sent = len(rig.face.sent)
                rig.deliver(pkt)
                rec['sent_on_delivery'] = [b.hex() for b in rig.face.sent[n_sent:]]
            rec['calls'] = [[h, nm] for h, nm, _, _ in calls]
            if calls and fe != 'disp':
                reply = calls[0][2] if fe == 'v2' else rig.app.put_raw_packet
                arrival = now_ms
                for off, data in reps:
                    if arrival + off > now_ms:
                        now_ms = arrival + off
                        set_clock(now_ms)
                    n_sent = len(rig.face.sent)
                    r = {'now': now_ms, 'ret': None, 'exc': None}
                    rig.face.running = not down
                    try:
                        r['ret'] = _ret(rig.loop.call_now(reply, bytes.fromhex(data)))
                    except Exception as e:      # noqa
                        r['exc'] = _exc_name(e)
                    finally:
                        rig.face.running = True
                    r['sent'] = [b.hex() for b in rig.face.sent[n_sent:]]
                    rec['replies'].append(r)
                if fe == 'v2':
                    rec['ctx_deadline'] = calls[0][3].get('deadline') if isinstance(calls[0][3], dict) else None
            del calls[:]
            trace.append(rec)
        return {'trace': trace, 'loop_errors': list(rig.loop.errors) if rig is not None else []}
    finally:
        if rig is not None:
            rig.__exit__(None, None, None)


# ------------------------------------------------------------------------------------- model
def _mname(path):
    return ','.join(path_hex(path)) if path else '.'


def model_line(case, impl):
    toks = []
    for ev, rec in zip(case['events'], impl['trace']):
        if ev[0] == 'a':
            toks.append('a/%s/%s' % (_mname(ev[1]), '~' if ev[2] is None else ev[2]))
        elif ev[0] == 'd':
            toks.append('d/' + _mname(ev[1]))
        else:
            _, path, gap, lifetime, tok, down, reps = ev
            # clock readings: the ones the implementation saw; replies that could not be issued
            # (no handler ran) are planned from the case
            nows = [r['now'] for r in rec['replies']]
            if len(nows) != len(reps):
                nows = [rec['arrival'] + o for o, _ in reps]
            rs = '+'.join('%d:%s' % (n, d) for n, (_, d) in zip(nows, reps)) or '.'
            toks.append('i/%s/%d/%s/%s/%s/%s' % (_mname(path), rec['arrival'], '~' if lifetime is None else lifetime,
                                                 '~' if tok is None else tok, 'down' if down else 'up', rs))
    return 'C04 %s %s' % (case['fe'], ';'.join(toks) if toks else '.')


def model_obs(answer, case, impl):
    assert answer.startswith('ok'), answer
    return answer.split()[1:]


def impl_obs(impl):
    out = []
    for rec in impl['trace']:
        if rec['ev'] in ('a', 'd'):
            out.append(rec['exc'] or 'ok')
            continue
        who = '+'.join('h%d' % h for h, _ in rec['calls']) or 'none'
        if rec['disp']:
            out.append('err:' + rec['exc'] if rec['exc'] else who + ':' + {'T': 'True', 'F': 'False'}.get(rec['ret'], rec['ret']))
            continue
        s = who
        for r in rec['replies']:
            if r['exc']:
                s += '|E=' + r['exc']
            else:
                s += '|%s=%s' % (r['ret'], ','.join(x if x else '-' for x in r['sent']) or '.')
        out.append(s)
    return out


# ------------------------------------------------------------------------------------- oracle
def _spec_replay(case, impl):
    """the property statement replayed over the history; yields one verdict string or None"""
    fe = case['fe']
    table = {}          # tuple(path) -> handler id       (what the statement calls the attached prefixes)
    blank = set()       # prefixes at which "no handler" (None) was attached: outside the statement
    for k, (ev, rec) in enumerate(zip(case['events'], impl['trace'])):
        if ev[0] == 'a':
            p = tuple(ev[1])
            if p in table:
                if rec['exc'] is None:
                    return f'event {k}: second handler attached to occupied prefix /{"/".join(p)} was not refused'
            else:
                if ev[2] is None:
                    if rec['exc'] is None:
                        blank.add(p)
                    continue
                if rec['exc'] is not None:
                    return f'event {k}: attach to free prefix /{"/".join(p)} ({ev[-1]}) raised {rec["exc"]}'
                table[p] = ev[2]
                blank.discard(p)
        elif ev[0] == 'd':
            p = tuple(ev[1])
            if p in table:
                if rec['exc'] is not None:
                    return f'event {k}: detach of attached prefix /{"/".join(p)} ({ev[-1]}) raised {rec["exc"]}'
                del table[p]
            elif rec['exc'] is None:
                blank.discard(p)
        else:
            _, path, gap, lifetime, tok, down, reps = ev
            n = tuple(path)
            cands = [n[:i] for i in range(len(n), -1, -1)]
            exp = next((table[c] for c in cands if c in table), None)
            got = [h for h, _ in rec['calls']]
            if any(c in blank for c in cands):
                # a None "handler" was attached at a prefix of this name: which handler should run is outside the
                # statement; whatever ran, exactly-one / name / reply clauses still apply
                if len(got) > 1:
                    return f'event {k}: Interest /{"/".join(n)} was delivered to more than one handler {got}'
                exp = got[0] if got else None
            if exp is None and got:
                return f'event {k}: Interest /{"/".join(n)} matches no attached prefix but handler(s) {got} ran'
            if exp is not None and got != [exp]:
                if not got:
                    return f'event {k}: Interest /{"/".join(n)} was not delivered to the handler of its longest attached prefix'
                if len(got) > 1:
                    return f'event {k}: Interest /{"/".join(n)} was delivered to more than one handler {got}'
                return f'event {k}: Interest /{"/".join(n)} was delivered to another handler than the one at its longest attached prefix'
            for h, nm in rec['calls']:
                if nm != path_hex(path):
                    return f'event {k}: handler was invoked with another name than the Interest name'
            if rec.get('sent_on_delivery'):
                return f'event {k}: bytes were written to the face before any reply'
            if fe == 'disp':
                if rec['exc'] is not None:
                    if any(c in blank for c in cands):
                        continue                  # calling the None that was registered: outside the statement
                    return f'event {k}: Dispatcher.dispatch raised {rec["exc"]}'
                if (rec['ret'] == 'T') != bool(got) or rec['ret'] not in ('T', 'F'):
                    return f'event {k}: Dispatcher.dispatch returned {rec["ret"]} but dispatched={bool(got)}'
                continue
            if exp is None:
                continue
            L = 4000 if lifetime is None else lifetime
            if len(rec['replies']) != len(reps):
                return f'event {k}: harness could not issue the replies'
            for (off, data), r in zip(reps, rec['replies']):
                in_time = off <= L
                want = data if tok is None else tlv(0x64, tlv(0x62, bytes.fromhex(tok)) + tlv(0x50, bytes.fromhex(data))).hex()
                if fe == 'v1':
                    if not down and r['sent'] != [data]:
                        return f'event {k}: put_raw_packet did not write exactly the packet'
                    if down and r['sent']:
                        return f'event {k}: packet written although the face is down'
                    continue
                if r['sent'] and (not in_time):
                    return f'event {k}: reply transmitted after the Interest lifetime elapsed (offset {off - L:+d} ms)'
                if r['sent'] and down:
                    return f'event {k}: reply transmitted although the face is down'
                if r['exc'] is not None:
                    if in_time and not down:
                        return f'event {k}: reply raised {r["exc"]}'
                    continue                      # raising is a truthful report of "not sent"
                truthy = r['ret'] not in ('F', 'N')
                if truthy != bool(r['sent']):
                    return (f'event {k}: reply returned {"truthy" if truthy else "falsy"} ({r["ret"]}) but the packet was '
                            f'{"sent" if r["sent"] else "not sent"}')
                if in_time and not down:
                    if r['sent'] != [want]:
                        return f'event {k}: reply within the lifetime (offset {off - L:+d} ms) did not transmit exactly the packet'
    if impl['loop_errors']:
        return f'background task error: {impl["loop_errors"][:2]}'
    return None


def _validator_in_force(case, impl):
    """a refused attach (and a failed detach) changes nothing: also not the validator in force at that prefix;
    an accepted attach installs its own validator"""
    if case.get('fe', impl.get('fe')) == 'disp':
        return None
    tags_ = {}
    for k, (ev, rec) in enumerate(zip(case['events'], impl['trace'])):
        if ev[0] not in ('a', 'd') or 'vtag' not in rec:
            continue
        key = tuple(ev[1])
        if ev[0] == 'a':
            if rec['exc'] is None and ev[2] is not None:
                tags_[key] = k
            elif rec['exc'] is None:
                tags_.pop(key, None)      # attaching "no handler": outside the property, do not judge this prefix
                continue
            want = tags_.get(key)
            if key in tags_ and rec['vtag'] != want:
                return (f'event {k}: after a {"refused" if rec["exc"] else "successful"} attach the validator in force at '
                        f'the prefix is the one of event {rec["vtag"]}, expected event {want}')
        elif rec['exc'] is None:
            tags_.pop(key, None)
    return None


def oracle(case, impl):
    return _spec_replay(case, impl) or _validator_in_force(case, impl)


def _stats(case):
    """(max number of attached prefixes an Interest had to choose from, #interests)"""
    table = set()
    best = 0
    for ev in case['events']:
        if ev[0] == 'a' and ev[2] is not None:
            table.add(tuple(ev[1]))
        elif ev[0] == 'd':
            table.discard(tuple(ev[1]))
        elif ev[0] == 'i':
            n = tuple(ev[1])
            best = max(best, sum(1 for i in range(len(n) + 1) if n[:i] in table))
    return best


def nontrivial(case, impl):
    return _stats(case) >= 2


def tags(case, impl):
    t = ['fe:' + case['fe'], 'choices:%d' % _stats(case)]
    for ev, rec in zip(case['events'], impl['trace']):
        if ev[0] in ('a', 'd'):
            t.append('%s:%s' % (ev[0], rec['exc'] or 'ok'))
            t.append('repr:' + ev[-1])
            if ev[0] == 'a' and ev[2] is None:
                t.append('null-handler')
        else:
            t.append('interest:' + ('delivered' if rec['calls'] else 'dropped'))
            L = 4000 if ev[3] is None else ev[3]
            for (off, _), r in zip(ev[6], rec['replies']):
                t.append('reply:%s%s' % ('before' if off < L else 'at' if off == L else 'after', '-facedown' if ev[5] else ''))
            if ev[4] is not None:
                t.append('pit-token')
    return t


def finding_key(case, impl, why):
    w = re.sub(r'event \d+: ', '', why)
    w = re.sub(r'/[a-z/]*', '', w)
    w = re.sub(r'\(offset [^)]*\)|\[[^\]]*\]|\(\w+\)', '', w)
    w = re.sub(r'[^a-zA-Z]+', '-', w).strip('-').lower()
    return w[:70]


LEVEL_TEXT = ('Lean 4 theorems over a hand-written model of the handler table of both front-ends and the Dispatcher (attach = '
              'normalise/setdefault/refuse-if-occupied, detach = del, dispatch = longest_prefix + callback check, the v2 reply '
              'closure): for every attach/detach history and every Interest name the invoked handler is exactly the one attached '
              'at the longest attached prefix (none if none) - stated against an abstract table Name -> handler; duplicate attach '
              'refused with the table unchanged; detach frame theorems; reply returns True <-> bytes sent <-> now <= deadline. '
              'The model is tied to the code on every run by differential execution against the real NDNApp (v2 and legacy) on a '
              'virtual-time loop and the real Dispatcher, plus the property oracle evaluated on the implementation.')
LEVEL_NOTE = ('Proof is about the model; model=code is sampled (differential testing), not proved. pygtrie is modelled as a map; '
              'name-representation equivalence is delegated to C09 and sampled here; the model describes the repaired reply() '
              '(candidate fix C04-reply-returns-true).')
TECHNIQUE = 'Lean 4 proof (induction over attach/detach histories, refinement to an abstract table) + model/implementation correspondence check'
DESIGN_REF = 'DESIGN.md section 7, C04'
