"""C04 — incoming Interests reach exactly the handler of their longest attached prefix
(src/ndn/appv2.py, src/ndn/app.py, src/ndn/name_tree.py, src/ndn/app_support/dispatcher.py)."""
import re
import apphelp
from props import pit_extract

PROP = 'C04'
TITLE = 'Incoming Interests reach exactly the handler of their longest registered prefix'
LEAN_TARGETS = ['NdnProofs.Props.C04']
THEOREMS = [
    'Ndn.C04.longest_attached_unique', 'Ndn.C04.table_refines', 'Ndn.C04.dispatch_longest', 'Ndn.C04.dispatch_none', 'Ndn.C04.dispatch_never_blank',
    'Ndn.C04.dispatch_exactly_one', 'Ndn.C04.attach_dup_refused', 'Ndn.C04.attach_free_accepted',
    'Ndn.C04.detach_receives_nothing', 'Ndn.C04.detach_frame', 'Ndn.C04.detach_falls_back',
    'Ndn.C04.detach_absent_keyerror', 'Ndn.C04.reply_truthful', 'Ndn.C04.reply_payload',
    'Ndn.C04.reply_deadline_is_lifetime', 'Ndn.C04.key_repr_irrelevant',
    # the model computes with / is pinned to the table generated from the source text (lean/NdnGen/C04.lean)
    'Ndn.C04.gen_reply_deadline', 'Ndn.C04.gen_reply_returns', 'Ndn.C04.gen_reply_send', 'Ndn.C04.gen_attach', 'Ndn.C04.gen_detach',
    'Ndn.C04.gen_dispatch', 'Ndn.C04.gen_path_from_key',
]
PARTIAL = {}
TRUSTED = [
    'C04: lean/NdnGen/C04.lean is regenerated from the source text of appv2.py / app.py / app_support/dispatcher.py / '
    'name_tree.py by every run (harness/props/pit_extract.py, ast only): DEFAULT_LIFETIME, the way it replaces a missing '
    'InterestLifetime (`is not None`, not `or`) and the operator of the too-late test of reply (`>`) are VALUES THE MODEL '
    'COMPUTES WITH (Fib.mkPending / Fib.reply; reply_* are theorems about them); the duplicate test of attach '
    '(callback truthiness, ValueError), detach = del, the route / callback tests of dispatch, the KeyError ignored by the '
    'legacy unregister, _path_from_key and the return values of reply are PINNED by gen_*. Trusted: the extractor '
    'recognises the shape it names (unknown otherwise, which fails the pin; the driver answers bad-table)',
    'C04: pygtrie.Trie is trusted - modelled as an association list Name -> node with map semantics for '
    'setdefault/__delitem__ and longest_prefix = the longest key that is a prefix and has a value',
    'C04: that the three accepted representations of a name (URI string, component list, encoded name) normalise to the '
    'same component list is property C09 (Name.normalize); here it is exercised by the harness only (every attach/detach '
    'uses a randomly chosen representation incl. bytearray/memoryview components) and the Lean theorem '
    'key_repr_irrelevant covers only NameTrie._path_from_key (buffer class of the components)',
    'C04: Interests are unsigned; those with ApplicationParameters meet an accepting validator (possibly a slow one) at '
    'every prefix (which Interests a validator lets through is C05); the clock is the integer '
    'millisecond reading of utils.timestamp() on the virtual-time loop; asyncio task scheduling of submit_interest is '
    'exercised by the correspondence only',
    'C04: reply at exactly the deadline instant counts as "lifetime not elapsed" (inclusive bound, as the code documents '
    'with `now > deadline`)',
]
def extract(repo):
    return pit_extract.generate_c04(repo)


RULE = ('histories of 2..14 attach/detach operations over the 31 names of a depth-4 tree with labels {a, ab} (so /a/b-like '
        'component-boundary confusions would show), each name given in one of 10 representations (URI string, list of str, '
        'bytes, bytearray, read-only / writable memoryview, mixed, encoded name as bytes/bytearray/memoryview; mutable '
        'buffers are scribbled over after the call); duplicate attaches, detaches of absent names and attaches of a None '
        'handler included; then every name of the tree plus unattached siblings (label b) is delivered as an Interest built '
        'with make_interest (explicit or absent lifetime, optionally inside an LpPacket with a PIT token); in half of the '
        'cases one attached prefix is then detached and the sweep repeated. v2: the reply closure is called at lifetime-1, '
        'lifetime, lifetime+1 ms (subsets, also far before/after, also with the face down). Front-ends v2, legacy v1, '
        'Dispatcher. Hardening: component alphabets with typed / empty components (32=a beside a, 253=a, 8=), percent-encoded '
        'URI form; detach-then-attach and None-then-real-handler sequences; operations through route() (both front-ends) and '
        'the legacy register()/unregister() coroutines; Interests with lifetime 0, CanBePrefix, MustBeFresh, HopLimit, a '
        'ForwardingHint naming another prefix of the tree, ApplicationParameters (empty and non-empty, digest component in '
        'the name) with a validator that takes up to lifetime+50 ms; reply twice at one instant; reply closures used '
        'after later Interests and after detach / re-attach of their prefix (deferred replies); PIT tokens on the legacy '
        'front-end. Round 11: SIZE of the Interest (ApplicationParameters of 1 octet .. 70000 octets around 2 / 4 / 8 / 64 KiB '
        'and the 8800-octet packet size; names with 40..120 components or components of 300 / 3000 octets); every step the '
        'library hands to loop.run_in_executor (any executor) takes a scripted virtual time (1 ms .. lifetime+50 ms) while '
        'the Interest is on its way - together with the slow validators every awaited step between the ARRIVAL of the '
        'Interest and its handler takes time, and the lifetime is counted from the arrival (replies at lifetime+1, '
        'delay+lifetime-1, delay+lifetime, ...). non-trivial = at least one Interest chose between two or more attached prefixes of its name; '
        'distinct = distinct cases')

LABELS = ['a', 'ab']
SIB = 'b'
# typed / empty components: same value under another type (32=a vs a), 3-byte type number (253=a), empty value (8=)
LABEL_POOL = ['a', 'ab', '32=a', '8=', '253=a', '32=ab', '32=']
# text outside ASCII: in the 'uri' / 'strlist' / 'mixed' representations it reaches the library as literal characters of a
# str (to be read as their UTF-8 bytes), in every other representation as those bytes: one octet in Latin-1 but two in
# UTF-8 (U+0080..U+00FF), two / three / four octets, and a typed component holding such text
LABEL_POOL += ['\u00e9', 'caf\u00e9', '\u00ff\u0080', '\u0416', '\u4e2d', '\U0001f600', '32=\u00e9']
DEPTH = 4
REPRS = ['uri', 'uri-pct', 'uri-pctl', 'strlist', 'byteslist', 'balist', 'mvlist', 'rwmvlist', 'mixed', 'wire', 'wire-ba', 'wire-mv',
         'wire-rwmv', 'tuple', 'iter']
# 'romvlist' / 'wire-romv': read-only views of buffers the caller goes on writing to (memoryview(bytearray).toreadonly()).
# The unchanged library kept such views as trie keys (fixed in /repo, see known_findings.txt); they are part of the stream.
REPRS = REPRS + ['romvlist', 'wire-romv']
APP_SIZES = [1, 200, 252, 253, 1024, 2047, 2048, 2049, 4095, 4096, 4097, 8192, 8800, 16384, 65535, 65536, 70000]
LONG_TAILS = [['z' * 300], ['z'] * 40, ['z' * 3000], ['32=' + 'z' * 253, 'z' * 65], ['q%d' % i for i in range(70)]]
RX_FORMS = ['ba', 'mv', 'rwmv']      # buffer class in which the face hands an Interest to the application (absent = bytes)


# ------------------------------------------------------------------------------------- names
def _tl(n):
    if n < 253:
        return bytes([n])
    if n < 65536:
        return b'\xfd' + n.to_bytes(2, 'big')
    return b'\xfe' + n.to_bytes(4, 'big')


def label_tv(label):
    """a label is either plain text (generic component, type 8) or '<type>=<text>' (typed component, possibly empty)"""
    m = re.match(r'^(\d+)=(.*)$', label)
    if m:
        return int(m.group(1)), m.group(2).encode()
    return 8, label.encode()


def comp_hex(label):
    t, b = label_tv(label)
    return (_tl(t) + _tl(len(b)) + b).hex()


def path_hex(path):
    return [comp_hex(x) for x in path]


def tlv(t, v):
    return _tl(t) + _tl(len(v)) + v


def represent(path, how):
    """the caller-side object for a name; returns (object, list of mutable buffers to scribble over)"""
    comps = [bytes.fromhex(h) for h in path_hex(path)]
    wire = tlv(7, b''.join(comps))
    if how == 'uri':
        return '/' + '/'.join(path), []
    if how == 'uri-pct':              # the same name written with explicit type numbers and percent-encoded values
        return '/' + '/'.join('%d=%s' % (t, ''.join('%%%02X' % c for c in v)) for t, v in map(label_tv, path)), []
    if how == 'uri-pctl':             # ... with lower-case hex digits
        return '/' + '/'.join('%d=%s' % (t, ''.join('%%%02x' % c for c in v)) for t, v in map(label_tv, path)), []
    if how == 'tuple':
        return tuple(comps), []
    if how == 'iter':                 # any iterable of components is a name: a one-shot iterator
        return iter(list(comps)), []
    if how == 'romvlist':
        bas = [bytearray(c) for c in comps]
        return [memoryview(b).toreadonly() for b in bas], bas
    if how == 'wire-romv':
        ba = bytearray(wire)
        return memoryview(ba).toreadonly(), [ba]
    if how == 'wire-rwmv':
        ba = bytearray(wire)
        return memoryview(ba), [ba]
    if how == 'strlist':
        return list(path), []
    if how == 'byteslist':
        return comps, []
    if how == 'balist':
        bas = [bytearray(c) for c in comps]
        return bas, bas
    if how == 'mvlist':
        return [memoryview(c) for c in comps], []
    if how == 'rwmvlist':
        bas = [bytearray(c) for c in comps]
        return [memoryview(b) for b in bas], bas
    if how == 'mixed':
        return [(p if i % 2 == 0 else c) for i, (p, c) in enumerate(zip(path, comps))], []
    if how == 'wire':
        return wire, []
    if how == 'wire-ba':
        ba = bytearray(wire)
        return ba, [ba]
    if how == 'wire-mv':
        return memoryview(wire), []
    raise ValueError(how)


def all_tree(labels=None):
    out = [[]]
    level = [[]]
    for _ in range(DEPTH):
        level = [p + [l] for p in level for l in (labels or LABELS)]
        out += level
    return out


# ------------------------------------------------------------------------------------- cases
def _nonneg(n):
    for k in (1, 2, 4, 8):
        if n < 1 << (8 * k):
            return n.to_bytes(k, 'big')
    raise ValueError(n)


def iopts(ev):
    return ev[7] if len(ev) > 7 and ev[7] else {}


def app_bytes(o):
    """the ApplicationParameters of an Interest (None = absent): 'app' = hex text; 'appn' = [size, seed octet], a large
    block written compactly (octet i is (seed + (i % 256) * 131) % 256)"""
    if o.get('app') is not None:
        return bytes.fromhex(o['app'])
    if o.get('appn') is not None:
        n, b = o['appn']
        return bytes((b + i * 131) & 0xff for i in range(256)) * (n // 256) + bytes((b + i * 131) & 0xff for i in range(n % 256))
    return None


def hand_built(ev):
    o = iopts(ev)
    return any(k in o for k in ('cbp', 'mbf', 'hop', 'hint', 'app', 'appn'))


def interest_name_hex(ev):
    """component hex list of the name the Interest carries on the wire (ApplicationParameters add the digest component)"""
    import hashlib
    comps = path_hex(ev[1])
    app = app_bytes(iopts(ev))
    if app is not None:
        comps = comps + [tlv(2, hashlib.sha256(tlv(0x24, app)).digest()).hex()]
    return comps


def build_interest(ev):
    """NDN packet format 0.3 Interest written out by hand (used when optional elements are wanted)"""
    o = iopts(ev)
    body = tlv(7, b''.join(bytes.fromhex(h) for h in interest_name_hex(ev)))
    if o.get('cbp'):
        body += tlv(0x21, b'')
    if o.get('mbf'):
        body += tlv(0x12, b'')
    if o.get('hint') is not None:
        body += tlv(0x1e, tlv(7, b''.join(bytes.fromhex(h) for h in path_hex(o['hint']))))
    body += tlv(0x0a, bytes.fromhex('01020304'))
    if ev[3] is not None:
        body += tlv(0x0c, _nonneg(ev[3]))
    if o.get('hop') is not None:
        body += tlv(0x22, bytes([o['hop']]))
    if app_bytes(o) is not None:
        body += tlv(0x24, app_bytes(o))
    return tlv(5, body)


def _replies(rng, lifetime):
    L = 4000 if lifetime is None else lifetime
    r = rng.random()
    if r < 0.3:
        offs = [L - 1, L, L + 1]
    elif r < 0.45:
        offs = [rng.choice([L - 1, L, L + 1])]
    elif r < 0.55:
        offs = sorted(rng.sample([0, L // 2, L - 1, L, L + 1, L + 1000], 2))
    elif r < 0.62:
        o = rng.choice([0, L - 1, L])
        offs = [o, o]                                  # reply called twice at the same instant
    elif r < 0.7:
        offs = [rng.choice([0, L + 5000])]
    else:
        offs = []
    offs = [o for o in offs if o >= 0]
    return [[o, ('06%02x' % (2 + k)) + '0700' + '%02x' % rng.randrange(256) * k] for k, o in enumerate(offs)]


def _interest(rng, fe, path, env=None):
    lifetime = rng.choice([None, 0, 1, 2, 10, 100, 100, 4000, 60000])
    if rng.random() < 0.12:
        # InterestLifetime at the width boundaries of its encoding (1 / 2 / 4 / 8 bytes) and beyond a minute
        lifetime = rng.choice([255, 256, 65535, 65536, 600000, 2 ** 32 - 1, 2 ** 32])
    tok = None
    if fe != 'disp' and rng.random() < (0.3 if fe == 'v2' else 0.1):
        tok = bytes(rng.randrange(256) for _ in range(rng.choice([1, 4, 8]))).hex()
    down = fe != 'disp' and rng.random() < 0.04
    reps = _replies(rng, lifetime) if fe != 'disp' else []
    if fe == 'v1':
        reps = reps[:1]
    ev = ['i', path, rng.choice([0, 1, 7, 250]), lifetime, tok, down, reps]
    o = {}
    if rng.random() < 0.3:
        # optional Interest elements: whatever the Interest carries, it goes to the handler of its longest prefix
        if rng.random() < 0.5:
            o['cbp'] = 1
        if rng.random() < 0.3:
            o['mbf'] = 1
        if rng.random() < 0.3:
            o['hop'] = rng.choice([0, 1, 255])
        if env is not None and rng.random() < 0.45:
            o['hint'] = list(rng.choice(env['tree']))      # a forwarding hint that is itself a name of the tree
        if rng.random() < 0.4:
            o['app'] = rng.choice(['', '00', '0102', 'ff' * 40])
            if fe == 'v2' and rng.random() < 0.5:
                # Interests with ApplicationParameters go through the prefix's validator: let it take a while
                L = 4000 if lifetime is None else lifetime
                o['vdelay'] = rng.choice([1, 5, max(1, L - 1), max(1, L), L + 1, L + 50])
                if not reps and rng.random() < 0.7:
                    k = rng.randrange(2, 6)
                    ev[6] = [[rng.choice([0, L, L + 1, o['vdelay'] + L - 1, o['vdelay'] + L]),
                              ('06%02x' % (2 + k)) + '0700' + '%02x' % rng.randrange(256) * k]]
    L = 4000 if lifetime is None else lifetime
    if 'app' not in o and rng.random() < 0.07:
        # SIZE of the Interest: ApplicationParameters of up to 64 KiB and a little more (around 2 KiB, 4 KiB, 8 KiB, the
        # 8800-byte packet size, 64 KiB): whatever its size, an Interest goes to the handler of its longest prefix and
        # may be answered for exactly its lifetime
        o['appn'] = [rng.choice(APP_SIZES), rng.randrange(256)]
        if fe == 'v2' and not ev[6] and rng.random() < 0.6:
            ev[6] = _replies(rng, lifetime)
        if fe == 'v2' and 'vdelay' not in o and rng.random() < 0.25:
            o['vdelay'] = rng.choice([1, 5, max(1, L - 1), max(1, L), L + 1, L + 50])
    if fe != 'disp' and rng.random() < (0.6 if 'appn' in o else 0.3 if 'app' in o else 0.06):
        # the event loop's executor is busy: whatever the library hands to loop.run_in_executor (any executor) while this
        # Interest is on its way to the handler completes only xd ms later - the Interest's lifetime keeps counting from
        # its ARRIVAL, however long the steps between arrival and handler take
        o['xd'] = rng.choice([1, 5, 50, max(1, L - 1), max(1, L), L + 1, L + 50])
        if fe == 'v2' and rng.random() < 0.8:
            k = rng.randrange(2, 6)
            x, v = o['xd'], o.get('vdelay', 0)
            offs = rng.choice([[L + 1], [L, L + 1], [x + L], [x + L - 1], [x + v + L], [2 * x + L], [0, x + L + 1],
                               [max(0, L - 1), L + 1, x + L]])
            ev[6] = [[f, ('06%02x' % (2 + k)) + '0700' + '%02x' % rng.randrange(256) * k] for f in offs]
    if fe != 'disp' and rng.random() < 0.15:
        o['rx'] = rng.choice(RX_FORMS)
    if o:
        ev.append(o)
    return ev


def _sweep(rng, fe, tree, frac=1.0, env=None):
    labels = env['labels'] if env else LABELS
    sibs = env['sibs'] if env else [SIB]
    names = [p for p in tree if rng.random() < frac]
    sib = []
    for _ in range(8):
        p = list(rng.choice(tree))
        k = rng.random()
        if k < 0.4 and p:
            p[rng.randrange(len(p))] = rng.choice(sibs)            # a sibling label somewhere
        elif k < 0.7:
            p = p + [rng.choice(sibs)]                             # below a tree name
        else:
            p = p + [rng.choice(labels), rng.choice(sibs)][:max(0, 6 - len(p))]
        if rng.random() < 0.05:
            p = p + rng.choice(LONG_TAILS)                        # LONG names: many / long components below the tree
        sib.append(p)
    names = names + sib
    rng.shuffle(names)
    evs = [_interest(rng, fe, p, env) for p in names]
    if fe == 'v2' and env is not None:
        # deferred replies: the reply closure of an earlier Interest used after later Interests (and, when the caller
        # appends operations, after detach / re-attach of its prefix); ids are unique within the case
        out = []
        pend = []
        for e in evs:
            out.append(e)
            if rng.random() < 0.12:
                env['next_id'] += 1
                o = dict(iopts(e))
                o['id'] = env['next_id']
                if len(e) > 7:
                    e[7] = o
                else:
                    e.append(o)
                L = 4000 if e[3] is None else e[3]
                k = rng.randrange(3, 9)
                pend.append(['r', o['id'], rng.choice([0, L - 1, L, L + 1, L + 300]),
                             ('06%02x' % (2 + k)) + '0700' + '%02x' % rng.randrange(256) * k])
            if pend and rng.random() < 0.3:
                out.append(pend.pop(rng.randrange(len(pend))))
        env['pending'] += [r for r in pend if r[2] >= 0]
        evs = [e for e in out if e[0] != 'r' or e[2] >= 0]
    return evs


def _via(rng, fe, kind, handler=True):
    """front-end entry point used for the operation: '' = attach_handler / detach_handler / set_interest_filter /
    unset_interest_filter / Dispatcher; route = the route() decorator; register / unregister = legacy coroutines"""
    if fe == 'v2' and kind == 'a' and handler and rng.random() < 0.2:
        return '@route'
    if fe == 'v1' and kind == 'a' and handler:
        # legacy options of a route: the handler is also given the raw packet / the signature pointers (as keyword
        # arguments it must have asked for: each handler of the harness accepts exactly what it asked for)
        opts = rng.choice(['', '', '', '+rp', '+sp', '+rp+sp'])
        if rng.random() < 0.3:
            return rng.choice(['@route', '@register']) + opts
        return '@' + opts if opts else ''
    if fe == 'v1' and kind == 'd' and rng.random() < 0.25:
        return '@unregister'
    return ''


def cases(rng, tier):
    n = 400 if tier == 'quick' else 8000
    for ci in range(n):
        fe = rng.choice(['v2', 'v2', 'v2', 'v1', 'disp'])
        if rng.random() < 0.55:
            labels, sibs = list(LABELS), [SIB]
        else:
            labels = rng.sample(LABEL_POOL, 2)
            sibs = [l for l in LABEL_POOL + [SIB] if l not in labels]
        tree = all_tree(labels)
        env = {'labels': labels, 'sibs': sibs, 'tree': tree, 'next_id': 0, 'pending': []}
        evs = []
        att = {}
        hid = 0
        # bias towards nested chains: pick a spine and attach mostly on/near it
        spine = rng.choice([p for p in tree if len(p) == DEPTH])

        def how(kind, handler=True):
            return rng.choice(REPRS) + _via(rng, fe, kind, handler)

        for _ in range(rng.randint(3, 14)):
            r = rng.random()
            if r < 0.6:
                p = spine[:rng.randint(0, DEPTH)]
            else:
                p = rng.choice(tree)
            key = '/'.join(p)
            r = rng.random()
            if r < 0.56:
                hid += 1
                h = hid if rng.random() > 0.03 else None
                evs.append(['a', p, h, how('a', h is not None)])
                if key not in att and h is not None:
                    att[key] = hid
            elif r < 0.6 and key not in att:
                # "no handler" first, a real handler afterwards (the second attach must be accepted)
                hid += 1
                evs.append(['a', p, None, how('a', False)])
                evs.append(['a', p, hid, how('a')])
                att[key] = hid
            elif r < 0.64 and att:
                # detach, then attach another handler at the same prefix
                k2 = rng.choice(sorted(att))
                hid += 1
                evs.append(['d', k2.split('/') if k2 else [], how('d')])
                evs.append(['a', k2.split('/') if k2 else [], hid, how('a')])
                att[k2] = hid
            elif r < 0.72 and att:
                k2 = rng.choice(sorted(att))
                hid += 1
                evs.append(['a', k2.split('/') if k2 else [], hid, how('a')])   # duplicate attach
            elif r < 0.92 and att:
                k2 = rng.choice(sorted(att))
                evs.append(['d', k2.split('/') if k2 else [], how('d')])
                del att[k2]
            else:
                evs.append(['d', p, how('d')])
                att.pop(key, None)
        full = tier == 'thorough' or ci % 3 == 0
        evs += _sweep(rng, fe, tree, 1.0 if full else 0.4, env)
        if att and rng.random() < 0.5:
            k2 = rng.choice(sorted(att))
            evs.append(['d', k2.split('/') if k2 else [], how('d')])
            if rng.random() < 0.3:
                hid += 1
                evs.append(['a', k2.split('/') if k2 else [], hid, how('a')])    # ... and re-attached to another handler
            # reply closures obtained before the detach, used after it
            evs += env['pending']
            env['pending'] = []
            evs += _sweep(rng, fe, tree, 1.0 if full else 0.4, env)
        if rng.random() < 0.5:
            # handlers attached while Interests are already flowing (after some were dispatched): mostly BELOW an
            # occupied prefix (the longer prefix must win from now on), else above / beside one; then more Interests
            for _ in range(rng.randint(1, 3)):
                cand = [p for p in tree if '/'.join(p) not in att]
                if not cand:
                    break
                below = [p for p in cand if any(k == '' or '/'.join(p).startswith(k + '/') for k in att)]
                p = rng.choice(below if below and rng.random() < 0.7 else cand)
                hid += 1
                evs.append(['a', list(p), hid, how('a')])
                att['/'.join(p)] = hid
            evs += _sweep(rng, fe, tree, 1.0 if full else 0.4, env)
        evs += env['pending']
        c = {'fe': fe, 'events': evs}
        if labels != LABELS:
            c['labels'] = labels
        yield c


def _with(evs, i, e):
    return evs[:i] + [e] + evs[i + 1:]


def shrink(case):
    evs = case['events']
    extra = {k: v for k, v in case.items() if k not in ('fe', 'events')}

    def mk(events):
        d = {'fe': case['fe'], 'events': events}
        d.update(extra)
        return d
    ints = [i for i, e in enumerate(evs) if e[0] == 'i']
    if len(ints) > 1:
        for i in ints:                                   # keep a single Interest (and the deferred replies to it)
            yield mk([e for j, e in enumerate(evs) if e[0] != 'i' or j == i])
    if len(evs) > 3:
        h = len(evs) // 2
        yield mk(evs[h:])
        yield mk(evs[:h])
    for i in reversed(range(len(evs))):
        yield mk(evs[:i] + evs[i + 1:])
    for i, e in enumerate(evs):
        if e[0] == 'i':
            if len(e[6]) >= 1:
                for j in range(len(e[6])):
                    yield mk(_with(evs, i, e[:6] + [e[6][:j] + e[6][j + 1:]] + e[7:]))
            if e[4] is not None:
                yield mk(_with(evs, i, e[:4] + [None] + e[5:]))
            if e[2] != 0:
                yield mk(_with(evs, i, e[:2] + [0] + e[3:]))
            if e[5]:
                yield mk(_with(evs, i, e[:5] + [False] + e[6:]))
            for k in sorted(iopts(e)):
                if k != 'id':
                    yield mk(_with(evs, i, e[:7] + [{a: b for a, b in e[7].items() if a != k}]))
        elif e[0] in ('a', 'd'):
            if '+' in e[-1]:
                yield mk(_with(evs, i, e[:-1] + [e[-1].split('+')[0].rstrip('@')]))
            elif '@' in e[-1]:
                yield mk(_with(evs, i, e[:-1] + [e[-1].split('@')[0]]))
            elif e[-1] != 'uri':
                yield mk(_with(evs, i, e[:-1] + ['uri']))
    named = [e for e in evs if e[0] != 'r']
    if any(e[1] for e in named):                           # shorten every name by its first component
        yield mk([e if e[0] == 'r' else e[:1] + [e[1][1:]] + e[2:] for e in evs])
    for i, e in enumerate(evs):                          # shorten one name
        if e[0] != 'r' and e[1]:
            yield mk(_with(evs, i, e[:1] + [e[1][:-1]] + e[2:]))


# -------------------------------------------------------------------------------- implementation
VDELAY = {'ms': 0}      # how long the (accepting) validators take for the Interest being delivered
XDELAY = {'ms': 0}      # how long anything handed to loop.run_in_executor takes while that Interest is on its way
DUE = []                # virtual instants (ms) at which the scripted steps that were started will have finished


def script_executor(rig):
    """Under the virtual-time loop no real time passes, so work handed to a thread pool would look instantaneous (and its
    completion, posted with call_soon_threadsafe, would land at an arbitrary later step). Every loop.run_in_executor
    (any executor; asyncio.to_thread goes through it too) becomes a scripted step instead: the function runs on the loop
    XDELAY ms of virtual time later (a thread hop = one loop iteration when 0) and its result / exception completes
    the future."""
    loop = rig.loop

    def run_in_executor(executor, func, *args):
        fut = loop.create_future()

        def done():
            if fut.cancelled():
                return
            try:
                fut.set_result(func(*args))
            except Exception as e:      # noqa
                fut.set_exception(e)
        if XDELAY['ms']:
            DUE.append(rig.now_ms() + XDELAY['ms'])
            loop.call_later(XDELAY['ms'] / 1000.0, done)
        else:
            loop.call_soon(done)
        return fut
    loop.run_in_executor = run_in_executor


def _mkval(fe, tag):
    if fe == 'v2':
        import asyncio
        from ndn import types

        async def v(name, sig, ctx):
            if VDELAY['ms']:
                DUE.append(int(asyncio.get_running_loop().time() * 1000) + VDELAY['ms'])
                await asyncio.sleep(VDELAY['ms'] / 1000.0)
            return types.ValidResult.PASS
    else:
        async def v(name, sig):
            return True
    v._tag = tag
    return v


def _exc_name(e):
    """exception class, up to subclassing (pygtrie raises ShortKeyError(KeyError) for a key without value)"""
    for cls in (KeyError, IndexError, ValueError, TypeError, AttributeError):
        if isinstance(e, cls):
            return cls.__name__
    return 'Other'


def _ret(v):
    if v is True:
        return 'T'
    if v is False:
        return 'F'
    if v is None:
        return 'N'
    return 'X(%s)' % type(v).__name__


def run_impl(case):
    import asyncio
    from ndn import encoding as enc
    fe = case['fe']
    trace = []
    calls = []

    def name_hex(name):
        return [bytes(c).hex() for c in name]

    def mk_v2(hid):
        def handler(name, app_param, reply, context):
            calls.append((hid, name_hex(name), reply, context))
        return handler

    def mk_v1(hid, rp=False, sp=False):
        # a legacy handler accepts exactly the keyword arguments its route asked for
        if rp and sp:
            def handler(name, param, app_param, raw_packet, sig_ptrs):
                calls.append((hid, name_hex(name), None, None))
        elif rp:
            def handler(name, param, app_param, raw_packet):
                calls.append((hid, name_hex(name), None, None))
        elif sp:
            def handler(name, param, app_param, sig_ptrs):
                calls.append((hid, name_hex(name), None, None))
        else:
            def handler(name, param, app_param):
                calls.append((hid, name_hex(name), None, None))
        return handler

    rig = None
    disp = None
    if fe == 'disp':
        from ndn.app_support.dispatcher import Dispatcher
        disp = Dispatcher()
        mk = mk_v1
    else:
        rig = apphelp.AppRig(fe).__enter__()
        # Interest lifetimes of 2^32 ms take the clock to 10^7 s, where the loop's default resolution (1 ns) is below
        # one ulp and a timer due exactly now would never be run
        rig.loop._clock_resolution = 1e-6
        script_executor(rig)
        mk = mk_v2 if fe == 'v2' else mk_v1
        if fe == 'v1':
            # what main_loop() sets up before any route can be registered
            rig.app._prefix_register_semaphore = asyncio.Semaphore(1)
    now_ms = 1000000
    closures = {}           # Interest id -> (index of its record in the trace, reply closure)

    def set_clock(ms):
        # timers due at this very instant fire whatever the float rounding (the clock reaches 2^32 ms and more,
        # where one ulp of the seconds reading exceeds the loop's own slack)
        t = (ms + 0.5) / 1000.0
        rig.loop.advance(t + 1e-6)
        rig.loop._vt = t
        assert rig.now_ms() == ms, (rig.now_ms(), ms)

    def task_outcome(coro_or_none, thunk=None):
        """run a legacy coroutine (or a thunk that spawns a task itself) and raise the exception its task ended with"""
        made = []
        if coro_or_none is not None:
            made.append(rig.loop.run_now(coro_or_none))
        else:
            orig = rig.loop.create_task

            def spy(coro, **kw):
                t = orig(coro, **kw)
                made.append(t)
                return t
            rig.loop.create_task = spy
            try:
                rig.loop.call_now(thunk)
            finally:
                del rig.loop.create_task
        for task in made:
            if task.done() and not task.cancelled() and task.exception() is not None:
                raise task.exception()

    def do_op(kind, via, obj, h, val, rp=False, sp=False):
        if fe == 'disp':
            return disp.register(obj, h) if kind == 'a' else disp.unregister(obj)
        app = rig.app
        if fe == 'v2':
            if kind == 'd':
                return app.detach_handler(obj)
            if via == 'route':
                return rig.loop.call_now(lambda: app.route(obj, val)(h))     # route() spawns the registration task
            return app.attach_handler(obj, h, val)
        if kind == 'd':
            if via == 'unregister':
                return task_outcome(app.unregister(obj))
            return app.unset_interest_filter(obj)
        if via == 'route':
            return task_outcome(None, lambda: app.route(obj, val, rp, sp)(h))
        if via == 'register':
            return task_outcome(app.register(obj, h, val, rp, sp))
        return app.set_interest_filter(obj, h, val, rp, sp)

    def do_reply(rec, reply, data, down):
        n_sent = len(rig.face.sent)
        r = {'now': now_ms, 'ret': None, 'exc': None}
        rig.face.running = not down
        try:
            r['ret'] = _ret(rig.loop.call_now(reply, bytes.fromhex(data)))
        except Exception as e:      # noqa
            r['exc'] = _exc_name(e)
        finally:
            rig.face.running = True
        r['sent'] = [b.hex() for b in rig.face.sent[n_sent:]]
        rec['replies'].append(r)

    try:
        if rig is not None:
            set_clock(now_ms)
        for ev in case['events']:
            if ev[0] in ('a', 'd'):
                how, _, via = ev[-1].partition('@')
                via, *flags = via.split('+')
                rp, sp = 'rp' in flags, 'sp' in flags
                obj, scribble = represent(ev[1], how)
                exc = None
                try:
                    h = None
                    if ev[0] == 'a' and ev[2] is not None:
                        h = mk(ev[2], rp, sp) if fe == 'v1' else mk(ev[2])
                    if h is None:
                        via = via if ev[0] == 'd' else ''
                    # every attach brings its own (accepting) validator, tagged with the event index, so that
                    # the validator in force at a prefix can be observed after a refused attach
                    do_op(ev[0], via, obj, h, _mkval(fe, len(trace)) if fe != 'disp' else None, rp, sp)
                except Exception as e:      # noqa
                    exc = _exc_name(e)
                if not via:
                    # synchronous entry points only: route()/register()/unregister() leave a task running that may
                    # legitimately still read the caller's buffers
                    for b in scribble:
                        b[:] = b'\xff' * len(b)
                vtag = None
                if fe != 'disp':
                    tree = rig.app._fib if fe == 'v2' else rig.app._prefix_tree
                    try:
                        node = tree[[bytes.fromhex(h) for h in path_hex(ev[1])]]
                        vtag = getattr(node.validator, '_tag', None)
                    except KeyError:
                        vtag = None
                trace.append({'ev': ev[0], 'exc': exc, 'vtag': vtag})
                continue
            if ev[0] == 'r':
                rec = {'ev': 'r', 'done': False}
                trace.append(rec)
                if ev[1] in closures:
                    k0, reply, down = closures[ev[1]]
                    if trace[k0]['arrival'] + ev[2] > now_ms:
                        now_ms = trace[k0]['arrival'] + ev[2]
                        set_clock(now_ms)
                    do_reply(trace[k0], reply, ev[3], down)
                    rec['done'] = True
                    rec['of'] = k0
                    rec['nth'] = len(trace[k0]['replies']) - 1
                continue
            _, path, gap, lifetime, tok, down, reps = ev[:7]
            if hand_built(ev):
                wire = build_interest(ev)
            else:
                name = [bytes.fromhex(h) for h in path_hex(path)]
                wire = bytes(enc.make_interest(name, enc.InterestParam(lifetime=lifetime, nonce=0x01020304)))
            del calls[:]
            rec = {'ev': 'i', 'exc': None, 'ret': None, 'replies': [], 'arrival': 0, 'disp': fe == 'disp'}
            if fe == 'disp':
                pname, pparam, papp, _sig = enc.parse_interest(wire)
                try:
                    rec['ret'] = _ret(disp.dispatch(pname, pparam, papp))
                except Exception as e:      # noqa
                    rec['exc'] = _exc_name(e)
            else:
                now_ms += gap
                set_clock(now_ms)
                rec['arrival'] = now_ms
                pkt = wire if tok is None else tlv(0x64, tlv(0x62, bytes.fromhex(tok)) + tlv(0x50, wire))
                n_sent = len(rig.face.sent)
                VDELAY['ms'] = iopts(ev).get('vdelay', 0) if fe == 'v2' else 0
                XDELAY['ms'] = iopts(ev).get('xd', 0)
                del DUE[:]
                rx = iopts(ev).get('rx')
                buf = pkt if rx is None else bytearray(pkt) if rx == 'ba' else memoryview(pkt) if rx == 'mv' else \
                    memoryview(bytearray(pkt))
                try:
                    rig.deliver(buf, rig._typ(pkt))
                    n_arrival = len(rig.face.sent)
                    for _ in range(64):
                        # steps between arrival and handler are still at work (the validator of the prefix, anything
                        # the library handed to an executor): the handler runs when they have finished, one after the
                        # other; the lifetime of the Interest keeps counting from its arrival
                        ahead = [d for d in DUE if d > now_ms]
                        if calls or not ahead:
                            break
                        now_ms = min(ahead)
                        set_clock(now_ms)
                finally:
                    VDELAY['ms'] = 0
                    XDELAY['ms'] = 0
                # legacy front-end: its register() / unregister() coroutines keep command Interests to the forwarder in
                # flight (sent again as time passes); what goes out at LATER instants while an offloaded step of this
                # Interest is awaited is theirs, not this Interest's (time never passed here on this front-end before)
                rec['sent_on_delivery'] = [b.hex() for b in rig.face.sent[n_sent:(n_arrival if fe == 'v1' else None)]]
            rec['calls'] = [[h, nm] for h, nm, _, _ in calls]
            if calls and fe != 'disp':
                reply = calls[0][2] if fe == 'v2' else rig.app.put_raw_packet
                arrival = rec['arrival']
                for off, data in reps:
                    if arrival + off > now_ms:
                        now_ms = arrival + off
                        set_clock(now_ms)
                    do_reply(rec, reply, data, down)
                if fe == 'v2':
                    rec['ctx_deadline'] = calls[0][3].get('deadline') if isinstance(calls[0][3], dict) else None
                    if 'id' in iopts(ev):
                        closures[iopts(ev)['id']] = (len(trace), reply, down)
            del calls[:]
            trace.append(rec)
        return {'trace': trace, 'loop_errors': list(rig.loop.errors) if rig is not None else []}
    finally:
        if rig is not None:
            rig.__exit__(None, None, None)


# ------------------------------------------------------------------------------------- model
def _mname(path):
    return ','.join(path_hex(path)) if path else '.'


def _deferred(case, impl):
    """{trace index of an Interest: [data hex of the deferred replies issued on its closure, in order of issue]}"""
    out = {}
    for ev, rec in zip(case['events'], impl['trace']):
        if ev[0] == 'r' and rec.get('done'):
            out.setdefault(rec['of'], []).append((rec['nth'], ev[3]))
    return {k: [d for _, d in sorted(v)] for k, v in out.items()}


def model_line(case, impl):
    toks = []
    deferred = _deferred(case, impl)
    for k, (ev, rec) in enumerate(zip(case['events'], impl['trace'])):
        if ev[0] == 'a':
            toks.append('a/%s/%s' % (_mname(ev[1]), '~' if ev[2] is None else ev[2]))
        elif ev[0] == 'd':
            # the legacy unregister() coroutine removes the callback if there is one and never raises (fixed in /repo)
            toks.append(('u/' if len(ev) > 2 and str(ev[2]).endswith('@unregister') else 'd/') + _mname(ev[1]))
        elif ev[0] == 'r':
            continue          # folded into the token of the Interest it answers (the model's closure is a pure function)
        else:
            _, path, gap, lifetime, tok, down, reps = ev[:7]
            # clock readings: the ones the implementation saw; replies that could not be issued
            # (no handler ran) are planned from the case
            datas = [d for _, d in reps] + deferred.get(k, [])
            nows = [r['now'] for r in rec['replies']]
            if len(nows) != len(datas):
                datas = [d for _, d in reps]
                nows = [rec['arrival'] + o for o, _ in reps]
            rs = '+'.join('%d:%s' % (n, d) for n, d in zip(nows, datas)) or '.'
            toks.append('i/%s/%d/%s/%s/%s/%s' % (','.join(interest_name_hex(ev)) or '.', rec['arrival'],
                                                 '~' if lifetime is None else lifetime,
                                                 '~' if tok is None else tok, 'down' if down else 'up', rs))
    return 'C04 %s %s' % (case['fe'], ';'.join(toks) if toks else '.')


def model_obs(answer, case, impl):
    assert answer.startswith('ok'), answer
    return answer.split()[1:]


def impl_obs(impl):
    out = []
    for rec in impl['trace']:
        if rec['ev'] in ('a', 'd'):
            out.append(rec['exc'] or 'ok')
            continue
        if rec['ev'] == 'r':
            continue
        who = '+'.join('h%d' % h for h, _ in rec['calls']) or 'none'
        if rec['disp']:
            out.append('err:' + rec['exc'] if rec['exc'] else who + ':' + {'T': 'True', 'F': 'False'}.get(rec['ret'], rec['ret']))
            continue
        s = who
        for r in rec['replies']:
            if r['exc']:
                s += '|E=' + r['exc']
            else:
                s += '|%s=%s' % (r['ret'], ','.join(x if x else '-' for x in r['sent']) or '.')
        out.append(s)
    return out


# ------------------------------------------------------------------------------------- oracle
def _spec_replay(case, impl):
    """the property statement replayed over the history; yields one verdict string or None"""
    fe = case['fe']
    table = {}          # tuple(path) -> handler id       (what the statement calls the attached prefixes)
    blank = set()       # prefixes at which "no handler" (None) was attached: outside the statement
    served = {}         # trace index of an Interest -> (prefix that served it, handler id)
    events = case['events']
    for k, (ev, rec) in enumerate(zip(events, impl['trace'])):
        if ev[0] == 'a':
            p = tuple(ev[1])
            if p in table:
                if rec['exc'] is None:
                    return f'event {k}: second handler attached to occupied prefix /{"/".join(p)} was not refused'
            else:
                if ev[2] is None:
                    if rec['exc'] is None:
                        blank.add(p)
                    continue
                if rec['exc'] is not None:
                    return f'event {k}: attach to free prefix /{"/".join(p)} ({ev[-1]}) raised {rec["exc"]}'
                table[p] = ev[2]
                blank.discard(p)
        elif ev[0] == 'd':
            p = tuple(ev[1])
            if p in table:
                if rec['exc'] is not None:
                    return f'event {k}: detach of attached prefix /{"/".join(p)} ({ev[-1]}) raised {rec["exc"]}'
                del table[p]
            elif rec['exc'] is None:
                blank.discard(p)
        elif ev[0] == 'r':
            if not rec.get('done'):
                continue
            k0 = rec['of']
            ev0, rec0 = events[k0], impl['trace'][k0]
            r = rec0['replies'][rec['nth']]
            lifetime, tok, down = ev0[3], ev0[4], ev0[5]
            L = 4000 if lifetime is None else lifetime
            off = r['now'] - rec0['arrival']
            in_time = off <= L
            stable = k0 in served and table.get(served[k0][0]) == served[k0][1]
            data = ev[3]
            want = data if tok is None else tlv(0x64, tlv(0x62, bytes.fromhex(tok)) + tlv(0x50, bytes.fromhex(data))).hex()
            what = f'event {k}: deferred reply to the Interest of event {k0}'
            if r['sent'] and not in_time:
                return f'{what} transmitted after the Interest lifetime elapsed (offset {off - L:+d} ms)'
            if r['sent'] and down:
                return f'{what} transmitted although the face is down'
            if r['exc'] is not None:
                if in_time and not down and stable:
                    return f'{what} raised {r["exc"]}'
                continue
            truthy = r['ret'] not in ('F', 'N')
            if truthy != bool(r['sent']):
                return (f'{what} returned {"truthy" if truthy else "falsy"} ({r["ret"]}) but the packet was '
                        f'{"sent" if r["sent"] else "not sent"}')
            if r['sent'] and r['sent'] != [want]:
                return f'{what} did not transmit exactly the packet (with the token of its own Interest)'
            if in_time and not down and stable and r['sent'] != [want]:
                return f'{what} within the lifetime (offset {off - L:+d} ms) did not transmit exactly the packet'
        else:
            _, path, gap, lifetime, tok, down, reps = ev[:7]
            n = tuple(path)
            cands = [n[:i] for i in range(len(n), -1, -1)]
            hit = next((c for c in cands if c in table), None)
            exp = table[hit] if hit is not None else None
            got = [h for h, _ in rec['calls']]
            if any(c in blank for c in cands):
                # a None "handler" was attached at a prefix of this name: which handler should run is outside the
                # statement; whatever ran, exactly-one / name / reply clauses still apply
                if len(got) > 1:
                    return f'event {k}: Interest /{"/".join(n)} was delivered to more than one handler {got}'
                exp = got[0] if got else None
            elif hit is not None:
                served[k] = (hit, exp)
            if exp is None and got:
                return f'event {k}: Interest /{"/".join(n)} matches no attached prefix but handler(s) {got} ran'
            if exp is not None and got != [exp]:
                if not got:
                    return f'event {k}: Interest /{"/".join(n)} was not delivered to the handler of its longest attached prefix'
                if len(got) > 1:
                    return f'event {k}: Interest /{"/".join(n)} was delivered to more than one handler {got}'
                return f'event {k}: Interest /{"/".join(n)} was delivered to another handler than the one at its longest attached prefix'
            for h, nm in rec['calls']:
                if nm != interest_name_hex(ev):
                    return f'event {k}: handler was invoked with another name than the Interest name'
            if rec.get('sent_on_delivery'):
                return f'event {k}: bytes were written to the face before any reply'
            if fe == 'disp':
                if rec['exc'] is not None:
                    if any(c in blank for c in cands):
                        continue                  # calling the None that was registered: outside the statement
                    return f'event {k}: Dispatcher.dispatch raised {rec["exc"]}'
                if (rec['ret'] == 'T') != bool(got) or rec['ret'] not in ('T', 'F'):
                    return f'event {k}: Dispatcher.dispatch returned {rec["ret"]} but dispatched={bool(got)}'
                continue
            if exp is None:
                continue
            L = 4000 if lifetime is None else lifetime
            inline = rec['replies'][:len(reps)]
            if len(inline) != len(reps):
                return f'event {k}: harness could not issue the replies'
            for (off, data), r in zip(reps, inline):
                off = r['now'] - rec['arrival']          # = the planned offset unless the handler itself ran later
                in_time = off <= L
                want = data if tok is None else tlv(0x64, tlv(0x62, bytes.fromhex(tok)) + tlv(0x50, bytes.fromhex(data))).hex()
                if fe == 'v1':
                    if not down and r['sent'] != [data]:
                        return f'event {k}: put_raw_packet did not write exactly the packet'
                    if down and r['sent']:
                        return f'event {k}: packet written although the face is down'
                    continue
                if r['sent'] and (not in_time):
                    return f'event {k}: reply transmitted after the Interest lifetime elapsed (offset {off - L:+d} ms)'
                if r['sent'] and down:
                    return f'event {k}: reply transmitted although the face is down'
                if r['exc'] is not None:
                    if in_time and not down:
                        return f'event {k}: reply raised {r["exc"]}'
                    continue                      # raising is a truthful report of "not sent"
                truthy = r['ret'] not in ('F', 'N')
                if truthy != bool(r['sent']):
                    return (f'event {k}: reply returned {"truthy" if truthy else "falsy"} ({r["ret"]}) but the packet was '
                            f'{"sent" if r["sent"] else "not sent"}')
                if in_time and not down:
                    if r['sent'] != [want]:
                        return f'event {k}: reply within the lifetime (offset {off - L:+d} ms) did not transmit exactly the packet'
    if impl['loop_errors']:
        return f'background task error: {impl["loop_errors"][:2]}'
    return None


def _validator_in_force(case, impl):
    """a refused attach (and a failed detach) changes nothing: also not the validator in force at that prefix;
    an accepted attach installs its own validator"""
    if case.get('fe', impl.get('fe')) == 'disp':
        return None
    tags_ = {}
    for k, (ev, rec) in enumerate(zip(case['events'], impl['trace'])):
        if ev[0] not in ('a', 'd') or 'vtag' not in rec:
            continue
        key = tuple(ev[1])
        if ev[0] == 'a':
            if rec['exc'] is None and ev[2] is not None:
                tags_[key] = k
            elif rec['exc'] is None:
                tags_.pop(key, None)      # attaching "no handler": outside the property, do not judge this prefix
                continue
            want = tags_.get(key)
            if key in tags_ and rec['vtag'] != want:
                return (f'event {k}: after a {"refused" if rec["exc"] else "successful"} attach the validator in force at '
                        f'the prefix is the one of event {rec["vtag"]}, expected event {want}')
        elif rec['exc'] is None:
            tags_.pop(key, None)
    return None


def oracle(case, impl):
    return _spec_replay(case, impl) or _validator_in_force(case, impl)


def _stats(case):
    """(max number of attached prefixes an Interest had to choose from, #interests)"""
    table = set()
    best = 0
    for ev in case['events']:
        if ev[0] == 'a' and ev[2] is not None:
            table.add(tuple(ev[1]))
        elif ev[0] == 'd':
            table.discard(tuple(ev[1]))
        elif ev[0] == 'i':
            n = tuple(ev[1])
            best = max(best, sum(1 for i in range(len(n) + 1) if n[:i] in table))
    return best


def nontrivial(case, impl):
    return _stats(case) >= 2


def tags(case, impl):
    t = ['fe:' + case['fe'], 'choices:%d' % _stats(case)]
    if case.get('labels'):
        t.append('typed-or-empty-components')
    last = {}
    for ev, rec in zip(case['events'], impl['trace']):
        if ev[0] in ('a', 'd'):
            how, _, via = ev[-1].partition('@')
            via, *flags = via.split('+')
            t.append('%s:%s' % (ev[0], rec['exc'] or 'ok'))
            t.append('repr:' + how)
            if via:
                t.append('via:' + via)
            if flags:
                t.append('legacy-route-options:' + '+'.join(flags) + (':refused' if rec['exc'] else ''))
            if ev[0] == 'a' and ev[2] is None:
                t.append('null-handler')
            key = tuple(ev[1])
            if ev[0] == 'a' and rec['exc'] is None and ev[2] is not None and last.get(key) in ('d', 'null'):
                t.append('attach-after-' + ('detach' if last[key] == 'd' else 'null-handler'))
            if rec['exc'] is None:
                last[key] = 'd' if ev[0] == 'd' else ('null' if ev[2] is None else 'a')
        elif ev[0] == 'r':
            t.append('deferred-reply:' + ('issued' if rec.get('done') else 'no-closure'))
        else:
            t.append('interest:' + ('delivered' if rec['calls'] else 'dropped'))
            L = 4000 if ev[3] is None else ev[3]
            for (off, _), r in zip(ev[6], rec['replies']):
                t.append('reply:%s%s' % ('before' if off < L else 'at' if off == L else 'after', '-facedown' if ev[5] else ''))
            if ev[4] is not None:
                t.append('pit-token')
            if ev[3] == 0:
                t.append('lifetime-0')
            for k in iopts(ev):
                if k == 'vdelay':
                    t.append('slow-validator:' + ('handler-ran-late' if ev[7][k] > L else 'in-time'))
                elif k == 'rx':
                    t.append('rx:' + ev[7][k])
                elif k == 'appn':
                    n = ev[7][k][0]
                    t.append('interest-app-size:' + ('<2048' if n < 2048 else '<8192' if n < 8192 else '<65536' if n < 65536 else '>=65536'))
                elif k == 'xd':
                    t.append('executor-busy:' + ('longer-than-lifetime' if ev[7][k] > L else 'within-lifetime'))
                elif k != 'id':
                    t.append('interest-' + k + ('-empty' if k == 'app' and ev[7][k] == '' else ''))
            if len(ev[1]) > DEPTH + 2 or any(len(x) > 100 for x in ev[1]):
                t.append('long-name')
            if ev[3] is not None and ev[3] >= 255 and ev[3] not in (4000, 60000):
                t.append('lifetime-boundary:%d' % ev[3])
    return t


def finding_key(case, impl, why):
    w = re.sub(r'event \d+: ', '', why)
    w = re.sub(r'/[a-z/]*', '', w)
    w = re.sub(r'\(offset [^)]*\)|\[[^\]]*\]|\(\w+\)', '', w)
    w = re.sub(r'[^a-zA-Z]+', '-', w).strip('-').lower()
    return w[:70]


LEVEL_TEXT = ('Lean 4 theorems over a hand-written model of the handler table of both front-ends and the Dispatcher (attach = '
              'normalise/setdefault/refuse-if-occupied, detach = del, dispatch = longest_prefix + callback check, the v2 reply '
              'closure): for every attach/detach history and every Interest name the invoked handler is exactly the one attached '
              'at the longest attached prefix (none if none) - stated against an abstract table Name -> handler; duplicate attach '
              'refused with the table unchanged; detach frame theorems; reply returns True <-> bytes sent <-> now <= deadline. '
              'The model is tied to the code on every run by differential execution against the real NDNApp (v2 and legacy) on a '
              'virtual-time loop and the real Dispatcher, plus the property oracle evaluated on the implementation.')
LEVEL_NOTE = ('Proof is about the model; model=code is sampled (differential testing) and, for the constants / operators / '
              'guard shapes listed under TRUSTED, read off the source text on every run (lean/NdnGen/C04.lean, pinned by the '
              'gen_* theorems), not proved. pygtrie is modelled as a map; '
              'name-representation equivalence is delegated to C09 and sampled here; the model describes the repaired reply() '
              '(candidate fix C04-reply-returns-true).')
TECHNIQUE = 'Lean 4 proof (induction over attach/detach histories, refinement to an abstract table) + model/implementation correspondence check'
DESIGN_REF = 'DESIGN.md section 7, C04'
