"""Tables of src/ndn/app_support/light_versec/{binary,checker,compiler,grammar,validator}.py -> lean/NdnGen/C11.lean,
C12.lean, C13.lean (used by c11.py / c12.py / c13.py; each property regenerates its own file).

Constants are the live values of the imported modules (the repo copy under test); control-flow facts (which exception
class is raised under which test, the order of the compiler passes, the pieces of pattern_movement's merge key, the
tests of Checker._match / _check_cons / check) are read from the ast and written down as normalised source text
(`ast.unparse`: no comments, layout or redundant parentheses).  A shape that is not recognised is emitted as
`unknown…`, so that the pinned theorem fails instead of a value being guessed."""
import ast, os, re


def _q(s):
    return '"' + s.replace('\\', '\\\\').replace('"', '\\"').replace('\n', '\\n') + '"'


def _strs(l):
    return '[' + ', '.join(_q(x) for x in l) + ']'


def _src(repo, f):
    return open(os.path.join(repo, 'src', 'ndn', 'app_support', 'light_versec', f)).read()


def _walk(node):
    """ast.walk in source order"""
    return sorted((n for n in ast.walk(node) if hasattr(n, 'lineno')), key=lambda n: (n.lineno, n.col_offset))


def _find(tree, *path):
    """a (nested) function / class by name path"""
    cur = tree
    for name in path:
        nxt = None
        for n in ast.walk(cur):
            if n is not cur and isinstance(n, (ast.FunctionDef, ast.AsyncFunctionDef, ast.ClassDef)) and n.name == name:
                nxt = n
                break
        if nxt is None:
            return None
        cur = nxt
    return cur


def _msg(node):
    """constant skeleton of a message: f-string with substitutions as {}"""
    if isinstance(node, ast.Constant) and isinstance(node.value, str):
        return node.value
    if isinstance(node, ast.JoinedStr):
        return ''.join(str(v.value) if isinstance(v, ast.Constant) else '{}' for v in node.values)
    return 'unknown'


def _exc_names(t):
    if t is None:
        return ['BaseException']
    if isinstance(t, ast.Tuple):
        return sorted(ast.unparse(e) for e in t.elts)
    return [ast.unparse(t)]


def raise_sites(fn):
    """[(exception class, guard, message skeleton)] of every `raise` in a function (nested functions included), in
    source order.  guard = the test of the nearest enclosing `if` (`not (…)` for its else branch), or
    `except A|B` for a handler, or `` when unconditional; loops are transparent."""
    out = []

    def walk(stmts, guard):
        for s in stmts:
            if isinstance(s, ast.Raise):
                cls, msg = 'unknown', ''
                e = s.exc
                if isinstance(e, ast.Call):
                    cls = ast.unparse(e.func)
                    msg = _msg(e.args[0]) if e.args else ''
                elif e is not None:
                    cls = ast.unparse(e)
                else:
                    cls = 're-raise'
                out.append((cls, guard, msg))
            elif isinstance(s, ast.If):
                t = ast.unparse(s.test)
                walk(s.body, t)
                walk(s.orelse, f'not ({t})')
            elif isinstance(s, (ast.For, ast.While, ast.AsyncFor)):
                walk(s.body, guard)
                walk(s.orelse, guard)
            elif isinstance(s, (ast.With, ast.AsyncWith)):
                walk(s.body, guard)
            elif isinstance(s, ast.Try):
                walk(s.body, guard)
                for h in s.handlers:
                    walk(h.body, 'except ' + '|'.join(_exc_names(h.type)))
                walk(s.orelse, guard)
                walk(s.finalbody, guard)
            elif isinstance(s, (ast.FunctionDef, ast.AsyncFunctionDef)):
                walk(s.body, '')
    if fn is not None:
        walk(fn.body, '')
    return out


def except_clauses(tree):
    """[(function, caught classes sorted)] for every `except` of a module, in source order"""
    out = []

    def walk(node, fname):
        for ch in ast.iter_child_nodes(node):
            if isinstance(ch, (ast.FunctionDef, ast.AsyncFunctionDef)):
                walk(ch, ch.name)
            elif isinstance(ch, ast.ExceptHandler):
                out.append((fname, _exc_names(ch.type)))
                walk(ch, fname)
            else:
                walk(ch, fname)
    walk(tree, '<module>')
    return out


def if_tests(fn):
    """normalised tests of every `if` / `elif` / `while` / conditional expression of a function, in source order"""
    out = []
    if fn is None:
        return ['unknown']

    class V(ast.NodeVisitor):
        def visit_If(self, n):
            out.append(ast.unparse(n.test))
            self.generic_visit(n)

        def visit_While(self, n):
            out.append('while ' + ast.unparse(n.test))
            self.generic_visit(n)

        def visit_IfExp(self, n):
            out.append(ast.unparse(n.test))
            self.generic_visit(n)
    V().visit(fn)
    return out


def _lean_triples(name, doc, rows):
    body = ',\n    '.join(f'({_q(a)}, {_q(b)}, {_q(c)})' for a, b, c in rows)
    return [f'/-- {doc} -/', f'def {name} : List (String × String × String) := [' + ('\n    ' + body if rows else '') + ']']


# ------------------------------------------------------------------------------------------- binary.py
def _field_kind(f, tm):
    def base(x):
        if isinstance(x, tm.ModelField):
            return 'model:' + x.model_type.__name__
        if isinstance(x, tm.UintField):
            return 'uint' if x.fixed_len is None else f'uint{x.fixed_len}'
        if isinstance(x, tm.BoolField):
            return 'bool'
        if isinstance(x, tm.NameField):
            return 'name'
        if isinstance(x, tm.BytesField):
            return 'string' if x.is_string else 'bytes'
        return 'unknown:' + type(x).__name__
    if isinstance(f, tm.RepeatedField):
        return 'rep-' + base(f.element_type), f.element_type.type_num
    return base(f), f.type_num


def _tokens(cls, tm):
    """the wire layout of a model class as a flat token list, nested models expanded:
    (kind, type number); a nested model is `model … end`, a repeated field is prefixed by `rep`"""
    out = []

    def one(x):
        if isinstance(x, tm.RepeatedField):
            out.append(('rep', 0))
            one(x.element_type)
        elif isinstance(x, tm.ModelField):
            out.append(('model', x.type_num))
            for g in x.model_type._encoded_fields:
                one(g)
            out.append(('end', x.type_num))
        elif isinstance(x, tm.UintField):
            out.append(('uint', x.type_num))
        elif isinstance(x, tm.BoolField):
            out.append(('bool', x.type_num))
        elif isinstance(x, tm.NameField):
            out.append(('name', x.type_num))
        elif isinstance(x, tm.BytesField):
            out.append(('string' if x.is_string else 'bytes', x.type_num))
        else:
            out.append(('unknown', 0))
    for f in cls._encoded_fields:
        one(f)
    return out


def binary_tables():
    from ndn.app_support.light_versec import binary as bny
    from ndn.encoding import tlv_model as tm
    out = ['/-- `binary.MIN_SUPPORTED_VERSION`, `binary.VERSION` (live values) -/',
           f'def minSupportedVersion : Nat := {int(bny.MIN_SUPPORTED_VERSION)}',
           f'def version : Nat := {int(bny.VERSION)}', '']
    tn = [(k, v) for k, v in vars(bny.TypeNumber).items() if not k.startswith('_') and isinstance(v, int)]
    out += ['/-- `binary.TypeNumber`, in the order of the class body -/',
            'def typeNumbers : List (String × Nat) := [' + ', '.join(f'({_q(k)}, {v})' for k, v in tn) + ']', '']
    classes = [(k, v) for k, v in vars(bny).items()
               if isinstance(v, type) and issubclass(v, tm.TlvModel) and v.__module__ == bny.__name__]
    rows = []
    for name, cls in classes:
        fs = []
        for f in cls._encoded_fields:
            kind, num = _field_kind(f, tm)
            fs.append(f'({_q(f.name)}, {_q(kind)}, {num})')
        rows.append(f'({_q(name)}, [' + ', '.join(fs) + '])')
    out += ['/-- the TlvModel classes of binary.py in definition order: (field name, kind, Type number) in encoding order -/',
            'def classes : List (String × List (String × String × Nat)) := [\n    ' + ',\n    '.join(rows) + ']', '']
    toks = _tokens(bny.LvsModel, tm) if hasattr(bny, 'LvsModel') else [('unknown', 0)]
    out += ['/-- the wire layout of `LvsModel`, nested classes expanded (the same flattening of lean/NdnGen/C08.lean\'s '
            '`binary_LvsModel` is pinned to this) -/',
            'def lvsModelTokens : List (String × Nat) := [' + ', '.join(f'({_q(k)}, {n})' for k, n in toks) + ']', '']
    return out


# ------------------------------------------------------------------------------------------- merge key
def _piece(e):
    """one operand of the string concatenation that builds the key"""
    if isinstance(e, ast.Constant) and isinstance(e.value, str):
        return repr(e.value)
    return ast.unparse(e)


def _pieces(e):
    if isinstance(e, ast.BinOp) and isinstance(e.op, ast.Add):
        return _pieces(e.left) + _pieces(e.right)
    return [_piece(e)]


def merge_key(fn, var='cons_set_str'):
    """(skeleton text, [pieces of every statement that extends the key, in source order], [third element of every
    return])"""
    emits, rets = [], []

    def has_key(n):
        return any(isinstance(x, ast.Name) and x.id == var for x in ast.walk(n))

    def relevant(stmts):
        return any(has_key(s) or any(isinstance(x, (ast.Continue, ast.Break, ast.Return)) for x in ast.walk(s))
                   for s in stmts)

    def sk(stmts):
        out = ''
        for s in stmts:
            if isinstance(s, ast.AugAssign) and isinstance(s.target, ast.Name) and s.target.id == var:
                if isinstance(s.op, ast.Add):
                    emits.append(_pieces(s.value))
                    out += f'E{len(emits) - 1};'
                else:
                    out += 'unknown-augassign;'
            elif isinstance(s, ast.Assign) and any(isinstance(t, ast.Name) and t.id == var for t in s.targets):
                emits.append(_pieces(s.value))
                out += f'S{len(emits) - 1};'
            elif isinstance(s, ast.For):
                if relevant(s.body):
                    out += f'for {ast.unparse(s.target)} in {ast.unparse(s.iter)}{{{sk(s.body)}}}'
            elif isinstance(s, ast.While):
                out += f'unknown-while {ast.unparse(s.test)}{{{sk(s.body)}}}'
            elif isinstance(s, ast.If):
                if relevant(s.body) or relevant(s.orelse):
                    out += f'if {ast.unparse(s.test)}{{{sk(s.body)}}}'
                    if s.orelse:
                        out += f'else{{{sk(s.orelse)}}}'
            elif isinstance(s, ast.Continue):
                out += 'continue;'
            elif isinstance(s, ast.Break):
                out += 'break;'
            elif isinstance(s, ast.Return):
                v = s.value
                if isinstance(v, ast.Tuple) and len(v.elts) == 3:
                    rets.append(_pieces(v.elts[2]))
                    out += f'R{len(rets) - 1};'
                else:
                    out += 'unknown-return;'
            elif has_key(s):
                out += 'unknown:' + ast.unparse(s)[:60] + ';'
        return out
    if fn is None:
        return 'unknown', [], []
    return sk(fn.body), emits, rets


# ------------------------------------------------------------------------------------------- C11
def generate_c11(repo):
    from ndn.app_support.light_versec import grammar
    ctree = ast.parse(_src(repo, 'compiler.py'))
    ktree = ast.parse(_src(repo, 'checker.py'))
    out = ['/- GENERATED by harness/props/lvs_extract.py from src/ndn/app_support/light_versec/{compiler,checker,grammar}.py '
           '(ast + live grammar text). Do not edit. -/', 'namespace Ndn.Gen.C11', '']

    # pass order of Compiler.compile
    comp = _find(ctree, 'Compiler', 'compile')
    calls, assigns = [], []
    if comp is not None:
        for s in comp.body:
            for n in _walk(s):
                if (isinstance(n, ast.Call) and isinstance(n.func, ast.Attribute) and isinstance(n.func.value, ast.Name)
                        and n.func.value.id == 'self' and n.func.attr.startswith('_')):
                    calls.append(n.func.attr + '(' + ', '.join(ast.unparse(a) for a in n.args) + ')')
            if isinstance(s, ast.Assign) and len(s.targets) == 1 and isinstance(s.targets[0], ast.Attribute) \
                    and isinstance(s.targets[0].value, ast.Name) and s.targets[0].value.id in ('ret', 'self') \
                    and s.targets[0].attr in ('version', 'start_id', 'named_pattern_cnt', 'nodes', 'temp_tag_index'):
                assigns.append((ast.unparse(s.targets[0]), ast.unparse(s.value)))
    out += ['/-- the calls `self._…(…)` of `Compiler.compile`, in the order they are made -/',
            'def passOrder : List String := ' + _strs(calls or ['unknown']),
            '/-- what `Compiler.compile` stores into the model header and the temporary-tag counter -/',
            'def compileAssigns : List (String × String) := [' + ', '.join(f'({_q(a)}, {_q(b)})' for a, b in assigns) + ']']
    cl = _find(ctree, 'compile_lvs')
    cl_calls = []
    if cl is not None:
        for n in _walk(cl):
            if isinstance(n, ast.Call):
                f = ast.unparse(n.func)
                if f in ('lark.Lark', 'parser.parse', 'Compiler', 'compiler.compile'):
                    kw = sorted(f'{k.arg}={ast.unparse(k.value)}' for k in n.keywords)
                    cl_calls.append(f + '(' + ', '.join([ast.unparse(a) for a in n.args] + kw) + ')')
    out += ['/-- `compile_lvs`: parser construction, parse, compiler construction, compile -/',
            'def compileLvsCalls : List String := ' + _strs(cl_calls or ['unknown']), '']

    # merge key
    pm = _find(ctree, 'Compiler', 'RuleChain', 'pattern_movement')
    skel, emits, rets = merge_key(pm)
    out += ['/-- `RuleChain.pattern_movement`: control-flow skeleton of everything that touches the merge key '
            '(`S`/`E` = the key is set / extended by `keyEmits[i]`, `R` = return with key `keyReturns[i]`) -/',
            'def keySkeleton : String := ' + _q(skel),
            '/-- operands of the concatenations that build the key, statement by statement -/',
            'def keyEmits : List (List String) := [' + ', '.join(_strs(e) for e in emits) + ']',
            'def keyReturns : List (List String) := [' + ', '.join(_strs(e) for e in rets) + ']']
    # the separators as strings, for the theorems that tie the model's printing functions to them
    lits = []
    for e in emits + rets:
        for p in e:
            if len(p) >= 2 and p[0] in '\'"':
                try:
                    v = ast.literal_eval(p)
                except Exception:
                    continue
                if v not in lits:
                    lits.append(v)
    out += ['/-- the distinct string literals of the key, in order of first use -/',
            'def keyLiterals : List String := ' + _strs(lits), '']

    # node generation: how keys are grouped, how a temporary tag is numbered
    gn = _find(ctree, 'Compiler', '_generate_node')
    gn_assign = []
    if gn is not None:
        for n in _walk(gn):
            if isinstance(n, ast.Assign) and len(n.targets) == 1:
                t = ast.unparse(n.targets[0])
                if t in ('p_move_strs', 'edge.tag', 'self.temp_tag_index', 'node.id', 'node.parent'):
                    gn_assign.append((t, ast.unparse(n.value)))
            if isinstance(n, ast.AugAssign) and ast.unparse(n.target) == 'self.temp_tag_index':
                gn_assign.append(('self.temp_tag_index', type(n.op).__name__ + ' ' + ast.unparse(n.value)))
    out += ['/-- `_generate_node`: node numbering, grouping of the moves, tag of a pattern edge -/',
            'def generateNodeAssigns : List (String × String) := [' + ', '.join(f'({_q(a)}, {_q(b)})' for a, b in gn_assign) + ']',
            '/-- its tests, except the dictionary-initialisation idiom `k not in self.rule_node_ids` (same as `setdefault`) -/',
            'def generateNodeTests : List String := ' + _strs([t for t in if_tests(gn) if not re.fullmatch(r'\S+ not in self\.rule_node_ids', t)]), '']

    # grammar terminals
    g = getattr(grammar, 'lvs_grammar', '')
    terms = []
    for nm in ('TAG_IDENT', 'RULE_IDENT', 'FN_IDENT'):
        m = re.search(r'^\s*' + nm + r'\s*:\s*(.+?)\s*$', g, re.M)
        terms.append((nm, m.group(1) if m else 'unknown'))
    imports = sorted(re.findall(r'^\s*%import\s+(.+?)\s*$', g, re.M))
    out += ['/-- the identifier terminals of grammar.py -/',
            'def grammarTerminals : List (String × String) := [' + ', '.join(f'({_q(a)}, {_q(b)})' for a, b in terms) + ']',
            'def grammarImports : List String := ' + _strs(imports), '']

    # the matcher
    out += ['/-- tests of `Checker._match`, in source order -/',
            'def matchTests : List String := ' + _strs(if_tests(_find(ktree, 'Checker', '_match'))),
            '/-- tests of `Checker._check_cons`, in source order, and the argument list handed to a user function -/',
            'def checkConsTests : List String := ' + _strs(if_tests(_find(ktree, 'Checker', '_check_cons')))]
    cc = _find(ktree, 'Checker', '_check_cons')
    args = 'unknown'
    if cc is not None:
        for n in _walk(cc):
            if isinstance(n, ast.Assign) and ast.unparse(n.targets[0]) == 'args':
                args = ast.unparse(n.value)
    out += ['def checkConsArgs : String := ' + _q(args)]
    m = _find(ktree, 'Checker', 'match')
    out += ['/-- `Checker.match`: which trailing component is dropped, and the name printed for a node without rule name -/',
            'def matchDigestStrip : List (String × String × List Nat) := ' + _lean_strip(digest_strip(m)),
            'def matchMatchCalls : List String := ' + _strs(match_calls(m)),
            'def anonymousPrefix : List String := ' + _strs(anon_prefix(m)), '']
    out += ['end Ndn.Gen.C11', '']
    return '\n'.join(out)


def _lean_strip(rows):
    return '[' + ', '.join(f'({_q(a)}, {_q(b)}, [' + ', '.join(str(x) for x in c) + '])' for a, b, c in rows) + ']'


def digest_strip(fn):
    """[(variable, 'if' | 'while' | 'unknown', sorted component types)] for every statement of the form
    `if Component.get_type(X[-1]) == Component.TYPE_…: X = X[:-1]` (live values of the constants)"""
    from ndn.encoding import Component
    out = []
    if fn is None:
        return [('unknown', 'unknown', [])]
    for n in _walk(fn):
        if not isinstance(n, (ast.If, ast.While)):
            continue
        d = ast.dump(n.test)
        if 'get_type' not in d:
            continue
        kind = 'if' if isinstance(n, ast.If) and not n.orelse else ('while' if isinstance(n, ast.While) else 'unknown')
        t = n.test
        var, types = 'unknown', None
        if (isinstance(t, ast.Compare) and len(t.ops) == 1 and isinstance(t.left, ast.Call)
                and ast.unparse(t.left.func) == 'Component.get_type' and len(t.left.args) == 1
                and isinstance(t.left.args[0], ast.Subscript) and ast.unparse(t.left.args[0].slice) == '-1'):
            var = ast.unparse(t.left.args[0].value)
            c = t.comparators[0]
            els = None
            if isinstance(t.ops[0], ast.Eq):
                els = [c]
            elif isinstance(t.ops[0], ast.In) and isinstance(c, (ast.Tuple, ast.List, ast.Set)):
                els = list(c.elts)
            if els is not None:
                vals = []
                for e in els:
                    u = ast.unparse(e)
                    if u.startswith('Component.') and isinstance(getattr(Component, u[10:], None), int):
                        vals.append(getattr(Component, u[10:]))
                    elif isinstance(e, ast.Constant) and isinstance(e.value, int):
                        vals.append(e.value)
                    else:
                        vals = None
                        break
                types = sorted(vals) if vals is not None else None
        else:
            kind = 'unknown'
        body_ok = (len(n.body) == 1 and isinstance(n.body[0], ast.Assign)
                   and ast.unparse(n.body[0]) == f'{var} = {var}[:-1]')
        if not body_ok or types is None:
            kind = 'unknown'
        out.append((var, kind, types or []))
    return out


def match_calls(fn):
    out = []
    if fn is not None:
        for n in _walk(fn):
            if isinstance(n, ast.Call) and ast.unparse(n.func) == 'self._match':
                out.append(', '.join(ast.unparse(a) for a in n.args))
    return out


def anon_prefix(fn):
    out = []
    if fn is not None:
        for n in _walk(fn):
            if (isinstance(n, ast.BinOp) and isinstance(n.op, ast.Add) and isinstance(n.left, ast.Constant)
                    and isinstance(n.left.value, str) and isinstance(n.right, ast.Call)
                    and ast.unparse(n.right.func) == 'str'):
                out.append(n.left.value)
    return out


# ------------------------------------------------------------------------------------------- C12
def generate_c12(repo):
    ctree = ast.parse(_src(repo, 'compiler.py'))
    ktree = ast.parse(_src(repo, 'checker.py'))
    vtree = ast.parse(_src(repo, 'validator.py'))
    chk = _find(ktree, 'Checker', 'check')
    out = ['/- GENERATED by harness/props/lvs_extract.py from src/ndn/app_support/light_versec/{checker,compiler,validator}.py '
           '(ast + live Component constants). Do not edit. -/', 'namespace Ndn.Gen.C12', '',
           '/-- `Checker.check`: (name variable, statement kind, component types) of each "drop the last component" statement -/',
           'def checkDigestStrip : List (String × String × List Nat) := ' + _lean_strip(digest_strip(chk)),
           '/-- arguments of the two `self._match(…)` calls of `check`, outer loop first -/',
           'def checkMatchCalls : List String := ' + _strs(match_calls(chk)),
           '/-- tests of `check` (besides the digest tests: the signer test), and what it returns, in source order -/',
           'def checkTests : List String := ' + _strs([t for t in if_tests(chk) if 'get_type' not in t])]
    rets = []
    if chk is not None:
        for n in _walk(chk):
            if isinstance(n, ast.Return):
                rets.append(ast.unparse(n.value) if n.value is not None else 'None')
    out += ['def checkReturns : List String := ' + _strs(rets), '']
    out += ['/-- every `except` clause of checker.py / validator.py: (function, caught classes) -/',
            'def checkerExcepts : List (String × List String) := [' + ', '.join(
                f'({_q(f)}, {_strs(c)})' for f, c in except_clauses(ktree)) + ']',
            'def validatorExcepts : List (String × List String) := [' + ', '.join(
                f'({_q(f)}, {_strs(c)})' for f, c in except_clauses(vtree)) + ']']
    vn = _find(vtree, 'lvs_validator', 'validate_name')
    vrets = []
    if vn is not None:
        for n in _walk(vn):
            if isinstance(n, ast.Return):
                vrets.append(ast.unparse(n.value) if n.value is not None else 'None')
    out += ['/-- what `lvs_validator`.validate_name returns, in source order -/',
            'def validateNameReturns : List String := ' + _strs(vrets), '']
    fx = _find(ctree, 'Compiler', '_fix_signing_references')
    ext, asg = [], []
    if fx is not None:
        for n in _walk(fx):
            if isinstance(n, ast.Call) and isinstance(n.func, ast.Attribute) and n.func.attr == 'extend':
                ext.append(ast.unparse(n.func.value) + ' <- ' + ', '.join(ast.unparse(a) for a in n.args))
            if isinstance(n, ast.Assign) and ast.unparse(n.targets[0]) == 'node.sign_cons':
                asg.append(ast.unparse(n.value))
    out += ['/-- `_fix_signing_references`: what is collected for a signer, and what is stored -/',
            'def fixSigningExtend : List String := ' + _strs(ext),
            'def fixSigningStore : List String := ' + _strs(asg), '', 'end Ndn.Gen.C12', '']
    return '\n'.join(out)


# ------------------------------------------------------------------------------------------- C13
def generate_c13(repo):
    ctree = ast.parse(_src(repo, 'compiler.py'))
    ktree = ast.parse(_src(repo, 'checker.py'))
    out = ['/- GENERATED by harness/props/lvs_extract.py from src/ndn/app_support/light_versec/{binary,checker,compiler}.py '
           '(live constants and field lists + ast). Do not edit. -/', 'namespace Ndn.Gen.C13', '']
    out += binary_tables()
    sc = _find(ktree, 'Checker', '_sanity_check')
    out += _lean_triples('loaderRaises', 'every `raise` of `Checker._sanity_check` (and its `dfs`), in source order: '
                         '(exception class, guard, message skeleton)', raise_sites(sc))
    calls = []
    if sc is not None:
        for s in sc.body:
            if isinstance(s, ast.Expr) and isinstance(s.value, ast.Call):
                calls.append(ast.unparse(s.value))
    out += ['/-- the calls `_sanity_check` makes as statements (the walk from the start node, the signing-cycle test) -/',
            'def loaderCalls : List String := ' + _strs(calls), '']
    out += _lean_triples('topOrderRaises', '`compiler.top_order`', raise_sites(_find(ctree, 'top_order')))
    rows = []
    cmp_cls = _find(ctree, 'Compiler')
    if cmp_cls is not None:
        for fn in cmp_cls.body:
            if isinstance(fn, ast.FunctionDef):
                for cls, guard, msg in raise_sites(fn):
                    rows.append((fn.name, cls, guard, msg))
    body = ',\n    '.join(f'({_q(a)}, {_q(b)}, {_q(c)}, {_q(d)})' for a, b, c, d in rows)
    out += ['/-- every `raise` of the methods of `Compiler`, in source order: (method, exception class, guard, message skeleton) -/',
            'def compilerRaises : List (String × String × String × String) := [' + ('\n    ' + body if rows else '') + ']', '']
    out += ['/-- every `except` clause of compiler.py: (function, caught classes) -/',
            'def compilerExcepts : List (String × List String) := [' + ', '.join(
                f'({_q(f)}, {_strs(c)})' for f, c in except_clauses(ctree)) + ']',
            '/-- the exception classes compiler.py and checker.py define: (name, bases) -/']
    ex = []
    for tree in (ctree, ktree):
        for n in tree.body:
            if isinstance(n, ast.ClassDef) and any('Exception' in ast.unparse(b) or 'Error' in ast.unparse(b) for b in n.bases):
                ex.append((n.name, [ast.unparse(b) for b in n.bases]))
    out += ['def exceptionClasses : List (String × List String) := [' + ', '.join(f'({_q(a)}, {_strs(b)})' for a, b in ex) + ']',
            '', 'end Ndn.Gen.C13', '']
    return '\n'.join(out)
