"""C06 — receive path: exact stream framing, and no failure on any delivered bytes
(src/ndn/transport/stream_face.py, udp_face.py, encoding/tlv_var.py, appv2.py, app.py)."""
import asyncio, contextlib, hashlib, logging, os, re, struct
import vloop
from apphelp import AppRig
from props import c06_extract

PROP = 'C06'
TITLE = 'Receive path: exact stream framing, and no failure on any delivered bytes'
LEAN_TARGETS = ['NdnProofs.Props.C06', 'NdnProofs.Props.C06Tasks']
THEOREMS = [
    'Ndn.C06.frames_concat', 'Ndn.C06.frames_never_partial',
    # the cut of the stream into reads is in the model (NdnModel/StreamReader.lean): every list of chunks
    'Ndn.C06.stream_caught_sufficient', 'Ndn.C06.chunks_irrelevant', 'Ndn.C06.chunked_concat',
    'Ndn.C06.never_partial_chunked', 'Ndn.C06.handed_over_prefix', 'Ndn.C06.trace_chunked', 'Ndn.C06.reset_mid_packet',
    'Ndn.C06.gen_safe', 'Ndn.C06.receive_total', 'Ndn.C06.receive_total_of_safe',
    'Ndn.C06.receive_frame', 'Ndn.C06.receive_preserves_wf', 'Ndn.C06.udp_total',
    # byte-level instantiation (the decoders are the C07 models, no longer black boxes)
    'Ndn.C06.docErr_iff_raisable', 'Ndn.C06.bytes_decoders_raise_only', 'Ndn.C06.receive_bytes_total',
    'Ndn.C06.receive_bytes_frame',
    # the task layer (NdnModel/FaceTasks.lean): one task per packet under an event loop, for every event history
    'Ndn.C06.tasks_exactly_once_in_order', 'Ndn.C06.tasks_delivered_when_drained',
    'Ndn.C06.tasks_chunks_and_turns_irrelevant', 'Ndn.C06.tasks_agree_with_chunked_machine',
    'Ndn.C06.tasks_never_partial', 'Ndn.C06.tasks_end_mid_packet', 'Ndn.C06.tasks_end_shuts_down',
    'Ndn.C06.tasks_shutdown_guarantee', 'Ndn.C06.tasks_never_withdrawn', 'Ndn.C06.tasks_isolated',
    'Ndn.C06.tasks_tables_exactly_once', 'Ndn.C06.tasks_last_pass_after_cleanup', 'Ndn.C06.tasks_no_background_error',
    'Ndn.C06.tasks_transport_error', 'Ndn.C06.tasks_ended_not_running',
    'Ndn.C06.udp_tasks_exactly_once_in_order', 'Ndn.C06.udp_tasks_no_callback_error', 'Ndn.C06.udp_tasks_isolated',
]
PARTIAL = {}
TRUSTED = [
    'C06: asyncio.StreamReader behaves as modelled in NdnModel/StreamReader.lean (CPython streams.py read by hand: '
    'feed_data appends to the buffer and wakes the waiter, an empty chunk wakes nobody; readexactly(n) raises the exception '
    'set by the transport, returns b"" for n = 0, returns the first n buffered bytes as soon as there are n, raises '
    'IncompleteReadError at EOF with fewer, otherwise waits without consuming anything; set_exception makes the pending '
    'wait raise), and the face task runs to its next suspension between two transport events (asyncio runs the woken task '
    'before the transport\'s next callback). The cut of the stream into reads is NOT abstracted any more: chunks_irrelevant / '
    'never_partial_chunked / trace_chunked / reset_mid_packet are proved for every list of chunks. Tie: every stream case '
    'feeds a real asyncio.StreamReader chunk by chunk (every cut position of short streams, random k-cuts, byte-by-byte, '
    'empty chunks) through the real StreamFace.run on the virtual loop, settles after each feed and compares the number of '
    'packets handed over after EACH chunk, the packets, the undelivered remainder and the way the task ended with the '
    'chunked machine of the model; the except tuple of StreamFace.run is regenerated from the source (ast) into '
    'lean/NdnGen/C06.lean (streamCaught)',
    'C06: the "future already done" guards of InterestTreeNode.nack_interest / satisfy (appv2: the guard of '
    'PendingIntEntry.satisfy) are read off the source text into lean/NdnGen/C06.lean (nackDoneGuard, satisfyDoneGuard; '
    'shapes recognised by props/pit_extract.py, anything else counts as absent) and demanded by `safe` (gen_safe); the '
    'reception model itself holds live pending Interests only - a packet arriving in the loop turn in which its Interest '
    'ended is covered by the oracle (`turn` cases) and by these guards, not by a model state',
    'C06: that the byte-level decoders (parse_lp_packet_v2, parse_tl_num, parse_interest, parse_data) raise only '
    '{DecodeError, IndexError, ValueError, struct.error, TypeError} is PROVED for every byte string for the decoder models '
    '(Ndn.Packet.decodePacket over the packet schemas regenerated from the live classes, Ndn.parseTlNum: C07 theorems '
    'shipped_decoders_error_classes / parseTlNum_doc, composed in bytes_decoders_raise_only and receive_bytes_total). '
    'What remains trusted is model = code: the decoder models are tied to the real decoders by C07\'s correspondence '
    '(and C01/C02\'s for the Interest digest pointers), and on every run of this check the byte-level pipeline '
    '(receiveBytes: C07 decoder models + fact extraction + pipeline, computed from the bytes alone) is compared with '
    'the real _receive on every packet of the malformed stream; lean/NdnGen/C07.lean is refreshed from the source by '
    'this check as well',
    'C06: receive_total / receive_frame keep the decoders as black boxes of the model (outcome = facts or exception '
    'class); the pipeline around them, the generated except tuples and the pending-Interest / handler bookkeeping are '
    'modelled. Pending Interests are live (not cancelled, not timed out: those histories are property C03); '
    'params_sha256_checker and the validators do not raise and pass; handlers do not raise; SHA-256 is a parameter of '
    'the theorems (any function) and NdnModel/Sha256.lean in the driver',
    'C06: the task layer is modelled (NdnModel/FaceTasks.lean: StreamFace.run creating one task per complete packet, '
    'the ready queue, loop turns, the end of the stream also in the same pass as the last bytes, transport errors, '
    'app.shutdown() at any instant, main_loop\'s face.shutdown() + _clean_up() on every exit path, receive steps that '
    'raise) and the tasks_* theorems hold for every event history. As read off appv2.main_loop / app.main_loop / '
    'StreamFace.shutdown: nobody cancels, awaits or keeps the per-packet tasks - tasks created but not yet run when '
    'run() ends or shutdown() is called are LEFT TO THE LOOP and run on its next turn (against the tables as _clean_up '
    'left them); shutdown() while run() waits in a read lets the packet in progress complete and be handed over, the '
    'bytes behind it are never read. What is still assumed about asyncio: the ready queue is FIFO; create_task '
    'schedules the first step of the task for the NEXT loop iteration; a task woken by feed_data / feed_eof / '
    'set_exception runs in the next iteration, after the handles queued before the wake-up, until its next suspension; '
    'a per-packet task runs its receive step without being interleaved with the others (the receive step is the black '
    'box Ndn.Recv.receive / receiveBytes of the other theorems; a handler or validator that suspends is outside). Tie: '
    'the `tasks` cases drive the REAL main_loop of both front-ends over the real StreamFace.run / shutdown and a real '
    'asyncio.StreamReader on the virtual loop, ONE loop iteration at a time, and compare with the model after every '
    'iteration and every shutdown(): how many receive steps were entered and how many tasks were created but not yet '
    'entered; at the end the packets entered in order, the tasks never entered, how main_loop ended, face.running, which '
    'tasks raised, and how many packets had been received when _clean_up ran. The UDP face has its own small machine '
    '(Ndn.FaceTasks.Udp: datagram_received creates a task per datagram whose Type number can be read and looks at '
    'nothing else; connection_lost / error_received resolve the close future, the main task\'s wake-up takes its place '
    'in the ready queue and main_loop cleans up when it runs; udp_tasks_* theorems) tied by `utasks` cases that drive '
    'the real main_loop over the real UdpFace protocol object behind a stub datagram endpoint, iteration by iteration. '
    'tasks_no_background_error composes the task layer with receive_bytes_total: with the byte-level reception '
    'pipeline as the black box no per-packet task ends with an unhandled error in any history',
]
RULE = ('(a) streams of 0..6 packets (types/lengths at the 1/3/5/9-byte TL-number boundaries) plus a proper prefix of '
        'one more, fed to a real StreamReader in chunks (every single cut and sampled/all 2-cuts of streams <= 40 B, random '
        'k-cuts of longer ones, byte-by-byte, cut sets with repeated positions = empty chunks) then EOF or a connection reset, the hand-over count recorded after every chunk; Type numbers at the sign/width boundaries of the 5- and 9-byte forms '
        '(2^31-1, 2^31, 2^32-1, 2^32, 2^63-1, 2^63, 2^64-1); packets of >= 65536 bytes; garbage streams. (b) per front-end (v2, legacy v1): states with 0..3 '
        'pending Interests (incl. CanBePrefix and implicit-digest ones) and 0..2 handlers; 1..6 packets per case drawn from: '
        'every kind of valid packet (Interest, parameterised+signed Interest, Data, Nack envelope, envelopes with PIT token / '
        'unknown headers / CachePolicy / fragmentation fields / no Fragment / empty Fragment / Nack without reason), all '
        'truncations, single-byte substitutions (boundary values), byte insertions/deletions, length-field edits, element '
        'drop/duplicate/swap, random bytes and random TLV trees; delivered with the consistent type and with a wrong type, '
        'as a task (faces) and awaited (DummyFace); two packets handed over in one piece; afterwards every still-pending Interest is answered with its Data and every '
        'attached handler is sent a fresh well-formed Interest. '
        '(c) UDP datagram_received with empty / truncated / valid datagrams, datagrams carrying two packets or trailing bytes, 64 KiB; '
        'every datagram of 0..3 bytes over the byte classes of the framing; datagrams whose outer Type, outer Length or a '
        'first-level number is written in the 3/5/9-byte form although a shorter one exists (and the largest such values). '
        '(d) over-long numbers also in the stream pool (Type in every form) and in the reception stream (every packet kind '
        'with ONE number - outer, first or second level, Type / Length / both - over-long; random ones as a mutation); names '
        'that are hard to print or look up (empty / non-UTF-8 / 5000-byte generic components, component types 0, 65535, '
        '65536, 2^32, 2^64-1, digest components of length 0/1/31/33/64, typed-number components of every odd width, no / 300 '
        'components; optional elements absent) in Interests, parameterised Interests with the right digest, Data, Nacks; '
        'a share of the reception cases runs with DEBUG logging ON (log lines guarded by isEnabledFor). '
        '(e) task layer: scripts over the real main_loop (both front-ends) and StreamFace.run: 1..6 packets + a partial one cut '
        'into 1..7 chunks (also empty), 0..2 single loop iterations after each chunk (0 = several chunks in one reader '
        'pass), then EOF after a turn / EOF in the same pass as the last bytes / connection reset / another transport '
        'error / left open / app.shutdown(), app.shutdown() also at a random instant (between a feed and the reader\'s '
        'pass, in the middle of a packet whose rest arrives later with more packets behind it), 0..2 receive steps that '
        'raise. (g) hand-built, structurally unusual but digest-consistent signed Interests and Data (pktcommon writers; 133 '
        'packets: SignatureInfo without SignatureValue, value without info, empty / short / long / wrong value, info or value '
        'or parameters twice, value before info, no parameters, info without SignatureType, every signature type incl. '
        'unknown ones with garbage / empty / no value, the digest component in the middle of the name or twice - the '
        'ParametersSha256DigestComponent RECOMPUTED over the tail as it is, so the packet gets past the digest gate), '
        'delivered to both front-ends with handlers and pending Interests under the scripted validators (compared with '
        'the model), the front-end\'s DEFAULT validators and validators that refuse (oracle only); also drawn into the '
        'random reception stream, 12% of whose cases run under default / refusing validators. '
        '(f) the same for the UDP face: 1..7 datagrams (packets, empty, truncated inside the Type number, two '
        'packets in one datagram), 0..2 loop iterations after each, connection_lost and / or app.shutdown() at random '
        'instants, raising receive steps. (h) ONE face object (StreamFace.open + run by hand) and one application object (main_loop '
        'called again, both front-ends) over 2..4 connections in turn: each connection is a task-layer script over its own new '
        'StreamReader and ends orderly on a packet boundary / inside a packet (the first connection at EVERY cut position of a '
        'packet with 3-byte Type and Length, random cuts inside headers and values otherwise) / in the same pass as its last '
        'bytes / by a connection reset / another transport error / shutdown() at any instant / the transport closed under the '
        'waiting reader; the next connection is opened after the loop came to rest or at once; every connection is judged '
        'against the complete packets of its OWN stream, and on the application layers half of the connections express an '
        'Interest whose Data is part of that connection\'s stream (oracle only). non-trivial = a malformed packet met a state '
        'with a pending Interest or handler, or a stream was cut inside a TL number; distinct = distinct cases')

LP = 0x64
KNOWN = {'IndexError': 'IndexError', 'error': 'struct.error', 'struct.error': 'struct.error', 'ValueError': 'ValueError',
         'TypeError': 'TypeError', 'KeyError': 'KeyError', 'ShortKeyError': 'KeyError', 'DecodeError': 'DecodeError',
         'InvalidStateError': 'InvalidStateError', 'AttributeError': 'AttributeError',
         'UnicodeDecodeError': 'UnicodeDecodeError', 'OverflowError': 'OverflowError'}


def cls_name(n):
    return KNOWN.get(n, 'Other')


def extract(repo):
    from ndn.encoding import TypeNumber, LpTypeNumber
    _refresh_c07_tables(repo)
    return c06_extract.generate(repo, {'lp': LpTypeNumber.LP_PACKET, 'interest': TypeNumber.INTEREST,
                                       'data': TypeNumber.DATA})


def _refresh_c07_tables(repo):
    """receive_bytes_total is stated over the packet schemas of lean/NdnGen/C07.lean; regenerate that file from the
    source with C07's own extractor (identical text unless the packet classes changed), so that a schema edit reaches
    this check without waiting for a C07 run"""
    import lib
    from props import c07
    text = c07.extract(repo)
    with lib.Lock(os.path.join(lib.LEAN, '.build.lock')):
        lib.write_if_changed(os.path.join(lib.LEAN, 'NdnGen', 'C07.lean'), text)


# --------------------------------------------------------------------------- independent TLV helpers (spec side)
def tlnum(v):
    if v <= 0xFC:
        return bytes([v])
    if v <= 0xFFFF:
        return b'\xfd' + struct.pack('!H', v)
    if v <= 0xFFFFFFFF:
        return b'\xfe' + struct.pack('!I', v)
    return b'\xff' + struct.pack('!Q', v)


def tlv(t, v):
    return tlnum(t) + tlnum(len(v)) + v


def read_num(b, o):
    """strict reader used by the oracle only: (value, next offset) or None"""
    if o >= len(b):
        return None
    x = b[o]
    if x <= 0xFC:
        return x, o + 1
    w = {0xFD: 2, 0xFE: 4, 0xFF: 8}[x]
    if o + 1 + w > len(b):
        return None
    return int.from_bytes(b[o + 1:o + 1 + w], 'big'), o + 1 + w


def split_tlvs(b):
    """top-level elements of a value as (type, start, end) or None when not a clean concatenation"""
    out, o = [], 0
    while o < len(b):
        t = read_num(b, o)
        if t is None:
            return None
        l = read_num(b, t[1])
        if l is None or l[1] + l[0] > len(b):
            return None
        out.append((t[0], o, l[1] + l[0]))
        o = l[1] + l[0]
    return out


# --------------------------------------------------------------------------------------- valid packets
NAMES = ['/a', '/a/b', '/a/b/c', '/x', '/h/1']
_cache = {}


def base_packets():
    """{kind: wire} for every kind of valid packet. Every wire is written here from the packet format (pktcommon's
    writers) - not with the library's encoders: these are the INPUTS of the receive pipeline under judgement, and they
    have to exist whatever state make_interest / make_data / Name.from_str / Component.from_bytes are in."""
    if 'b' in _cache:
        return _cache['b']
    import pktcommon as K
    U = K.uri_to_comps
    dg = {'type': 0}
    P = {}
    P['int'] = K.build_interest(U('/a/b'), nonce=0x01020304, lifetime=4000)
    P['int-cbp'] = K.build_interest(U('/a'), can_be_prefix=True, must_be_fresh=True, nonce=7, hop_limit=3)
    P['int-h'] = K.build_interest(U('/h/1/q'), nonce=9)
    P['int-signed'] = K.build_interest(U('/a/b'), nonce=5, app=b'pp',
                                       sig={'type': 0, 'nonce': 0xa43c68d4992e1fc5, 'time': 0x1a0d546c976})
    P['int-param'] = K.build_interest(U('/h/1'), nonce=6, app=b'xyz')
    for n in NAMES:
        P['data' + n] = K.build_data(U(n), {'content_type': 0, 'freshness_period': 10}, b'C' + n.encode(), dg)
    P['data-long'] = K.build_data(U('/a/b/c/d'), {'content_type': 0}, b'z' * 300, dg)
    # names whose printing is hard: a typed-number component far longer than a number (1800 bytes: beyond CPython's
    # 4300-digit int-to-str limit; `params_sha256_checker` prints the name eagerly for its log line - fixed in /repo:
    # the ValueError of Component.to_str used to escape the receive pipeline), and of widths 3 and 9
    for tag, val in (('seg1800', b'\x01' * 1800), ('seg3', b'\x00\x00\x01'), ('seg9', b'\x01' * 9)):
        longn = U('/h/1') + [K.gen_comp(val, 50)]
        P['int-param-' + tag] = K.build_interest(longn, nonce=6, app=b'xyz')
        P['int-' + tag] = K.build_interest(longn, nonce=6)
        P['data-' + tag] = K.build_data(U('/a/b') + [K.gen_comp(val, 54)], {'content_type': 0}, b'v', dg)
    P['nack-seg1800'] = K.build_nack(P['int-seg1800'], 150)
    P['data-d0'] = data_d0()
    P['nack'] = K.build_nack(P['int'], 150)
    P['nack-cbp'] = K.build_nack(P['int-cbp'], 50)
    P['nack-x'] = K.build_nack(K.build_interest(U('/x'), nonce=1), 100)
    P['nack-big'] = K.build_nack(P['int'], 2 ** 64 - 1)
    P['lp-token-int'] = tlv(LP, tlv(0x62, b'\x01\x02\x03\x04') + tlv(0x50, P['int']))
    P['lp-token-int-h'] = tlv(LP, tlv(0x62, b'\xaa' * 8) + tlv(0x340, b'\x01') + tlv(0x50, P['int-h']))
    P['lp-data'] = tlv(LP, tlv(0x32c, b'\x01\x2c') + tlv(0x334, tlv(0x335, b'\x01')) + tlv(0x50, P['data/a/b']))
    P['lp-unknown'] = tlv(LP, tlv(0x51, b'\x00' * 8) + tlv(0x3e8, b'zz') + tlv(0x3e9, b'') + tlv(0x50, P['data/a']))
    P['lp-frag'] = tlv(LP, tlv(0x51, b'\x00' * 8) + tlv(0x52, b'\x00') + tlv(0x53, b'\x02') + tlv(0x50, P['data/a'][:20]))
    P['lp-nofrag'] = tlv(LP, b'')
    P['lp-idle-seq'] = tlv(LP, tlv(0x51, b'\x00' * 8))
    P['lp-emptyfrag'] = tlv(LP, tlv(0x50, b''))
    P['lp-nack-noreason'] = tlv(LP, tlv(0x320, b'') + tlv(0x50, P['int']))
    P['lp-nack-nofrag'] = tlv(LP, tlv(0x320, tlv(0x321, b'\x96')))
    P['lp-in-lp'] = tlv(LP, tlv(0x50, P['nack']))
    P['lp-frag-shortnum'] = tlv(LP, tlv(0x50, b'\xfd'))
    P['unknown-type'] = tlv(0x2a, b'abc')
    _cache['b'] = P
    return P


def data_d0():
    import pktcommon as K
    if 'd0' not in _cache:
        _cache['d0'] = K.build_data(K.uri_to_comps('/a/b'), {'content_type': 0}, b'D0', {'type': 0})
    return _cache['d0']


SUBST = [0x00, 0x01, 0x05, 0x06, 0x07, 0x08, 0x50, 0x62, 0x64, 0x7f, 0x80, 0xfc, 0xfd, 0xfe, 0xff]


def mutations(w, rng, n):
    """n mutants of w: truncations, substitutions, insert/delete, length edits, element drop/dup/swap, trailing bytes"""
    out = []
    L = len(w)
    for _ in range(n):
        r = rng.random()
        if r < 0.22:
            out.append(('trunc', w[:rng.randrange(L + 1)]))
        elif r < 0.52:
            i = rng.randrange(L) if L else 0
            b = rng.choice(SUBST + [w[i] ^ 1, (w[i] + 1) & 255, (w[i] - 1) & 255]) if L else 0
            out.append(('subst', w[:i] + bytes([b]) + w[i + 1:]))
        elif r < 0.60:
            i = rng.randrange(L + 1)
            out.append(('insert', w[:i] + bytes([rng.choice(SUBST)]) + w[i:]))
        elif r < 0.68:
            i = rng.randrange(L) if L else 0
            out.append(('delete', w[:i] + w[i + 1:]))
        elif r < 0.74:
            out.append(('trail', w + bytes(rng.randrange(256) for _ in range(rng.randint(1, 4)))))
        elif r < 0.78:
            # two packets handed over in one piece (what a datagram transport does with a datagram carrying two)
            P = base_packets()
            out.append(('concat', w + P[rng.choice(sorted(P))]))
        elif r < 0.86:
            # one Type / Length number somewhere in the packet written in a longer form than necessary
            out.append(('overlong', overlong_random(w, rng)))
        else:
            out.append(('struct', structural(w, rng)))
    return out


def structural(w, rng):
    """edit at TLV level: pick an element (possibly nested), drop / duplicate / swap with neighbour / change its
    Length or Type number / empty it"""
    t = read_num(w, 0)
    l = read_num(w, t[1]) if t else None
    if t is None or l is None:
        return w[::-1]
    path = [(0, len(w))]
    hdr, val_end = l[1], min(len(w), l[1] + l[0])
    els = split_tlvs(w[hdr:val_end])
    depth = 0
    cur_s, cur_e = hdr, val_end
    while els and depth < 3 and rng.random() < 0.5:
        ty, s, e = rng.choice(els)
        tt = read_num(w, cur_s + s)
        ll = read_num(w, tt[1])
        sub = split_tlvs(w[ll[1]:cur_s + e])
        if not sub:
            break
        cur_s, cur_e = ll[1], cur_s + e
        els = sub
        depth += 1
    if not els:
        return w[:hdr]
    k = rng.randrange(len(els))
    ty, s, e = els[k]
    s, e = cur_s + s, cur_s + e
    op = rng.choice(['drop', 'dup', 'swap', 'len+', 'len-', 'len0', 'lenbig', 'type', 'empty'])
    if op == 'drop':
        new = w[:s] + w[e:]
    elif op == 'dup':
        new = w[:e] + w[s:e] + w[e:]
    elif op == 'swap' and k + 1 < len(els):
        s2, e2 = cur_s + els[k + 1][1], cur_s + els[k + 1][2]
        new = w[:s] + w[s2:e2] + w[s:e] + w[e2:]
    else:
        tt = read_num(w, s)
        ll = read_num(w, tt[1])
        body = w[ll[1]:e]
        if op == 'type':
            new = w[:s] + tlnum(rng.choice([0, 1, 5, 6, 7, 8, 0x15, 0x50, 0x52, 0x62, 0x64, 0x320, 0x321, 0xfffe, ty + 1, ty + 2])) + w[tt[1]:]
        elif op == 'empty':
            new = w[:s] + tlnum(ty) + tlnum(0) + w[e:]
        else:
            nl = {'len+': ll[0] + 1, 'len-': max(0, ll[0] - 1), 'len0': 0, 'lenbig': rng.choice([0xfd, 0xffff, 2 ** 32, 2 ** 64 - 1])}.get(op, ll[0] + 1)
            new = w[:tt[1]] + tlnum(nl) + w[ll[1]:]
    if rng.random() < 0.6 and new != w:
        new = refit(new)
    return new


def refit(w):
    """make the outermost Length consistent again (so the mutation reaches the inner decoders)"""
    t = read_num(w, 0)
    l = read_num(w, t[1]) if t else None
    if t is None or l is None:
        return w
    body = w[l[1]:]
    return tlnum(t[0]) + tlnum(len(body)) + body


# ------------------------------------------------------------ numbers that are not written in their shortest form
OL_FMT = {3: (b'\xfd', 2), 5: (b'\xfe', 4), 9: (b'\xff', 8)}


def olnum(v, width):
    """v written in the `width`-byte form of a TL number, whether or not a shorter form exists"""
    if width == 1:
        assert v <= 0xFC
        return bytes([v])
    mark, n = OL_FMT[width]
    return mark + v.to_bytes(n, 'big')


def ol_widths(v):
    """the widths in which v can be written but should not be"""
    return [w for w in (3, 5, 9) if w > len(tlnum(v)) and v < 256 ** OL_FMT[w][1]]


def _hdr(w):
    """(type, type end, length, value start) of a well-framed element, or None"""
    t = read_num(w, 0)
    l = read_num(w, t[1]) if t else None
    if l is None or l[1] + l[0] != len(w):
        return None
    return t[0], t[1], l[0], l[1]


def overlong_here(w, which, width):
    """the element w with its Type ('T'), its Length ('L') or both ('B') re-written in the given width; None when that
    is the shortest form of the number anyway"""
    h = _hdr(w)
    if h is None:
        return None
    ty, te, ln, vs = h
    tb, lb = w[:te], w[te:vs]
    if which in 'TB':
        if width not in ol_widths(ty):
            return None
        tb = olnum(ty, width)
    if which in 'LB':
        if width not in ol_widths(ln):
            return None
        lb = olnum(ln, width)
    return tb + lb + w[vs:]


def overlong_at(w, path, which, width):
    """descend along `path` (indices of sub-elements) and apply overlong_here there; the Lengths of the enclosing
    elements are re-computed (shortest form), their Type bytes kept"""
    if not path:
        return overlong_here(w, which, width)
    h = _hdr(w)
    if h is None:
        return None
    body = w[h[3]:]
    els = split_tlvs(body)
    if not els or path[0] >= len(els):
        return None
    _, s, e = els[path[0]]
    sub = overlong_at(body[s:e], path[1:], which, width)
    if sub is None:
        return None
    nb = body[:s] + sub + body[e:]
    return w[:h[1]] + tlnum(len(nb)) + nb


def overlong_paths(w, depth=3, fan=3):
    """paths to the (first `fan`) sub-elements down to `depth`"""
    out = [[]]
    h = _hdr(w)
    if h is None or depth == 0:
        return out
    body = w[h[3]:]
    els = split_tlvs(body) or []
    for i, (_, s, e) in enumerate(els[:fan]):
        out += [[i] + p for p in overlong_paths(body[s:e], depth - 1, fan)]
    if len(els) > fan:
        out.append([len(els) - 1])
    return out


def overlong_all(w, depth=2, fan=3, widths=(3, 5, 9)):
    """every (tag, packet) in which ONE element of w (down to `depth`) has its Type, its Length or both over-long"""
    out, seen = [], set()
    for path in overlong_paths(w, depth, fan):
        for which in 'TLB':
            for width in widths:
                v = overlong_at(w, path, which, width)
                if v is not None and v not in seen:
                    seen.add(v)
                    out.append(('overlong-%s%d@%d' % (which, width, len(path)), v))
    return out


def overlong_random(w, rng):
    paths = overlong_paths(w, 4, 4)
    for _ in range(8):
        v = overlong_at(w, rng.choice(paths), rng.choice('TTLLB'), rng.choice((3, 3, 5, 9)))
        if v is not None:
            return v
    return overlong_here(refit(w), 'L', 3) or w


# ------------------------------------------------------------------------- names that are hard to print / look up
def odd_components():
    """(tag, component wire): values and types at the edges of what the printing / comparing helpers distinguish"""
    if 'oddc' in _cache:
        return _cache['oddc']
    C = [('generic-empty', tlv(8, b'')), ('generic-nonutf8', tlv(8, b'\xff\xfe\x80\x00')), ('generic-reserved', tlv(8, b'%=/ +\x7f')),
         ('generic-dots', tlv(8, b'...')), ('generic-5000', tlv(8, b'k' * 5000)),
         ('type0', tlv(0, b'z')), ('type65535', tlv(0xffff, b'z')), ('type65536', tlv(0x10000, b'z')),
         ('type2^32', tlv(2 ** 32, b'z')), ('type2^64-1', tlv(2 ** 64 - 1, b'')), ('keyword', tlv(0x20, b'kw')),
         ('type253', tlv(0xfd, b'\xfd'))]
    for t, nm in ((1, 'implicit'), (2, 'params')):
        for ln in (0, 1, 31, 33, 64):
            C.append(('%s-digest-len%d' % (nm, ln), tlv(t, bytes(range(1, ln + 1)))))
    for t in (0x32, 0x34, 0x36):
        for val in (b'', b'\x00', b'\x00\x00', b'\xff' * 3, b'\x80' + b'\x00' * 4, b'\xff' * 7, b'\xff' * 8,
                    b'\x00' * 8, b'\x01' * 16, b'\x09' * 1800):
            C.append(('typed%d-len%d' % (t, len(val)), tlv(t, val)))
    _cache['oddc'] = C
    return C


def odd_name_packets():
    """{tag: wire}: Interests (plain, parameterised with the RIGHT digest, signed-looking), Data and Nacks under the
    prefixes the states of this check use (/h = handler, /a = CanBePrefix pending Interest), whose names contain one odd
    component; hand-encoded (the library's encoders refuse some of them)"""
    if 'odd' in _cache:
        return _cache['odd']
    O = {}
    nonce = tlv(0x0a, b'\x00\x00\x00\x2a')
    ap = tlv(0x24, b'xyz')
    si = tlv(0x2c, tlv(0x1b, b'\x00'))

    def g(s):
        return tlv(8, s)
    for tag, c in odd_components():
        O['int-odd:' + tag] = tlv(5, tlv(7, g(b'h') + g(b'1') + c) + nonce)
        dig = tlv(2, hashlib.sha256(ap).digest())
        # a second ParametersSha256DigestComponent in front of the right one is the odd component's business, not ours
        O['int-param-odd:' + tag] = tlv(5, tlv(7, g(b'h') + c + dig) + nonce + ap)
        data = tlv(6, tlv(7, g(b'a') + c) + tlv(0x14, b'') + tlv(0x15, b'odd') + tlv(0x16, tlv(0x1b, b'\x00'))
                   + tlv(0x17, bytes(32)))
        O['data-odd:' + tag] = data
        # (a Nack for /a/<Type-1 component of length 0> used to be taken for a Nack of the pending Interest /a: _on_nack
        # stripped the component and b'' there also means 'no digest' - fixed in /repo: only a 32-byte value is a digest)
        O['nack-odd:' + tag] = tlv(LP, tlv(0x320, tlv(0x321, b'\x96')) + tlv(0x50, tlv(5, tlv(7, g(b'a') + c) + nonce)))
    c0 = odd_components()
    for k in (0, 5, 14, 20):
        tag, c = c0[k]
        body = tlv(7, g(b'h') + c) + nonce + ap + si
        sv = tlv(0x2e, bytes(32))
        dig = tlv(2, hashlib.sha256(ap + si + sv).digest())
        O['int-signed-odd:' + tag] = tlv(5, tlv(7, g(b'h') + c + dig) + nonce + ap + si + sv)
        O['lp-token-int-odd:' + tag] = tlv(LP, tlv(0x62, b'\x00' * 4) + tlv(0x50, O['int-odd:' + tag]))
        _ = body
    # optional elements absent (what a log line may want to print about them)
    sig0 = tlv(0x16, tlv(0x1b, b'\x00')) + tlv(0x17, bytes(32))
    O['data-no-content'] = tlv(6, tlv(7, g(b'a') + g(b'b')) + tlv(0x14, b'') + sig0)
    O['data-no-metainfo'] = tlv(6, tlv(7, g(b'a') + g(b'b')) + tlv(0x15, b'c') + sig0)
    O['data-name-only'] = tlv(6, tlv(7, g(b'a') + g(b'b')))
    O['int-name-only'] = tlv(5, tlv(7, g(b'h') + g(b'1')))
    O['lp-emptytoken-int'] = tlv(LP, tlv(0x62, b'') + tlv(0x50, tlv(5, tlv(7, g(b'h') + g(b'1')) + nonce)))
    O['lp-nack-name-only'] = tlv(LP, tlv(0x320, b'') + tlv(0x50, tlv(5, tlv(7, g(b'a')))))
    O['int-noname-comps'] = tlv(5, tlv(7, b'') + nonce)
    O['data-noname-comps'] = tlv(6, tlv(7, b'') + tlv(0x15, b''))
    O['int-300-comps'] = tlv(5, tlv(7, g(b'h') + b''.join(g(b'%d' % i) for i in range(300))) + nonce)
    O['data-300-comps'] = tlv(6, tlv(7, g(b'a') + b''.join(g(b'%d' % i) for i in range(300))) + tlv(0x15, b''))
    _cache['odd'] = O
    return O


@contextlib.contextmanager
def debug_logging(on):
    """the application runs with DEBUG logging switched on (several log lines of the receive path are guarded by
    isEnabledFor); records go to a handler that formats them like a real one and swallows what a real one swallows"""
    if not on:
        yield
        return

    class Sink(logging.Handler):
        def emit(self, record):
            try:
                record.getMessage()
            except Exception:          # noqa - logging.Handler.handleError territory, never the caller's problem
                pass
    lg = logging.getLogger('ndn')
    old = (lg.level, lg.propagate, logging.root.manager.disable)
    h = Sink()
    lg.addHandler(h)
    lg.setLevel(logging.DEBUG)
    lg.propagate = False
    logging.disable(logging.NOTSET)
    try:
        yield
    finally:
        lg.removeHandler(h)
        lg.setLevel(old[0])
        lg.propagate = old[1]
        logging.disable(old[2])


def random_tree(rng, depth=0):
    n = rng.randint(0, 3)
    out = b''
    for _ in range(n):
        t = rng.choice([5, 6, 7, 8, 0x0a, 0x0c, 0x12, 0x14, 0x15, 0x16, 0x17, 0x1b, 0x21, 0x24, 0x2c, 0x50, 0x52, 0x62, 0x64, 0x320, 0x321, rng.randrange(1, 70000)])
        if depth < 3 and rng.random() < 0.5:
            v = random_tree(rng, depth + 1)
        else:
            v = bytes(rng.randrange(256) for _ in range(rng.choice([0, 0, 1, 1, 2, 4, 8, 9])))
        out += tlv(t, v)
    return out


def first_type(w):
    t = read_num(w, 0)
    return t[0] if t else 0


# ------------------------------------------------------------------------------------------ cases
def stream_packets(rng):
    P = base_packets()
    pool = [P['int'], P['data/a'], P['nack'], P['lp-nofrag'], tlv(5, b''), tlv(0xfd, b'x'), tlv(0xffff, b''), tlv(0x10000, b'yz'),
            tlv(6, b'q' * 0xfc), tlv(6, b'q' * 0xfd), tlv(7, b'r' * 300), tlv(2 ** 32 + 5, b'\x00'), P['data-long'],
            b'\xfd\x00\x05\x00', b'\x05\xfd\x00\x01\x07', b'\x05\xfe\x00\x00\x00\x01\x07', b'\x05\xff' + b'\x00' * 7 + b'\x01\x07',
            tlv(0xfc, b''), tlv(0, b'\x00'),
            # Type numbers at the sign / width boundaries of the 5- and 9-byte forms, the marker bytes as values
            tlv(0x7fffffff, b'a'), tlv(0x80000000, b'b'), tlv(0xffffffff, b''), tlv(2 ** 32, b'c'),
            tlv(2 ** 63 - 1, b''), tlv(2 ** 63, b'd'), tlv(2 ** 64 - 1, b'e'), tlv(0xfe, b''), tlv(0xff, b'f'),
            b'\x05\xff' + b'\x00' * 6 + b'\x00\x02zz',
            # the Type number in every over-long form, Type and Length both over-long, over-long forms of the largest
            # values that have a shorter one, whole Interests framed with over-long numbers
            b'\xfe\x00\x00\x00\x05\x00', b'\xff' + b'\x00' * 7 + b'\x05\x01a', b'\xfd\x00\x05\xfd\x00\x00',
            b'\xfd\x00\xfc\x00', b'\xfe\x00\x00\xff\xff\x01b', b'\xff\x00\x00\x00\x00\xff\xff\xff\xff\xfe\x00\x00\x00\x01c',
            overlong_here(P['int'], 'T', 3), overlong_here(P['int'], 'B', 5), overlong_here(P['data/a'], 'L', 9),
            overlong_here(P['nack'], 'T', 9)]
    return pool


def big_packets():
    """packets whose Length really needs the 5-byte form (>= 65536 bytes of value)"""
    if 'big' not in _cache:
        _cache['big'] = [tlv(6, b'L' * 65536), tlv(0x10000, bytes(range(256)) * 258)]
    return _cache['big']


def tasks_cases(rng, pool, short, quick):
    """(e) the task layer: scripts over the real main_loop / StreamFace.run - chunks, single loop iterations, the end of
    the stream (also in the same pass as the last bytes), app.shutdown() at any instant (also in the middle of a packet,
    also between a feed and the reader's pass), a transport error, receive steps that raise"""
    fixed = [
        # seeded C06-6: the last packets and the end of the stream are seen by the framing loop in one pass
        [['feed', '0501070600'], ['eof'], ['iter'], ['iter']],
        [['feed', '050107'], ['iter'], ['feed', '06000901'], ['eof'], ['iter']],
        # shutdown() with tasks in the ready queue; in the middle of a packet whose rest still arrives with more behind
        [['feed', '0501070600'], ['iter'], ['shutdown'], ['iter']],
        [['feed', '0501'], ['iter'], ['shutdown'], ['feed', '0706000801'], ['iter'], ['iter']],
        [['feed', '0501'], ['shutdown'], ['feed', '07'], ['eof'], ['iter']],
        [['feed', '050107060008'], ['shutdown'], ['iter'], ['feed', '00'], ['iter']],
        [['feed', '05010706000700'], ['iter'], ['reset'], ['iter']],
        [['feed', '0501070600'], ['iter'], ['iter'], ['other'], ['iter']],
    ]
    for fe in ('v2', 'v1'):
        for sc in fixed:
            yield {'k': 'tasks', 'fe': fe, 'raises': [], 'script': sc}
            yield {'k': 'tasks', 'fe': fe, 'raises': [0], 'script': sc}
    for i in range(60 if quick else 900):
        pk = [rng.choice(short if rng.random() < 0.7 else pool) for _ in range(rng.randint(1, 6))]
        nxt = rng.choice(short)
        partial = nxt[:rng.choice([0, 0, 1, len(nxt) - 1])]
        s = b''.join(pk) + partial
        cuts = sorted(rng.randrange(0, len(s) + 1) for _ in range(rng.randint(0, 6)))
        chunks = [s[a:b] for a, b in zip([0] + cuts, cuts + [len(s)])]
        sc = []
        for ch in chunks:
            sc.append(['feed', ch.hex()])
            sc += [['iter']] * rng.choice([0, 1, 1, 1, 2])
        end = rng.choice(['eof', 'eof', 'eof-same-pass', 'eof-same-pass', 'open', 'reset', 'other', 'shutdown-end'])
        if end == 'eof':
            sc += [['iter'], ['eof']]
        elif end == 'eof-same-pass':
            while sc and sc[-1][0] == 'iter':
                sc.pop()
            sc.append(['eof'])
        elif end in ('reset', 'other'):
            sc += [['iter'], [end]]
        elif end == 'shutdown-end':
            sc.append(['shutdown'])
        sc += [['iter']] * rng.choice([0, 1, 2])
        if rng.random() < 0.45 and end != 'shutdown-end':
            sc.insert(rng.randrange(len(sc) + 1), ['shutdown'])
        if not _tasks_valid(sc):
            continue
        raises = sorted(set(rng.randrange(len(pk)) for _ in range(rng.choice([0, 0, 1, 2]))))
        yield {'k': 'tasks', 'fe': ('v2', 'v1')[i % 2], 'raises': raises, 'script': sc}


def _conn_script(rng, pool, short, partial_mode):
    """one connection's script (the shape of the random `tasks` scripts): 0..5 packets + a partial one (partial_mode:
    'none' / 'header' = the stream stops inside the Type / Length numbers / 'any' = any cut position) cut into chunks,
    single loop iterations, and one of the ways a connection ends.  Returns (script, packets)."""
    pk = [rng.choice(short if rng.random() < 0.7 else pool) for _ in range(rng.randint(0, 5))]
    nxt = rng.choice(short if rng.random() < 0.6 else pool)
    if partial_mode == 'none':
        partial = b''
    elif partial_mode == 'header':
        t = read_num(nxt, 0)
        partial = nxt[:rng.randint(1, max(1, min(len(nxt) - 1, read_num(nxt, t[1])[1])))]
    else:
        partial = nxt[:rng.randint(1, len(nxt) - 1)]
    s = b''.join(pk) + partial
    cuts = sorted(rng.randrange(0, len(s) + 1) for _ in range(rng.randint(0, 4)))
    sc = []
    for a, b in zip([0] + cuts, cuts + [len(s)]):
        sc.append(['feed', s[a:b].hex()])
        sc += [['iter']] * rng.choice([0, 1, 1, 2])
    end = rng.choice(['eof', 'eof', 'eof-same-pass', 'eof-same-pass', 'closed', 'reset', 'other', 'shutdown-end', 'shutdown-mid'])
    if end == 'eof':
        sc += [['iter'], ['eof']]
    elif end == 'eof-same-pass':
        while sc and sc[-1][0] == 'iter':
            sc.pop()
        sc.append(['eof'])
    elif end in ('reset', 'other'):
        sc += [['iter'], [end]]
    elif end == 'shutdown-end':
        sc.append(['shutdown'])
    elif end == 'shutdown-mid':
        sc.insert(rng.randrange(len(sc) + 1), ['shutdown'])
    # 'closed' / after a shutdown(): the script leaves the stream open - the transport goes away when the connection is given up
    sc += [['iter']] * rng.choice([0, 1, 2])
    return sc, pk


def _ask_packet(i):
    """the Data packet that answers the Interest the application expresses on its connection number i"""
    from ndn.encoding import make_data, MetaInfo
    return bytes(make_data('/conn/%d/q' % i, MetaInfo(), b'answer-%d' % i))


def conns_cases(rng, pool, short, quick):
    """(h) ONE FACE OBJECT (and one application object) OVER SEVERAL CONNECTIONS: open / run / the connection ends
    (orderly on a packet boundary, in the middle of a packet at every cut position, in the same pass as the last bytes,
    connection reset, another transport error, shutdown() at any instant, the transport closed under a waiting reader) /
    open again on the SAME object - StreamFace.open + run directly ('face') and main_loop called again on the same
    NDNApp (both front-ends).  Every connection is judged by itself: what it hands over is exactly the sequence of
    complete packets of ITS OWN stream.  On the application layers a connection may also express an Interest whose Data
    is part of the connection's stream (oracle: it is answered when the connection lives until the loop is at rest)."""
    A, C, D = tlv(6, b'aaa'), tlv(5, b'cc'), tlv(0xfd, b'd')
    # systematic: the first connection ends inside packet B at EVERY cut position (B: 3-byte Type, 3-byte Length), in every
    # way a connection ends; the second connection on the same object carries exactly C D
    B = b'\xfd\x01\x00\xfd\x00\x04bbbb'
    ends = {'eof': [['iter'], ['eof'], ['iter']], 'eof-same-pass': [['eof']], 'reset': [['iter'], ['reset']],
            'other': [['iter'], ['other']], 'shutdown': [['iter'], ['shutdown']], 'closed': [['iter']]}
    n = 0
    for cut in range(0, len(B)):
        for end in sorted(ends):
            # quick tier: every (cut, end) on the face alone, a third of them (and two cuts in full) through the applications
            thin = quick and cut not in (1, 4) and (cut + n) % 3 != 0
            n += 1
            for layer in ('face',) if thin else ('face', 'v2', 'v1'):
                first = [['feed', A.hex()], ['iter'], ['feed', B[:cut].hex()]] + ends[end]
                second = [['feed', (C + D).hex()], ['iter'], ['iter'], ['eof']]
                yield {'k': 'conns', 'layer': layer, 'conns': [{'script': first, 'raises': []}, {'script': second, 'raises': []}]}
    # three connections, the unfinished packet of the first is LONGER than everything the others carry; no rest between
    for layer in ('face', 'v2', 'v1'):
        big = tlv(6, b'L' * 300)
        yield {'k': 'conns', 'layer': layer, 'conns': [
            {'script': [['feed', big[:200].hex()], ['eof']], 'raises': [], 'norest': True},
            {'script': [['feed', C.hex()], ['eof']], 'raises': [], 'norest': True},
            {'script': [['feed', (D + A).hex()], ['iter'], ['eof']], 'raises': []}]}
    for i in range(80 if quick else 1500):
        layer = ('v2', 'v1', 'face')[i % 3]
        conns = []
        for ci in range(rng.choice([2, 2, 3, 4])):
            for _ in range(20):
                sc, pk = _conn_script(rng, pool, short, rng.choice(['none', 'header', 'any', 'any']))
                if _conn_valid(sc):
                    break
            else:
                sc, pk = [['feed', A.hex()], ['eof']], [A]
            conn = {'script': sc, 'raises': sorted(set(rng.randrange(len(pk)) for _ in range(rng.choice([0, 0, 0, 1])))) if pk else []}
            if layer != 'face' and rng.random() < 0.5:
                # the Data for this connection's Interest is put into the stream (glued to the front of one of the chunks)
                # and somewhere behind it the connection is left alone until the loop is at rest
                feeds = [j for j, a in enumerate(sc) if a[0] == 'feed']
                stops = [j for j, a in enumerate(sc) if a[0] in ('eof', 'reset', 'other', 'shutdown')]
                cand = [j for j in feeds if stops and j < stops[0] and _feed_on_boundary(sc, j)]
                if cand:
                    j = rng.choice(cand)
                    sc[j] = ['feed', _ask_packet(ci).hex() + sc[j][1]]
                    sc.insert(rng.randint(j + 1, stops[0]), ['settle'])
                    conn['ask'] = ci
                    conn['ask_data'] = _ask_packet(ci).hex()
                    conn['raises'] = []
            if rng.random() < 0.3:
                conn['norest'] = True       # the next connection is opened as soon as this one is over (a reconnect loop)
            conns.append(conn)
        yield {'k': 'conns', 'layer': layer, 'conns': conns}


def unusual_signed_packets():
    """[(tag, wire)]: hand-built, structurally UNUSUAL but digest-consistent signed Interests and Data (written with
    pktcommon's writers, not the library's encoders): every optional element of the signed part absent / empty /
    duplicated / out of order, unknown and key-based signature types - with the ParametersSha256DigestComponent
    RECOMPUTED over the tail as it is, so that the packet gets past the digest gate and reaches the validators (a
    byte mutation of a valid signed Interest never does: it breaks the digest and is dropped one step earlier)."""
    if 'unusual' in _cache:
        return _cache['unusual']
    import pktcommon as K
    U = K.uri_to_comps
    out = []
    si = lambda t=0, **kw: K.w_sig_info(0x2c, dict({'type': t}, **kw))
    ap = lambda v=b'pp': K.w_tlv(0x24, v)
    sv = lambda v: K.w_tlv(0x2e, v)

    def interest(name, tail, where='end', extra_digest=False):
        comps = U(name)
        dg = K.gen_comp(hashlib.sha256(tail).digest(), 2)
        if where == 'end':
            full = comps + [dg]
        elif where == 'middle':
            full = comps[:1] + [dg] + comps[1:]
        else:
            full = comps
        if extra_digest:
            full = full + [dg]
        return K.w_tlv(5, K.w_name(full) + K.w_uint(0x0a, 0x0b0c0d0e, 4) + K.w_uint(0x0c, 4000) + tail)

    def good(name, a, info):
        return hashlib.sha256(b''.join(U(name)) + a + info).digest()
    for name in ('/a/b', '/h/1'):
        a, i0 = ap(), si()
        ok = good(name, a, i0)
        tails = {
            'info-no-value': a + i0,
            'value-no-info': a + sv(ok),
            'empty-value': a + i0 + sv(b''),
            'valid': a + i0 + sv(ok),
            'wrong-value': a + i0 + sv(b'\x55' * 32),
            'short-value': a + i0 + sv(ok[:5]),
            'long-value': a + i0 + sv(ok + b'\x00'),
            'info-twice': a + i0 + i0 + sv(ok),
            'value-twice': a + i0 + sv(ok) + sv(ok),
            'params-twice': a + a + i0 + sv(ok),
            'value-before-info': a + sv(ok) + i0,
            'no-params-info-value': i0 + sv(hashlib.sha256(b''.join(U(name)) + i0).digest()),
            'no-params-info-only': i0,
            'no-params-value-only': sv(ok),
            'empty-params-signed': ap(b'') + i0 + sv(good(name, ap(b''), i0)),
            'empty-params-info-no-value': ap(b'') + i0,
            'info-without-type': a + K.w_tlv(0x2c, b'') + sv(ok),
            'info-without-type-no-value': a + K.w_tlv(0x2c, b''),
            'info-with-locator-nonce-time': a + si(0, key_name=U('/k/KEY/1'), nonce=7, time=1700000000000)
                                              + sv(good(name, a, si(0, key_name=U('/k/KEY/1'), nonce=7, time=1700000000000))),
            'info-with-locator-no-value': a + si(0, key_name=U('/k/KEY/1')),
            'unknown-element-after-value': a + i0 + sv(ok) + K.w_tlv(0xfd01, b'zz'),
            'params-only': a,
        }
        for t in (1, 3, 4, 5, 200, 255):
            tails['type%d-garbage-value' % t] = a + si(t) + sv(b'\x30\x06\x02\x01\x01\x02\x01\x01')
            tails['type%d-no-value' % t] = a + si(t)
            tails['type%d-empty-value' % t] = a + si(t) + sv(b'')
        for tag, tail in tails.items():
            out.append(('sig-int:' + tag, interest(name, tail)))
        out.append(('sig-int:digest-in-the-middle-no-value', interest(name, a + i0, where='middle')))
        out.append(('sig-int:digest-in-the-middle-valid', interest(name, a + i0 + sv(ok), where='middle')))
        out.append(('sig-int:two-digests-no-value', interest(name, a + i0, extra_digest=True)))
        out.append(('sig-int:no-digest-info-no-value', interest(name, a + i0, where='none')))
    # Data for the pending Interests: the signed part absent / partial / empty / duplicated / of unknown type
    dsi = lambda t=0: K.w_sig_info(0x16, {'type': t})
    dsv = lambda v: K.w_tlv(0x17, v)
    for name in ('/a/b', '/a/q', '/x'):
        head = K.w_name(U(name)) + K.w_meta({'content_type': 0, 'freshness_period': 10}) + K.w_tlv(0x15, b'C')
        dok = hashlib.sha256(head + dsi()).digest()
        bodies = {
            'info-no-value': head + dsi(),
            'value-no-info': head + dsv(dok),
            'unsigned': head,
            'empty-value': head + dsi() + dsv(b''),
            'valid': head + dsi() + dsv(dok),
            'wrong-value': head + dsi() + dsv(b'\x55' * 32),
            'info-twice': head + dsi() + dsi() + dsv(dok),
            'value-twice': head + dsi() + dsv(dok) + dsv(dok),
            'value-before-info': head + dsv(dok) + dsi(),
            'info-without-type': head + K.w_tlv(0x16, b'') + dsv(dok),
            'type200-garbage-value': head + dsi(200) + dsv(b'\x01\x02'),
            'type1-no-value': head + dsi(1),
            'type3-empty-value': head + dsi(3) + dsv(b''),
            'name-only': K.w_name(U(name)),
            'content-twice': head + K.w_tlv(0x15, b'D') + dsi() + dsv(dok),
        }
        for tag, body in bodies.items():
            out.append(('sig-data:' + tag, K.w_tlv(6, body)))
    _cache['unusual'] = out
    return out


def utasks_cases(rng, pool, short, quick):
    """(f) the UDP face's task layer: datagrams (packets, empty, truncated inside the Type number, two packets in one
    datagram), single loop iterations, connection_lost, app.shutdown(), receive steps that raise"""
    odd = [b'', b'\xfd', b'\xfd\x00', b'\xfe\x00\x00', b'\xff' + b'\x00' * 6, b'\x05', b'\x05\x01\x07\x06\x00']
    for i in range(40 if quick else 600):
        sc = []
        n = 0
        for _ in range(rng.randint(1, 7)):
            d = rng.choice(odd) if rng.random() < 0.3 else rng.choice(short if rng.random() < 0.8 else pool)
            n += 1
            sc.append(['dgram', d.hex()])
            sc += [['iter']] * rng.choice([0, 0, 1, 1, 2])
        for end in rng.sample(['lost', 'shutdown', 'lost', 'none'], rng.choice([0, 1, 1, 2])):
            if end != 'none':
                sc.insert(rng.randrange(len(sc) + 1), [end])
        sc += [['iter']] * rng.choice([0, 1, 3])
        raises = sorted(set(rng.randrange(n) for _ in range(rng.choice([0, 0, 1, 2]))))
        yield {'k': 'utasks', 'fe': ('v2', 'v1')[i % 2], 'raises': raises, 'script': sc}


def cases(rng, tier):
    quick = tier == 'quick'
    P = base_packets()
    kinds = sorted(P)
    # every valid packet kind and the short malformed envelopes, in an empty and a busy state, both front-ends
    fixed = [P[k] for k in kinds] + [b'', b'\x64', b'\x64\x00', b'\x64\x02\x50\x00', b'\x64\x03\x50\x01\xfd', b'\x05\x00', b'\x06\x00',
                                     b'\x64\x04\xfd\x03\x20\x00', b'\x05\x02\x07\x00', b'\x06\x02\x07\x00']
    busy_pend = [{'n': '/a/b', 'cbp': False, 'dg': False}, {'n': '/a', 'cbp': True, 'dg': False}, {'n': '/x', 'cbp': False, 'dg': False}]
    for fe in ('v2', 'v1'):
        for busy in (False, True):
            for dbg in (False, True):
                for i in range(0, len(fixed), 4):
                    yield {'k': 'recv', 'fe': fe, 'debug': dbg,
                           'pend': busy_pend if busy else [],
                           'hand': ['/a', '/h'] if busy else [],
                           'pkts': [{'w': w.hex(), 'typ': None, 'mode': m, 'tag': 'fixed'} for w in fixed[i:i + 4] for m in ('await', 'task')]}
    # names that are hard to print (every log line that prints a name, with DEBUG logging off and on), and every packet
    # kind with ONE Type / Length number - outer, first level, second level - in an over-long form
    O = odd_name_packets()
    odd = [('oddname', O[k]) for k in sorted(O)]
    ol = []
    for k in ('int', 'int-cbp', 'int-signed', 'int-param', 'data/a/b', 'nack', 'lp-token-int', 'lp-data', 'lp-nofrag'):
        ol += [('overlong', w) for _, w in overlong_all(P[k], widths=(3, 5, 9) if not quick else (3, 9))]
    for fe in ('v2', 'v1'):
        for dbg in (False, True):
            for i in range(0, len(odd), 4):
                yield {'k': 'recv', 'fe': fe, 'debug': dbg, 'pend': busy_pend, 'hand': ['/a', '/h'],
                       'pkts': [{'w': w.hex(), 'typ': None, 'mode': m, 'tag': t} for t, w in odd[i:i + 4] for m in ('await', 'task')]}
        for i in range(0, len(ol), 6):
            yield {'k': 'recv', 'fe': fe, 'debug': (i // 6) % 3 == 0, 'pend': busy_pend, 'hand': ['/a', '/h'],
                   'pkts': [{'w': w.hex(), 'typ': None, 'mode': ('await', 'task')[(i // 6 + j) % 2], 'tag': t}
                            for j, (t, w) in enumerate(ol[i:i + 6])]}
    # structurally unusual but digest-consistent signed Interests / Data, under the scripted validators (compared with
    # the model), the front-end's DEFAULT validators and validators that refuse (oracle only)
    un = unusual_signed_packets()
    for fe in ('v2', 'v1'):
        for val in (None, 'default', 'fail'):
            for i in range(0, len(un), 4):
                c = {'k': 'recv', 'fe': fe, 'debug': (i // 4) % 5 == 0, 'pend': busy_pend, 'hand': ['/a', '/h'],
                     'pkts': [{'w': w.hex(), 'typ': None, 'mode': ('task', 'await')[(i // 4 + j) % 2], 'tag': t}
                              for j, (t, w) in enumerate(un[i:i + 4])]}
                if val:
                    c['val'] = val
                yield c
    # a packet that addresses a pending Interest delivered in the very loop turn in which that Interest ends otherwise
    # (the caller cancels its await / its lifetime runs out): reception must not fail either (oracle only)
    for fe in ('v2', 'v1'):
        for how in ('cancel', 'cancel-after', 'deadline'):
            for what in ('nack', 'data', 'nack-lp-token', 'data-lp'):
                for dg in (False, True):
                    for two in (False, True):
                        yield {'k': 'turn', 'fe': fe, 'how': how, 'what': what, 'dg': dg, 'two': two}
    pool = stream_packets(rng)
    short = [p for p in pool if len(p) <= 12]
    # --- (e) task layer ----------------------------------------------------------------------
    yield from tasks_cases(rng, pool, short, quick)
    yield from utasks_cases(rng, pool, short, quick)
    # --- (a) streams -------------------------------------------------------------------------
    n_streams = 40 if quick else 400
    for si in range(n_streams):
        if si % 3 == 0:
            pk = [rng.choice(short) for _ in range(rng.randint(0, 4))]
        else:
            pk = [rng.choice(pool) for _ in range(rng.randint(0, 6))]
        nxt = rng.choice(pool)
        partial = nxt[:min(len(nxt) - 1, rng.choice([0, 0, 1, 2, 3, 4, 5, 9, len(nxt) - 1, rng.randrange(len(nxt))]))]
        s = b''.join(pk) + partial
        L = len(s)
        cutsets = [[], list(range(1, L))]
        if L <= 40:
            cutsets += [[i] for i in range(1, L)]
            pairs = [[i, j] for i in range(1, L) for j in range(i + 1, L)]
            cutsets += pairs if not quick else rng.sample(pairs, min(len(pairs), 25))
        else:
            cutsets += [[rng.randrange(1, L)] for _ in range(6)]
            for _ in range(6 if quick else 40):
                cutsets.append(sorted(set(rng.randrange(1, L) for _ in range(rng.randint(2, 7)))))
        if L >= 2:
            # repeated cut positions = empty chunks (feed_data(b'') wakes nobody), also before the first / after the last byte
            i = rng.randrange(1, L)
            cutsets += [[i, i], [0, i, i, L], sorted(rng.randrange(0, L + 1) for _ in range(rng.randint(3, 8)))]
        for cs in cutsets:
            c = {'k': 'stream', 'pkts': [p.hex() for p in pk], 'partial': partial.hex(), 'cuts': cs}
            if rng.random() < 0.2:
                c['end'] = 'reset'          # the stream ends with a connection reset instead of an orderly EOF
            yield c
            if rng.random() < 0.25:
                # the same stream with its last chunk(s) and its end arriving in one loop turn
                # (orderly end only: after a connection RESET in the same turn asyncio's reader raises before it looks
                # at what it has buffered - bytes a reset connection had delivered are not "the stream" any more)
                g = {k: v for k, v in c.items() if k != 'end'}
                yield dict(g, glue=rng.choice([1, 1, 2, len(cs) + 1]))
    # packets of >= 65536 bytes (Length in its 5-byte form for real), alone / between small packets / cut short
    big = big_packets()
    for bi in range(2 if quick else 12):
        b = big[bi % 2]
        pk = [b] if bi == 0 else [rng.choice(short) for _ in range(rng.randint(0, 2))] + [b] + [rng.choice(short) for _ in range(rng.randint(0, 2))]
        partial = b'' if bi % 3 == 0 else big[(bi + 1) % 2][:rng.choice([1, 3, 5, 6, 4096, 65535, 65541])]
        L = sum(map(len, pk)) + len(partial)
        off = sum(len(p) for p in pk[:pk.index(b)])
        for cs in [[], [off + 1], [off + 3], [off + 6], [off + 6 + 65535], sorted(set(rng.randrange(1, L) for _ in range(5)))]:
            c = {'k': 'stream', 'pkts': [p.hex() for p in pk], 'partial': partial.hex(), 'cuts': [x for x in cs if x < L]}
            if rng.random() < 0.2:
                c['end'] = 'reset'
            yield c
    for _ in range(10 if quick else 200):     # garbage streams: only the generic part of the oracle applies
        s = bytes(rng.choice([0, 1, 2, 5, 6, 0xfc, 0xfd, 0xfe, 0xff, rng.randrange(256)]) for _ in range(rng.randint(0, 24)))
        yield {'k': 'stream', 'raw': s.hex(), 'cuts': sorted(set(rng.randrange(1, len(s)) for _ in range(rng.randint(0, 3)))) if len(s) > 1 else []}
    # --- (c) UDP -----------------------------------------------------------------------------
    P = base_packets()
    for d in [b'', b'\xfd', b'\xfd\x00', b'\xfe\x00\x00', b'\xff' + b'\x00' * 7, b'\x05', b'\x05\x00', P['int'], P['nack'], b'\xfd\x03\x20\x00',
              P['int'] + P['data/a'], P['data/a'] + b'\x00', P['nack'] + P['nack'], tlv(0x80000000, b'x'), tlv(2 ** 63, b''),
              tlv(2 ** 64 - 1, b'y'), b'\xfe\xff\xff\xff', b'\xff' + b'\xff' * 8, tlv(6, b'u' * 65536)]:
        yield {'k': 'udp', 'data': d.hex()}
    # datagrams whose first / second / inner numbers are over-long; the values at the edges of each form
    uds = [b'\xfd\x00\x05', b'\xfd\x00\x05\x00', b'\xfd\x00\x05\x01', b'\xfd\x00\x05\x03abc', b'\xfd\x00\x00', b'\xfd\x00\xfc\x00',
           b'\xfd\x00\xfd\x00', b'\xfe\x00\x00\x00\x05', b'\xfe\x00\x00\x00\x05\x00', b'\xfe\x00\x00\xff\xff\x00',
           b'\xfe\x00\x01\x00\x00\x00', b'\xff' + b'\x00' * 7 + b'\x05', b'\xff' + b'\x00' * 7 + b'\x05\x00',
           b'\xff\x00\x00\x00\x00\xff\xff\xff\xff\x00', b'\xff\x00\x00\x00\x01\x00\x00\x00\x00\x00', b'\xfd\x00\x64\x00',
           b'\x05\xfd\x00\x00', b'\x05\xfe\x00\x00\x00\x00', b'\x05\xff' + b'\x00' * 8, b'\x64\xfd\x00\x00']
    for k in ('int', 'data/a', 'nack', 'lp-nofrag', 'int-signed'):
        uds += [w for _, w in overlong_all(P[k], depth=1)]
    for d in uds:
        yield {'k': 'udp', 'data': d.hex()}
    # every datagram of 0..3 bytes over the byte classes the framing distinguishes
    firsts, rest = [0, 5, 6, 0x64, 0xfc, 0xfd, 0xfe, 0xff], [0, 5, 0xfc, 0xfd, 0xff]
    tiny = [b''] + [bytes([a]) for a in firsts] + [bytes([a, b]) for a in firsts for b in rest]
    tri = [bytes([a, b, c]) for a in firsts for b in rest for c in rest]
    tiny += tri if not quick else rng.sample(tri, 40)
    for d in tiny:
        yield {'k': 'udp', 'data': d.hex()}
    for _ in range(10 if quick else 300):
        yield {'k': 'udp', 'data': bytes(rng.choice([0xfd, 0xfe, 0xff, 5, 6, 100, rng.randrange(256)]) for _ in range(rng.randint(0, 10))).hex()}
    # --- (b) reception -----------------------------------------------------------------------
    kinds = sorted(P)
    okinds = sorted(O)
    n_recv = 2400 if quick else 60000
    for ci in range(n_recv):
        fe = 'v2' if ci % 2 == 0 else 'v1'
        pend = []
        for _ in range(rng.choice([0, 1, 1, 2, 2, 3])):
            r = rng.random()
            if r < 0.15:
                pend.append({'n': '/a/b', 'cbp': False, 'dg': True})
            else:
                pend.append({'n': rng.choice(NAMES[:4]), 'cbp': rng.random() < 0.4, 'dg': False})
        hand = rng.sample(['/a', '/a/b', '/h'], rng.choice([0, 1, 1, 2]))
        pkts = []
        for _ in range(rng.randint(1, 6)):
            r = rng.random()
            if r < 0.03:
                tag, w = 'oddname', O[rng.choice(okinds)]
            elif r < 0.07:
                tag, w = rng.choice(un)      # structurally unusual, digest-consistent signed Interest / Data
            elif r < 0.12:
                tag, w = 'valid', P[rng.choice(kinds)]
            elif r < 0.20:
                tag, w = 'random', bytes(rng.randrange(256) for _ in range(rng.randint(0, 20)))
            elif r < 0.28:
                tag, w = 'tree', tlv(rng.choice([5, 6, LP, LP]), random_tree(rng))
            else:
                base = P[rng.choice(kinds)] if rng.random() < 0.93 else O[rng.choice(okinds)]
                tag, w = mutations(base, rng, 1)[0]
                if rng.random() < 0.15:
                    tag2, w = mutations(w, rng, 1)[0]
                    tag += '+' + tag2
            typ = None
            if rng.random() < 0.12:
                typ = rng.choice([5, 6, LP, 0, 7, 0x320])
            pkts.append({'w': w.hex(), 'typ': typ, 'mode': rng.choice(['task', 'await']), 'tag': tag})
        c = {'k': 'recv', 'fe': fe, 'pend': pend, 'hand': hand, 'pkts': pkts}
        if rng.random() < 0.35:
            c['debug'] = True       # the application logs at DEBUG level
        if rng.random() < 0.12:
            # the front-end's default validators / validators that refuse signed Interests (oracle only: the model
            # assumes validators that pass)
            c['val'] = rng.choice(['default', 'default', 'fail'])
        yield c
    # --- (h) one face / application object over several connections -------------------------------
    yield from conns_cases(rng, pool, short, quick)


def shrink(case):
    """candidates that keep the SAME finding (exception class / message), so that e.g. a TypeError finding is not
    shrunk into the IndexError one"""
    try:
        impl0 = run_impl(case)
        why0 = oracle(case, impl0)
    except Exception:              # noqa
        why0 = None
    if not why0:
        yield from _shrink(case)
        return
    key0 = finding_key(case, impl0, why0)
    for c in _shrink(case):
        try:
            impl = run_impl(c)
            why = oracle(c, impl)
        except Exception:          # noqa
            continue
        if why and finding_key(c, impl, why) == key0:
            yield c


def _shrink(case):
    k = case['k']
    if k == 'utasks':
        sc = case['script']
        for i in range(len(sc)):
            yield {**case, 'script': sc[:i] + sc[i + 1:]}
        if case.get('raises'):
            yield {**case, 'raises': case['raises'][1:]}
        return
    if k == 'conns':
        cs = case['conns']
        for i in range(len(cs)):
            if len(cs) > 1:
                yield {**case, 'conns': cs[:i] + cs[i + 1:]}
        for i, conn in enumerate(cs):
            sc = conn['script']
            for key in ('norest', 'ask'):
                if key in conn:
                    yield {**case, 'conns': cs[:i] + [{k2: v for k2, v in conn.items() if k2 not in (key, key + '_data')}] + cs[i + 1:]}
            if conn.get('raises'):
                yield {**case, 'conns': cs[:i] + [{**conn, 'raises': conn['raises'][1:]}] + cs[i + 1:]}
            for j in range(len(sc)):
                if _conn_valid(sc[:j] + sc[j + 1:]):
                    yield {**case, 'conns': cs[:i] + [{**conn, 'script': sc[:j] + sc[j + 1:]}] + cs[i + 1:]}
            for j, a in enumerate(sc):
                if a[0] == 'feed' and len(a[1]) > 2:
                    yield {**case, 'conns': cs[:i] + [{**conn, 'script': sc[:j] + [['feed', a[1][:-2]]] + sc[j + 1:]}] + cs[i + 1:]}
        return
    if k == 'tasks':
        sc = case['script']
        for i in range(len(sc)):
            if _tasks_valid(sc[:i] + sc[i + 1:]):
                yield {**case, 'script': sc[:i] + sc[i + 1:]}
        for i, a in enumerate(sc):
            if a[0] == 'feed' and len(a[1]) > 2:
                yield {**case, 'script': sc[:i] + [['feed', a[1][:-2]]] + sc[i + 1:]}
        if case.get('raises'):
            yield {**case, 'raises': case['raises'][1:]}
        return
    if k == 'turn':
        if case['two']:
            yield dict(case, two=False)
        if case['dg']:
            yield dict(case, dg=False)
        return
    if k == 'stream':
        if 'raw' in case:
            s = bytes.fromhex(case['raw'])
            for i in range(len(s)):
                yield {'k': 'stream', 'raw': (s[:i] + s[i + 1:]).hex(), 'cuts': [c for c in case['cuts'] if c < len(s) - 1]}
            if case['cuts']:
                yield {**case, 'cuts': case['cuts'][1:]}
            return
        for i in range(len(case['pkts'])):
            total = sum(len(p) // 2 for j, p in enumerate(case['pkts']) if j != i) + len(case['partial']) // 2
            yield {**case, 'pkts': case['pkts'][:i] + case['pkts'][i + 1:], 'cuts': [c for c in case['cuts'] if c < total]}
        if case['partial']:
            yield {**case, 'partial': ''}
        if case.get('end'):
            yield {k2: v for k2, v in case.items() if k2 != 'end'}
        for i in range(len(case['cuts'])):
            yield {**case, 'cuts': case['cuts'][:i] + case['cuts'][i + 1:]}
    elif k == 'udp':
        d = bytes.fromhex(case['data'])
        for i in range(len(d)):
            yield {'k': 'udp', 'data': (d[:i] + d[i + 1:]).hex()}
    else:
        if case.get('debug'):
            yield {k2: v for k2, v in case.items() if k2 != 'debug'}
        for i in range(len(case['pkts'])):
            yield {**case, 'pkts': case['pkts'][:i] + case['pkts'][i + 1:]}
        for i in range(len(case['pend'])):
            yield {**case, 'pend': case['pend'][:i] + case['pend'][i + 1:]}
        for i in range(len(case['hand'])):
            yield {**case, 'hand': case['hand'][:i] + case['hand'][i + 1:]}
        for i, p in enumerate(case['pkts']):
            w = bytes.fromhex(p['w'])
            if p['typ'] is None and len(w) > 0:
                cands = []
                t = read_num(w, 0)
                l = read_num(w, t[1]) if t else None
                if l is not None:
                    els = split_tlvs(w[l[1]:])
                    if els:
                        for (ty, s, e) in els:
                            cands.append(refit(w[:l[1] + s] + w[l[1] + e:]))
                cands += [w[:-1], w[1:]]
                for c in cands:
                    if len(c) < len(w):
                        yield {**case, 'pkts': case['pkts'][:i] + [{**p, 'w': c.hex()}] + case['pkts'][i + 1:]}


# ---------------------------------------------------------------------------------- implementation: streams
class _Writer:
    def __init__(self):
        self.closed = 0

    def close(self):
        self.closed += 1

    def write(self, d):
        pass


def _stream_bytes(case):
    if 'raw' in case:
        return bytes.fromhex(case['raw'])
    return b''.join(bytes.fromhex(p) for p in case['pkts']) + bytes.fromhex(case['partial'])


def _chunks(case):
    """the reads the transport makes: the stream cut at case['cuts'] (a repeated position = an empty chunk)"""
    s = _stream_bytes(case)
    out, prev = [], 0
    for c in case['cuts']:
        if prev <= c <= len(s):
            out.append(s[prev:c])
            prev = c
    if prev < len(s):
        out.append(s[prev:])
    return out


def _first_glued(case, n):
    g = case.get('glue', 0)
    return max(0, n - g) if g else n


def run_stream(case):
    from ndn.transport.stream_face import StreamFace

    class F(StreamFace):
        async def open(self):
            pass

        def isLocalFace(self):
            return True
    s = _stream_bytes(case)
    loop = vloop.new_loop()
    try:
        got = []
        face = F()
        face.reader = asyncio.StreamReader(loop=loop) if 'loop' in asyncio.StreamReader.__init__.__code__.co_varnames else asyncio.StreamReader()
        w = _Writer()
        face.writer = w
        face.running = True

        async def cb(typ, buf):
            got.append([typ, bytes(buf).hex()])
        face.callback = cb
        task = loop.create_task(face.run())
        hung = False
        try:
            loop.settle(limit=2000)
            trace = []               # number of packets the callback has received after each chunk, then after the end
            chunks = _chunks(case)
            # 'glue': the last g chunks and the end of the stream reach the reader in ONE turn of the event loop (a peer
            # that writes and closes at once): nothing can be observed in between (None in the trace)
            first_glued = _first_glued(case, len(chunks))
            for idx, ch in enumerate(chunks):
                face.reader.feed_data(ch)
                if idx < first_glued:
                    loop.settle(limit=2000)
                    trace.append(len(got))
                else:
                    trace.append(None)
            before_eof = len(got)
            if case.get('end') == 'reset':
                face.reader.set_exception(ConnectionResetError())
            else:
                face.reader.feed_eof()
            loop.settle(limit=2000)
            trace.append(len(got))
        except RuntimeError:
            hung = True
            before_eof = len(got)
        exc = raw = None
        if task.done() and not task.cancelled() and task.exception() is not None:
            raw = type(task.exception()).__name__
            exc = cls_name(raw)
        rem = s[len(b''.join(bytes.fromhex(g[1]) for g in got)):].hex()
        if raw is not None:
            status = 'crashed:' + (raw if raw in ('IncompleteReadError', 'ConnectionResetError') else 'Other')
        elif not task.done():
            status = 'running'
        elif not face.running and w.closed >= 1:
            status = 'shutdown'
        else:
            status = 'ended-without-shutdown'
        return {'got': got, 'rem': rem, 'running': bool(face.running), 'closed': w.closed, 'ended': task.done(), 'hung': hung,
                'exc': exc, 'errors': [list(e) for e in loop.errors], 'before_eof': before_eof, 'chunk_trace': trace,
                'status': status}
    finally:
        loop.shutdown()


def run_udp(case):
    from ndn.transport.udp_face import UdpFace
    data = bytes.fromhex(case['data'])
    loop = vloop.new_loop()
    try:
        got = []
        face = UdpFace()

        async def cb(typ, buf):
            got.append([typ, bytes(buf).hex()])
        face.callback = cb

        class T:
            def sendto(self, d):
                pass

            def close(self):
                pass

        async def fake_endpoint(factory, **kw):
            p = factory()
            t = T()
            p.connection_made(t)
            return t, p
        loop.create_datagram_endpoint = fake_endpoint
        loop.run_now(face.open())
        loop.call_soon(face.handler.datagram_received, data, ('127.0.0.1', 6363))
        loop.settle()
        return {'got': got, 'errors': [[cls_name(e[0]), ''] for e in loop.errors]}
    finally:
        loop.shutdown()



# ---------------------------------------------------------------------------------- implementation: task layer
def _tasks_plan(case):
    """the model history for a script, and for every script action that can be observed (iter / shutdown) the index
    of the model event after which the model is to be compared.  What is assumed about asyncio is exactly this
    translation: FIFO ready queue - the per-packet tasks created in an earlier iteration run before the reader task
    woken by feed_data / feed_eof / set_exception since then (model: `t`, then ONE reader pass over everything fed in
    between: `f:` / `c:` when EOF came with it / `x:`); the tasks that pass creates run in the NEXT iteration."""
    evs = ['r:%d' % k for k in case.get('raises', [])]
    marks = []
    st = {'pend': b'', 'eof': False, 'exc': None}

    def one_iter():
        evs.append('t')
        if st['exc']:
            evs.append('x:' + st['exc'])
            st['exc'] = None
        elif st['pend'] or st['eof']:
            evs.append(('c:' if st['eof'] else 'f:') + (st['pend'].hex() or '-'))
            st['pend'], st['eof'] = b'', False
    for act in case['script']:
        if act[0] == 'feed':
            st['pend'] += bytes.fromhex(act[1])
        elif act[0] == 'eof':
            st['eof'] = True
        elif act[0] in ('reset', 'other'):
            st['exc'] = act[0]
        elif act[0] == 'shutdown':
            evs.append('sd')
            marks.append(len(evs) - 1)
        elif act[0] == 'iter':
            one_iter()
            marks.append(len(evs) - 1)
    one_iter()
    one_iter()
    return evs, marks


def _tasks_valid(script):
    """no bytes after the end of the stream (StreamReader asserts that); a transport error only when the reader task has
    seen everything fed so far (bytes and an error in one pass are outside the model, see the stream cases' note)"""
    pend = eof = dead = False
    for a in script:
        if a[0] == 'feed':
            if eof:
                return False
            pend = pend or bool(a[1])
        elif a[0] == 'eof':
            if eof or dead:
                return False
            eof = pend = True
        elif a[0] in ('reset', 'other'):
            if pend or eof or dead:
                return False
            dead = True
        elif a[0] == 'iter':
            pend = False
    return True


def _tasks_fed(case):
    return b''.join(bytes.fromhex(a[1]) for a in case['script'] if a[0] == 'feed')


def run_tasks(case):
    """the REAL main_loop of the front-end over the REAL StreamFace.run / shutdown on the virtual loop: the script feeds a
    real asyncio.StreamReader, ends the stream, calls app.shutdown() and makes single loop iterations; the face's
    callback (the real _receive behind a recorder) notes when a per-packet task is CREATED and when it is ENTERED."""
    from ndn.transport.stream_face import StreamFace

    class F(StreamFace):
        async def open(self):
            self.reader = asyncio.StreamReader()
            self.writer = _Writer()
            self.running = True

        def isLocalFace(self):
            return True
    raises = set(case.get('raises', []))
    with AppRig(case['fe']) as rig:
        app, loop = rig.app, rig.loop
        face = F()
        app.face = face
        orig = app._receive
        created, entered, raised, cleanups = [], [], [], []

        async def _cb(i, typ, buf):
            entered.append(i)
            if i in raises:
                raised.append(i)
                raise RuntimeError('scripted failure of a receive step')
            await orig(typ, buf)

        def cb(typ, buf):
            created.append([typ, bytes(buf).hex()])
            return _cb(len(created) - 1, typ, buf)
        face.callback = cb
        real_clean = app._clean_up

        def clean():
            cleanups.append(len(entered))
            return real_clean()
        app._clean_up = clean
        main = loop.create_task(app.main_loop())
        loop.settle(limit=2000)
        counts = []
        hung = False

        def one_iter():
            loop.call_soon(loop.stop)
            loop.run_forever()
        try:
            for act in case['script']:
                if act[0] == 'feed':
                    face.reader.feed_data(bytes.fromhex(act[1]))
                elif act[0] == 'eof':
                    face.reader.feed_eof()
                elif act[0] == 'reset':
                    face.reader.set_exception(ConnectionResetError())
                elif act[0] == 'other':
                    face.reader.set_exception(OSError('scripted'))
                elif act[0] == 'shutdown':
                    app.shutdown()
                    counts.append([len(entered), len(created) - len(entered)])
                elif act[0] == 'iter':
                    one_iter()
                    counts.append([len(entered), len(created) - len(entered)])
            loop.settle(limit=2000)
        except RuntimeError:
            hung = True
        if main.done() and not main.cancelled() and main.exception() is not None:
            raw = type(main.exception()).__name__
            status = 'crashed:' + (raw if raw in ('IncompleteReadError', 'ConnectionResetError') else 'Other')
        elif main.done():
            status = 'shutdown'
        else:
            status = 'running'
        import gc
        gc.collect()
        return {'tasks': True, 'created': created, 'entered': entered, 'raised': raised, 'counts': counts,
                'cleanup': cleanups[0] if cleanups else None, 'ncleanups': len(cleanups), 'status': status,
                'running': bool(face.running), 'closed': face.writer.closed if face.writer else -1, 'hung': hung,
                'errors': [list(e) for e in loop.errors]}


# ------------------------------------------------- implementation: one face object over several connections
def _conn_valid(script):
    return _tasks_valid([['iter'] if a[0] == 'settle' else a for a in script])


def _complete_packets(s):
    """[(Type, packet)] the complete top-level elements of a byte string, and the offset behind the last one
    (independent of the library)"""
    want, pos = [], 0
    while True:
        t = read_num(s, pos)
        l = read_num(s, t[1]) if t else None
        if not t or not l or l[1] + l[0] > len(s):
            return want, pos
        want.append([t[0], s[pos:l[1] + l[0]].hex()])
        pos = l[1] + l[0]


def _feed_on_boundary(script, j):
    s = b''.join(bytes.fromhex(a[1]) for a in script[:j] if a[0] == 'feed')
    return _complete_packets(s)[1] == len(s)


def run_conns(case):
    """ONE StreamFace object - and on the application layers one NDNApp object - used for several connections in turn.
    Every connection: face.open() (a new StreamReader / writer, as UnixFace.open / TcpFace.open get from the platform),
    the real StreamFace.run (layer 'face': open + run + shutdown by hand; 'v2' / 'v1': the real main_loop called AGAIN on
    the same application), the connection's script, and then the connection is given up: a transport that is still open
    is closed (the reader sees EOF, what asyncio does when the socket goes away).  The per-packet callback notes for
    which connection a task was CREATED."""
    from ndn.transport.stream_face import StreamFace
    from ndn import types
    layer = case['layer']

    class F(StreamFace):
        async def open(self):
            self.reader = asyncio.StreamReader()
            self.writer = _Writer()
            self.running = True

        def isLocalFace(self):
            return True

    def go(loop, app, face, orig):
        cur = [None]

        async def _cb(rec, i, typ, buf):
            rec['entered'].append(i)
            if i in rec['raises']:
                rec['raised'].append(i)
                raise RuntimeError('scripted failure of a receive step')
            if orig is not None:
                try:
                    await orig(typ, buf)
                except BaseException as e:       # noqa - the per-packet task ends with it: nobody awaits that task
                    rec['bg'].append(cls_name(type(e).__name__))
                    raise

        def cb(typ, buf):
            rec = cur[0]
            rec['created'].append([typ, bytes(buf).hex()])
            return _cb(rec, len(rec['created']) - 1, typ, buf)
        face.callback = cb

        def one_iter():
            loop.call_soon(loop.stop)
            loop.run_forever()
        out = []
        for ci, conn in enumerate(case['conns']):
            rec = {'created': [], 'entered': [], 'raised': [], 'raises': set(conn.get('raises', [])), 'answer': None, 'bg': [],
                   'hung': False, 'status': None}
            cur[0] = rec
            out.append(rec)

            async def ask(n=conn.get('ask'), rec=rec):
                try:
                    if layer == 'v2':
                        from ndn import appv2
                        r = await app.express('/conn/%d/q' % n, validator=appv2.pass_all, lifetime=600000)
                        rec['answer'] = ['data', bytes(r[1]).hex()]
                    else:
                        async def ok(name, sig):
                            return True
                        r = await app.express_interest('/conn/%d/q' % n, validator=ok, lifetime=600000)
                        rec['answer'] = ['data', bytes(r[2]).hex()]
                except types.InterestNack as e:
                    rec['answer'] = ['nack', e.reason]
                except BaseException as e:        # noqa
                    rec['answer'] = ['exc', type(e).__name__]

            async def bare():
                await face.open()
                try:
                    await face.run()
                except BaseException:      # noqa - what the owner of a face does when run() fails
                    face.shutdown()
                    raise
            if app is None:
                main = loop.create_task(bare())
            else:
                main = loop.create_task(app.main_loop(ask() if conn.get('ask') is not None else None))
            try:
                loop.settle(limit=2000)
                over = False
                for act in conn['script']:
                    if act[0] == 'feed':
                        face.reader.feed_data(bytes.fromhex(act[1]))
                    elif act[0] == 'eof':
                        face.reader.feed_eof()
                        over = True
                    elif act[0] == 'reset':
                        face.reader.set_exception(ConnectionResetError())
                        over = True
                    elif act[0] == 'other':
                        face.reader.set_exception(OSError('scripted'))
                        over = True
                    elif act[0] == 'shutdown':
                        (face if app is None else app).shutdown()
                    elif act[0] == 'iter':
                        one_iter()
                    elif act[0] == 'settle':
                        loop.settle(limit=2000)
                if not over and not main.done():
                    face.reader.feed_eof()         # the connection is given up: the socket goes away
                if conn.get('norest'):
                    # a reconnect loop: the next connection is opened as soon as this one is over; the per-packet tasks
                    # this connection left to the loop run while the next one is being set up
                    for _ in range(200):
                        if main.done():
                            break
                        one_iter()
                else:
                    loop.settle(limit=2000)
            except RuntimeError:
                rec['hung'] = True
            if not main.done():
                rec['hung'] = True
                rec['status'] = 'running'
            elif not main.cancelled() and main.exception() is not None:
                raw = type(main.exception()).__name__
                rec['status'] = 'crashed:' + (raw if raw in ('IncompleteReadError', 'ConnectionResetError') else 'Other')
            else:
                rec['status'] = 'shutdown'
            rec['running'] = bool(face.running)
            if rec['hung']:
                break
        try:
            loop.settle(limit=2000)
        except RuntimeError:
            out[-1]['hung'] = True
        # what ends a per-packet task is noted where it happens (rec['bg']); the young generations are collected so that
        # other tasks that ended with an error nobody retrieved reach the loop's handler (a full collection per case
        # costs more than the case)
        import gc
        gc.collect(1)
        for rec in out:
            del rec['raises']
        return {'conns': out, 'errors': [list(e) for e in loop.errors]}
    if layer == 'face':
        loop = vloop.new_loop()
        try:
            return go(loop, None, F(), None)
        finally:
            loop.shutdown()
    with AppRig(layer) as rig:
        face = F()
        rig.app.face = face
        return go(rig.loop, rig.app, face, rig.app._receive)


def _utasks_plan(case):
    """the model history for a UDP script.  The translation keeps the loop's ready queue item by item (FIFO): a task
    created by datagram_received runs in the next iteration (`s1`), the callbacks the transport makes run in the order
    they were scheduled (`d:`), connection_lost resolves the face's `close` future and the main task's wake-up takes its
    place in the queue - when it runs, run() returns and main_loop cleans up (`lost`)."""
    evs = ['r:%d' % k for k in case.get('raises', [])]
    marks = []
    st = {'ready': [], 'closed': False, 'tclosed': False}

    def one_iter():
        cur, st['ready'] = st['ready'], []
        for it in cur:
            if it == 'task':
                evs.append('s1')
            elif it == 'wake':
                evs.append('lost')
                if not st['tclosed']:
                    st['tclosed'] = True
                    st['ready'].append('lostcb')
            elif it == 'lostcb':
                if not st['closed']:
                    st['closed'] = True
                    st['ready'].append('wake')
            else:
                evs.append('d:' + (it[1] or '-'))
                if read_num(bytes.fromhex(it[1]), 0) is not None:
                    st['ready'].append('task')
    for act in case['script']:
        if act[0] == 'dgram':
            st['ready'].append(('d', act[1]))
        elif act[0] == 'lost':
            st['ready'].append('lostcb')
        elif act[0] == 'shutdown':
            evs.append('sd')
            if not st['tclosed']:
                st['tclosed'] = True
                st['ready'].append('lostcb')
            marks.append(len(evs) - 1)
        elif act[0] == 'iter':
            one_iter()
            marks.append(len(evs) - 1)
    for _ in range(6):
        one_iter()
    return evs, marks


def run_utasks(case):
    """the REAL main_loop over the REAL UdpFace (its protocol object gets the datagrams; the datagram endpoint is a stub
    whose close() reports connection_lost on the next iteration, as a selector transport does)"""
    from ndn.transport.udp_face import UdpFace
    raises = set(case.get('raises', []))
    with AppRig(case['fe']) as rig:
        app, loop = rig.app, rig.loop
        face = UdpFace()
        app.face = face
        orig = app._receive
        created, entered, raised, cleanups = [], [], [], []

        async def _cb(i, typ, buf):
            entered.append(i)
            if i in raises:
                raised.append(i)
                raise RuntimeError('scripted failure of a receive step')
            await orig(typ, buf)

        def cb(typ, buf):
            created.append([typ, bytes(buf).hex()])
            return _cb(len(created) - 1, typ, buf)
        face.callback = cb
        real_clean = app._clean_up

        def clean():
            cleanups.append(len(entered))
            return real_clean()
        app._clean_up = clean

        class T:
            closed = False

            def sendto(self, d):
                pass

            def close(self):
                if not self.closed:
                    self.closed = True
                    loop.call_soon(self.proto.connection_lost, None)

        async def fake_endpoint(factory, **kw):
            p = factory()
            t = T()
            t.proto = p
            p.connection_made(t)
            return t, p
        loop.create_datagram_endpoint = fake_endpoint
        main = loop.create_task(app.main_loop())
        loop.settle(limit=2000)
        counts = []
        hung = False

        def one_iter():
            loop.call_soon(loop.stop)
            loop.run_forever()
        try:
            for act in case['script']:
                if act[0] == 'dgram':
                    loop.call_soon(face.handler.datagram_received, bytes.fromhex(act[1]), ('127.0.0.1', 6363))
                elif act[0] == 'lost':
                    loop.call_soon(face.handler.connection_lost, None)
                elif act[0] == 'shutdown':
                    app.shutdown()
                    counts.append([len(entered), len(created) - len(entered)])
                elif act[0] == 'iter':
                    one_iter()
                    counts.append([len(entered), len(created) - len(entered)])
            loop.settle(limit=2000)
        except RuntimeError:
            hung = True
        if main.done() and not main.cancelled() and main.exception() is not None:
            status = 'crashed:Other'
        elif main.done():
            status = 'shutdown'
        else:
            status = 'running'
        import gc
        gc.collect()
        return {'tasks': True, 'udp': True, 'created': created, 'entered': entered, 'raised': raised, 'counts': counts,
                'cleanup': cleanups[0] if cleanups else None, 'ncleanups': len(cleanups), 'status': status,
                'running': bool(face.running), 'hung': hung, 'errors': [list(e) for e in loop.errors]}

# ---------------------------------------------------------------------------------- implementation: reception
def _comps(name):
    return '_'.join(bytes(c).hex() for c in name) if len(name) else '~'


def _comps_of(uri):
    from ndn import encoding as enc
    return _comps(enc.Name.from_str(uri))


def _err(e):
    return 'E:' + cls_name(type(e).__name__)


def decode_outcomes(rig, wire, typ):
    """what the library's own decoders say about this packet (the model takes these as given)"""
    from ndn import encoding as enc
    from ndn.security.validator.digest_validator import params_sha256_checker
    lp = 'E:Other'
    inner = wire
    if typ == LP:
        try:
            r = enc.parse_lp_packet_v2(wire, with_tl=True)
            nack = '~' if r.nack is None else ('n' if r.nack.nack_reason is None else str(r.nack.nack_reason))
            tok = '~' if r.pit_token is None else (bytes(r.pit_token).hex() or '-')
            frag = '~' if r.fragment is None else (bytes(r.fragment).hex() or '-')
            lp = f'F:{nack}:{tok}:{frag}'
            inner = None if r.fragment is None else bytes(r.fragment)
        except Exception as e:                # noqa
            lp = _err(e)
            inner = None
    tl = i = d = 'E:Other'
    if inner is not None:
        try:
            tl = str(enc.parse_tl_num(inner)[0])
        except Exception as e:                # noqa
            tl = _err(e)
        try:
            name, _, app_param, sig = enc.parse_interest(inner, with_tl=True)
            req = app_param is not None or sig.signature_info is not None
            box = {}

            async def chk():
                box['r'] = await params_sha256_checker(name, sig)
            if req:
                rig.loop.run_now(chk())
            i = f"{_comps(name)}:{1 if req else 0}:{1 if box.get('r', True) else 0}"
        except Exception as e:                # noqa
            i = _err(e)
        try:
            name, _, _, _ = enc.parse_data(inner, with_tl=True)
            d = f'{_comps(name)}:{hashlib.sha256(inner).hexdigest()}'
        except Exception as e:                # noqa
            d = _err(e)
    return {'lp': lp, 'tl': tl, 'int': i, 'data': d}


def _table(rig):
    return rig.app._pit if rig.front_end == 'v2' else rig.app._int_tree


def _pit_snapshot(rig, ids, names):
    """the pending-Interest table by direct lookups (iterating a NameTrie yields unusable keys)"""
    out = []
    tab = _table(rig)
    for nm in names:
        try:
            node = tab[nm]
        except KeyError:
            continue
        out.append([_comps(nm), sorted(ids.get(id(e.future), -1) for e in node.pending_list)])
    if len(tab) != len(out):
        out.append(['?extra-nodes', [len(tab)]])
    return sorted(out)


def run_recv(case):
    with debug_logging(case.get('debug')):
        return _run_recv(case)


def _run_recv(case):
    from ndn import encoding as enc, types
    fe = case['fe']
    with AppRig(fe) as rig:
        app, loop = rig.app, rig.loop
        outcomes, invoked = {}, []
        ids, nodes, node_names = {}, [], []

        val = case.get('val')
        from ndn.security.validator.digest_validator import sha256_digest_checker as _lib_checker

        async def v2_validator(name, sig, ctx):
            if val == 'fail':
                return types.ValidResult.FAIL
            if val == 'default':      # appv2 has no default: what an application writes around the library's checker
                return types.ValidResult.PASS if await _lib_checker(name, sig) else types.ValidResult.FAIL
            return types.ValidResult.PASS

        async def v1_validator(name, sig):
            return val != 'fail'

        async def v2_data_validator(name, sig, ctx):      # 'fail' refuses Interests only (the finale needs Data to pass)
            if val == 'default':
                return types.ValidResult.PASS if await _lib_checker(name, sig) else types.ValidResult.FAIL
            return types.ValidResult.PASS

        async def v1_pass(name, sig):
            return True
        # 'default': the legacy front-end's own defaults (app.data_validator / app.int_validator); appv2: the handler is
        # attached without a validator (signed Interests are dropped), Data goes through the library's digest checker
        v1_val = None if val == 'default' else v1_validator
        v1_dval = None if val == 'default' else v1_pass
        v2_hval = None if val == 'default' else v2_validator

        async def waiter(i, coro):
            try:
                r = await coro
                content = r[1] if fe == 'v2' else r[2]
                outcomes[i] = ['data', bytes(content).hex() if content is not None else None]
            except types.InterestNack as e:
                outcomes[i] = ['nack', e.reason]
            except BaseException as e:        # noqa
                outcomes[i] = ['exc', type(e).__name__]
        d0 = data_d0()
        for i, p in enumerate(case['pend']):
            name = enc.Name.from_str(p['n'])
            if p['dg']:
                name = name + [enc.Component.from_bytes(hashlib.sha256(d0).digest(), enc.Component.TYPE_IMPLICIT_SHA256)]

            async def go(i=i, p=p, name=name):
                if fe == 'v2':
                    coro = app.express(name, v2_data_validator, can_be_prefix=p['cbp'], lifetime=600000, nonce=i + 1)
                else:
                    coro = app.express_interest(name, validator=v1_dval, can_be_prefix=p['cbp'], lifetime=600000, nonce=i + 1)
                nm = enc.Name.from_str(p['n'])
                if nm not in node_names:
                    node_names.append(nm)
                for e in _table(rig)[nm].pending_list:
                    if id(e.future) not in ids:
                        ids[id(e.future)] = i
                        nodes.append(_comps(nm))
                await waiter(i, coro)
            loop.run_now(go())
        for h in case['hand']:
            if fe == 'v2':
                def handler(name, app_param, reply, context, h=h):
                    tok = context.get('pit_token')
                    invoked.append([_comps(enc.Name.from_str(h)), None if tok is None else bytes(tok).hex()])
                app.attach_handler(h, handler, v2_hval)
            else:
                def handler1(name, param, app_param, h=h):
                    invoked.append([_comps(enc.Name.from_str(h)), None])
                app.set_interest_filter(h, handler1, v1_val)
        pend_desc = []
        for i, p in enumerate(case['pend']):
            full = _comps_of(p['n']) + ('_0120' + hashlib.sha256(d0).hexdigest() if p['dg'] else '')
            pend_desc.append({'node': nodes[i] if i < len(nodes) else '?', 'cbp': p['cbp'], 'full': full,
                              'digest': hashlib.sha256(d0).hexdigest() if p['dg'] else ''})
        pit0 = _pit_snapshot(rig, ids, node_names)
        fib0 = sorted(_comps(enc.Name.from_str(h)) for h in case['hand'])
        sent0 = len(rig.face.sent)
        trace = []
        for pk in case['pkts']:
            wire = bytes.fromhex(pk['w'])
            typ = first_type(wire) if pk['typ'] is None else pk['typ']
            dec = decode_outcomes(rig, wire, typ)
            before = dict(outcomes)
            inv0, err0 = len(invoked), len(loop.errors)
            exc = None
            if pk['mode'] == 'await':
                e = rig.deliver_await(wire, typ)
                loop.settle()
                if e is not None:
                    exc = cls_name(type(e).__name__)
            else:
                rig.deliver(wire, typ)
            bg = [cls_name(x[0]) for x in loop.errors[err0:]]
            done = {str(i): o for i, o in outcomes.items() if i not in before}
            trace.append({'typ': typ, 'wire': wire.hex(), 'dec': dec, 'exc': exc, 'bg': bg, 'done': done, 'invoked': invoked[inv0:],
                          'sent': len(rig.face.sent) - sent0, 'pit': _pit_snapshot(rig, ids, node_names)})
            sent0 = len(rig.face.sent)
        # finale: answer every Interest that is still pending with its own Data
        finale = {}
        for i, p in enumerate(case['pend']):
            if i in outcomes:
                continue
            if p['dg']:
                w = d0
            else:
                from ndn.security import DigestSha256Signer
                w = bytes(enc.make_data(p['n'], enc.MetaInfo(), b'fin', signer=DigestSha256Signer()))
            e = rig.deliver_await(w, 6)
            loop.settle()
            finale[str(i)] = [outcomes.get(i), None if e is None else cls_name(type(e).__name__)]
        # ... and every attached handler is sent a fresh, well-formed Interest of its own
        hfin = []
        for j, h in enumerate(case['hand']):
            n0 = len(invoked)
            w = bytes(enc.make_interest(h + '/fin/%d' % j, enc.InterestParam(nonce=0x0f0e0d00 + j, lifetime=4000)))
            e = rig.deliver_await(w, 5)
            loop.settle()
            hfin.append([_comps(enc.Name.from_str(h)), invoked[n0:], None if e is None else cls_name(type(e).__name__)])
        final = {str(i): outcomes.get(i) for i in range(len(case['pend']))}
        return {'pend': pend_desc, 'hfin': hfin, 'pit0': pit0, 'fib0': fib0, 'trace': trace, 'finale': finale, 'final': final,
                'errors_total': len(loop.errors)}


def run_impl(case):
    if case['k'] == 'stream':
        return run_stream(case)
    if case['k'] == 'udp':
        return run_udp(case)
    if case['k'] == 'turn':
        return run_turn(case)
    if case['k'] == 'tasks':
        return run_tasks(case)
    if case['k'] == 'utasks':
        return run_utasks(case)
    if case['k'] == 'conns':
        return run_conns(case)
    return run_recv(case)


def run_turn(case):
    """one (or two) pending Interest(s) on /a/b; the caller's cancellation / the lifetime's end and the delivery of a
    Nack or Data addressing it fall into ONE loop turn (end first, then the packet); afterwards a fresh Interest on
    the same name is answered"""
    from ndn import encoding as enc, types
    from ndn.security import DigestSha256Signer
    fe = case['fe']
    with AppRig(fe) as rig:
        app, loop = rig.app, rig.loop
        outcomes = {}

        async def v2_validator(name, sig, ctx):
            return types.ValidResult.PASS

        async def v1_validator(name, sig):
            return True

        async def waiter(i, coro):
            try:
                r = await coro
                outcomes[i] = ['data']
            except types.InterestNack as e:
                outcomes[i] = ['nack', e.reason]
            except BaseException as e:        # noqa
                outcomes[i] = ['exc', type(e).__name__]
        d0 = bytes(enc.make_data('/a/b', enc.MetaInfo(), b'd0', signer=DigestSha256Signer()))
        name = enc.Name.from_str('/a/b')
        if case['dg']:
            name = name + [enc.Component.from_bytes(hashlib.sha256(d0).digest(), enc.Component.TYPE_IMPLICIT_SHA256)]
        life = 500
        tasks = []

        async def express(i, lifetime):
            if fe == 'v2':
                coro = app.express(name, v2_validator, lifetime=lifetime, nonce=i + 1)
            else:
                coro = app.express_interest(name, validator=v1_validator, lifetime=lifetime, nonce=i + 1)
            await waiter(i, coro)
        t0 = loop.time()
        for i in range(2 if case['two'] else 1):
            tasks.append(loop.run_now(express(i, life)))
        what = case['what']
        if what.startswith('nack'):
            inner = bytes(enc.make_interest(name, enc.InterestParam(nonce=9, lifetime=life)))
            w = tlv(LP, (tlv(0x62, b'\x01\x02') if 'token' in what else b'') + tlv(0x320, tlv(0x321, b'\x96')) + tlv(0x50, inner))
        else:
            w = d0 if 'lp' not in what else tlv(LP, tlv(0x50, d0))
        err0 = len(loop.errors)
        if case['how'] == 'cancel':
            tasks[0].cancel()                       # no loop turn in between
            rig.deliver(w, first_type(w))
        elif case['how'] == 'cancel-after':
            # the face has read the packet (its reception task is scheduled) when the caller gives up: the reception
            # task runs before the cancelled task gets to clean up
            loop.create_task(rig.face.callback(first_type(w), w))
            tasks[0].cancel()
            loop.settle()
        else:
            # the deadline timer was created at express time, so it fires first in the turn at t0 + lifetime
            loop.call_at(t0 + life / 1000.0, lambda: loop.create_task(rig.face.callback(first_type(w), w)))
            loop.advance(t0 + life / 1000.0)
            loop.settle()
        bg = [cls_name(x[0]) for x in loop.errors[err0:]]
        first = {str(i): outcomes.get(i) for i in range(len(tasks))}
        # a fresh Interest on the same name must still be served
        fresh = len(tasks)
        loop.run_now(express(fresh, 4000))
        e = rig.deliver_await(d0, 6)
        loop.settle()
        return {'bg': bg, 'first': first, 'fresh': [outcomes.get(fresh), None if e is None else cls_name(type(e).__name__)],
                'pit_left': len(_table(rig)), 'errors_total': len(loop.errors)}


# -------------------------------------------------------------------------------------------- model
def model_line(case, impl):
    k = case['k']
    if k == 'stream':
        # the chunked machine gets the very cut that was fed to the real StreamReader
        return 'C06 chunks ' + '|'.join([c.hex() or '-' for c in _chunks(case)] + ['reset' if case.get('end') == 'reset' else 'eof'])
    if k == 'udp':
        return 'C06 udp ' + (case['data'] or '-')
    if k == 'tasks':
        return 'C06 tasks ' + ' '.join(_tasks_plan(case)[0])
    if k == 'utasks':
        return 'C06 utasks ' + ' '.join(_utasks_plan(case)[0])
    if k == 'conns':
        return None          # several connections of one face object: each is judged by the oracle (the model is one connection)
    if case.get('val'):
        return None          # validators that may refuse are outside the reception model (it assumes they pass): oracle only
    if k == 'turn':
        return None          # same-turn endings are outside the reception model (live pending Interests): oracle only
    groups = {}
    order = []
    for i, p in enumerate(impl['pend']):
        if p['node'] not in groups:
            groups[p['node']] = []
            order.append(p['node'])
        groups[p['node']].append(f"{i}/{1 if p['cbp'] else 0}/{p['digest'] or '-'}")
    pit = ';'.join(f"{n}={'+'.join(groups[n])}" for n in order) or '.'
    fib = ';'.join(impl['fib0']) or '.'
    toks = []
    for rec in impl['trace']:
        d = rec['dec']
        toks.append(f"{rec['typ']},{d['lp']},{d['tl']},{d['int']},{d['data']},{rec['wire'] or '-'}")
    return f"C06 recv {case['fe']} {pit} {fib} " + ' '.join(toks)


def _canon_pit(s):
    if s == '.':
        return []
    out = []
    for e in s.split(';'):
        n, ps = e.split('=')
        out.append([n, sorted(int(x.split('/')[0]) for x in ps.split('+'))])
    return sorted(out)


def model_obs(answer, case, impl):
    k = case['k']
    if k == 'stream':
        assert answer.startswith('ok '), answer
        tr, mid, status = answer[3:].split(' ; ')
        ps, rem = mid.split(' | ')
        pk = [] if ps == '.' else [[int(x.split(':')[0]), '' if x.split(':')[1] == '-' else x.split(':')[1]] for x in ps.split(',')]
        trace = [] if tr == '.' else [int(x) for x in tr.split(',')]
        if case.get('glue'):
            fg = _first_glued(case, len(_chunks(case)))
            trace = [None if fg <= i < len(trace) - 1 else x for i, x in enumerate(trace)]
        return {'got': pk, 'rem': '' if rem == '-' else rem, 'trace': trace, 'status': status}
    if k == 'udp':
        return answer
    if k in ('tasks', 'utasks'):
        assert answer.startswith('ok '), answer
        parts = answer[3:].split(' ; ')
        tr, proc, queue, status, running, errs, clean = parts[:7]
        trace = [] if tr == '.' else [[int(y) for y in x.split('/')] for x in tr.split(',')]
        if k == 'utasks':
            pk = lambda ps: [] if ps == '.' else [[int(x.split(':')[0]), '' if x.split(':')[1] == '-' else x.split(':')[1]] for x in ps.split(',')]
            return {'counts': [trace[m] if m >= 0 else [0, 0] for m in _utasks_plan(case)[1]], 'processed': pk(proc), 'pending': pk(queue),
                    'status': status, 'running': running == '1', 'raised': [] if errs == '.' else [int(x) for x in errs.split(',')],
                    'cleanup': None if clean == '.' else int(clean), 'callback-errors': parts[7]}
        pk = lambda ps: [] if ps == '.' else [[int(x.split(':')[0]), '' if x.split(':')[1] == '-' else x.split(':')[1]] for x in ps.split(',')]
        return {'counts': [trace[m] for m in _tasks_plan(case)[1]], 'processed': pk(proc), 'pending': pk(queue), 'status': status,
                'running': running == '1', 'raised': [] if errs == '.' else [int(x) for x in errs.split(',')],
                'cleanup': None if clean == '.' else int(clean)}
    parts = answer.split(' # ')
    assert len(parts) == 2, answer
    obs = {}
    for key, part in zip(('', 'bytes-'), parts):
        toks = part.split(' ')
        assert toks[-1].startswith('@'), answer
        out = []
        for t in toks[:-1]:
            if t.startswith('err:'):
                out.append(['err', t[4:]])
            else:
                assert t.startswith('ok:'), answer
                effs = [] if t[3:] == '-' else t[3:].split('+')
                out.append(['ok', sorted(effs)])
        obs[key + 'steps'] = out
        obs[key + 'pit'] = _canon_pit(toks[-1][1:])
    return obs


def impl_obs(impl):
    if impl.get('tasks'):
        ent = set(impl['entered'])
        if impl.get('udp'):
            return {'counts': impl['counts'], 'processed': [impl['created'][i] for i in impl['entered']],
                    'pending': [c for i, c in enumerate(impl['created']) if i not in ent], 'status': impl['status'],
                    'running': impl['running'], 'raised': impl['raised'], 'cleanup': impl['cleanup'],
                    'callback-errors': ','.join(cls_name(e[0]) for e in impl['errors'] if e[0] != 'RuntimeError') or '.'}
        return {'counts': impl['counts'], 'processed': [impl['created'][i] for i in impl['entered']],
                'pending': [c for i, c in enumerate(impl['created']) if i not in ent], 'status': impl['status'],
                'running': impl['running'], 'raised': impl['raised'], 'cleanup': impl['cleanup']}
    if 'trace' not in impl:
        if 'running' in impl:      # stream
            return {'got': impl['got'], 'rem': impl['rem'], 'trace': impl['chunk_trace'], 'status': impl['status']}
        if impl['errors']:
            return 'err ' + impl['errors'][0][0]
        return 'ok ' + (str(impl['got'][0][0]) if impl['got'] else 'none')
    steps = []
    for rec in impl['trace']:
        err = rec['exc'] or (rec['bg'][0] if rec['bg'] else None)
        if err:
            steps.append(['err', err])
            continue
        effs = []
        for i, o in rec['done'].items():
            if o[0] == 'nack':
                effs.append(f'N{i}:{o[1]}')
            elif o[0] == 'data':
                effs.append(f'S{i}')
            else:
                effs.append(f'X{i}:{o[1]}')
        for pfx, tok in rec['invoked']:
            effs.append(f"I{pfx}:{'~' if tok is None else (tok or '-')}")
        steps.append(['ok', sorted(effs)])
    pit = [[n, ids] for n, ids in impl['trace'][-1]['pit']] if impl['trace'] else impl['pit0']
    # the same observation is compared twice: with the pipeline model fed the real decoders' outcomes ('steps'), and
    # with the byte-level pipeline (C07 decoder models inside) fed the bytes alone ('bytes-steps')
    return {'steps': steps, 'pit': pit, 'bytes-steps': steps, 'bytes-pit': pit}


# ------------------------------------------------------------------------------------------- oracle
def _is_prefix(a, b):
    if a == '~':
        return True
    if b == '~':
        return False
    x, y = a.split('_'), b.split('_')
    return len(x) <= len(y) and y[:len(x)] == x


def oracle(case, impl):
    k = case['k']
    if k == 'tasks':
        return _oracle_tasks(case, impl)
    if k == 'utasks':
        return _oracle_utasks(case, impl)
    if k == 'conns':
        return _oracle_conns(case, impl)
    if k == 'stream':
        s = _stream_bytes(case)
        if impl['hung']:
            return 'stream: the face did not come to rest after the input'
        if impl['exc'] or impl['errors']:
            return f"stream: face task failed with {impl['exc'] or impl['errors'][0][0]}"
        got = [bytes.fromhex(g[1]) for g in impl['got']]
        if 'raw' not in case:
            want = [bytes.fromhex(p) for p in case['pkts']]
            if got != want:
                j = next((i for i in range(min(len(got), len(want))) if got[i] != want[i]), min(len(got), len(want)))
                return (f'stream: handed over {len(got)} packets, expected exactly the {len(want)} complete ones '
                        f'(first difference at packet {j})')
            for g, w in zip(impl['got'], want):
                if g[0] != first_type(w):
                    return 'stream: packet handed over with the wrong Type number'
        else:
            if b''.join(got) != s[:len(b''.join(got))]:
                return 'stream: handed-over packets are not consecutive pieces of the stream'
            for g in impl['got']:
                w = bytes.fromhex(g[1])
                t = read_num(w, 0)
                l = read_num(w, t[1]) if t else None
                if l is None or l[1] + l[0] != len(w) or t[0] != g[0]:
                    return 'stream: a partial or mis-typed packet was handed over'
        if impl['running'] or not impl['ended'] or impl['closed'] < 1:
            return 'stream: the face did not shut down when the stream ended'
        return None
    if k == 'udp':
        if impl['errors']:
            return f"udp: datagram_received raised {impl['errors'][0][0]} into the event loop"
        d = bytes.fromhex(case['data'])
        t = read_num(d, 0)
        l = read_num(d, t[1]) if t else None
        if l is not None and l[1] + l[0] == len(d) and impl['got'] != [[t[0], d.hex()]]:
            return 'udp: a complete packet was not handed over'
        return None
    if k == 'turn':
        fe = case['fe']
        if impl['bg'] or impl['errors_total']:
            return (f"{fe}: reception of a {case['what']} in the loop turn in which its Interest ended ({case['how']}) failed with "
                    f"{(impl['bg'] or ['?'])[0]} (unhandled in the per-packet task)")
        want0 = {'cancel': [['exc', 'CancelledError'], ['exc', 'InterestCanceled']],
                 'cancel-after': [['exc', 'CancelledError'], ['exc', 'InterestCanceled']], 'deadline': [['exc', 'InterestTimeout']]}[case['how']]
        if impl['first'].get('0') not in want0:
            return f"{fe}: the Interest that ended by {case['how']} finished as {impl['first'].get('0')}"
        if case['two']:
            kind = 'nack' if case['what'].startswith('nack') else 'data'
            allowed = [['exc', 'InterestTimeout'], ['nack', 150] if kind == 'nack' else ['data']] if case['how'] == 'deadline' \
                else [['nack', 150] if kind == 'nack' else ['data']]
            if impl['first'].get('1') not in allowed:
                return (f"{fe}: the second Interest on that name, addressed by the {kind}, finished as {impl['first'].get('1')} "
                        f"(allowed {allowed})")
        if impl['fresh'] != [['data'], None]:
            return f"{fe}: a fresh Interest on the same name afterwards was not served normally ({impl['fresh']})"
        if impl['pit_left']:
            return f"{fe}: {impl['pit_left']} pending-Interest nodes left at the end"
        return None
    pend = impl['pend']
    alive = set(range(len(pend)))
    for n, rec in enumerate(impl['trace']):
        fe = case['fe']
        if rec['exc']:
            return f"{fe}: reception failed with {rec['exc']} (packet {n}, awaited, {len(case['pkts'][n]['w']) // 2} bytes)"
        if rec['bg']:
            return f"{fe}: reception failed with {rec['bg'][0]} (packet {n}, unhandled in the per-packet task)"
        d = rec['dec']
        typ, nack, ok = rec['typ'], None, True
        if typ == LP:
            if d['lp'].startswith('E:'):
                ok = False
            else:
                _, nk, tok, frag = d['lp'].split(':')
                if frag == '~' or d['tl'].startswith('E:'):
                    ok = False
                else:
                    typ = int(d['tl'])
                    # a Nack header without NackReason is a Nack with reason None = 0 (NDNLPv2)
                    nack = None if nk == '~' else 0 if nk == 'n' else int(nk)
        kind, name = 'drop', None
        if ok:
            if nack is not None:
                if not d['int'].startswith('E:'):
                    kind, name = 'nack', d['int'].split(':')[0]
            elif typ == 5 and not d['int'].startswith('E:'):
                kind, name = 'interest', d['int'].split(':')[0]
            elif typ == 6 and not d['data'].startswith('E:'):
                kind, name = 'data', d['data'].split(':')[0]
        for i, o in rec['done'].items():
            i = int(i)
            node = pend[i]['node']
            if kind == 'nack' and name in (node, pend[i]['full']) and o == ['nack', nack]:
                pass
            elif kind == 'data' and _is_prefix(node, name) and o[0] == 'data':
                pass
            elif kind == 'data' and _is_prefix(node, name) and case.get('val') and o == ['exc', 'ValidationFailure']:
                pass          # the Data addresses the Interest and the (default) validator refuses it
            else:
                return (f"{fe}: packet {n} ({kind}) completed pending Interest {i} with {o[0]} although it does not "
                        f"legitimately address it")
            alive.discard(i)
        if kind != 'interest' and rec['invoked']:
            return f'{fe}: packet {n} ({kind}) invoked a handler'
        if len(rec['invoked']) > 1:
            return f'{fe}: one Interest invoked {len(rec["invoked"])} handlers'
        if rec['sent']:
            return f'{fe}: receiving packet {n} made the application send {rec["sent"]} packets'
    for i in sorted(alive):
        f = [impl['final'].get(str(i)), (impl['finale'].get(str(i)) or [None, None])[1]]
        if f[0] is None or f[0][0] != 'data' or f[1] is not None:
            return (f"{case['fe']}: pending Interest {i}, not addressed by any delivered packet, did not complete normally "
                    f"afterwards ({f})")
    hands = [h for h, _, _ in impl.get('hfin', [])]
    for h, inv, exc in impl.get('hfin', []):
        # the fresh Interest /h/fin/j belongs to the longest attached prefix of its name, which is h unless a longer
        # attached prefix also covers it (none does: the names are /<h>/fin/<j>)
        if exc is not None or [x[0] for x in inv] != [h]:
            return (f"{case['fe']}: attached handler, not addressed by a bad packet, did not receive a well-formed Interest "
                    f"afterwards (invoked {[x[0] for x in inv]}, error {exc})")
    _ = hands
    if impl['errors_total']:
        return f"{case['fe']}: {impl['errors_total']} unhandled errors reached the event loop"
    return None


def _oracle_tasks(case, impl):
    """from the statement: exactly the sequence of complete packets, each once and in order; no partial packet; no
    background task ends with an unhandled error (other than the scripted failures, one each)"""
    if impl['hung']:
        return 'tasks: the loop did not come to rest after the input'
    s = _tasks_fed(case)
    want, pos = [], 0
    while True:                       # the complete elements of everything fed (independent of the library)
        t = read_num(s, pos)
        l = read_num(s, t[1]) if t else None
        if not t or not l or l[1] + l[0] > len(s):
            break
        want.append([t[0], s[pos:l[1] + l[0]].hex()])
        pos = l[1] + l[0]
    ent = [impl['created'][i] for i in impl['entered']]
    if impl['entered'] != list(range(len(impl['entered']))):
        return 'tasks: the per-packet tasks were not entered in the order in which they were created'
    if ent != want[:len(ent)]:
        j = next((i for i in range(min(len(ent), len(want))) if ent[i] != want[i]), min(len(ent), len(want)))
        return f'tasks: what was handed over is not a prefix of the complete packets of the stream (first difference at packet {j})'
    if len(impl['created']) != len(impl['entered']):
        return (f"tasks: {len(impl['created']) - len(impl['entered'])} complete packet(s) were read off the stream but their "
                'receive step was never entered')
    acts = [a[0] for a in case['script']]
    if not any(a in ('shutdown', 'reset', 'other') for a in acts) and len(ent) != len(want):
        return f'tasks: handed over {len(ent)} packets, expected exactly the {len(want)} complete ones'
    bg = [e for e in impl['errors']]
    if len(bg) != len(impl['raised']) or any(e[0] != 'RuntimeError' for e in bg):
        other = [e[0] for e in bg if e[0] != 'RuntimeError']
        return f"tasks: a background task ended with an unhandled error ({(other or ['?'])[0]})"
    if 'eof' in acts and impl['status'] != 'shutdown':
        return f"tasks: the stream ended but main_loop did not end normally ({impl['status']})"
    return None


def _answer_due(conn):
    """the Data answering this connection's Interest is a complete packet of the connection's stream, its receive step is
    not scripted to fail, and after the chunk that completes it the connection is left alone until the loop is at rest
    (a `settle`) before anything ends it"""
    sc = conn['script']
    want, _ = _complete_packets(b''.join(bytes.fromhex(a[1]) for a in sc if a[0] == 'feed'))
    idx = next((i for i, w in enumerate(want) if w[1] == conn['ask_data']), None)
    if idx is None or idx in conn.get('raises', []):
        return False
    end = sum(len(w[1]) // 2 for w in want[:idx + 1])
    fed = 0
    for j, a in enumerate(sc):
        if a[0] in ('eof', 'reset', 'other', 'shutdown'):
            return False
        if a[0] == 'feed':
            fed += len(a[1]) // 2
        if a[0] == 'settle' and fed >= end:
            return True
    return False


def _oracle_conns(case, impl):
    """from the statement, for EVERY connection of the one face object: exactly the sequence of complete packets of the
    connection's own byte stream, each once and in order, never a partial packet, shut down when the stream ends; no
    background task ends with an unhandled error (other than the scripted failures, one each); a pending Interest that
    the packets of the stream do not address otherwise completes normally with its Data"""
    n = len(case['conns'])
    where = 'face' if case['layer'] == 'face' else 'application (%s)' % case['layer']
    for ci, conn in enumerate(case['conns']):
        head = f'connection {ci + 1} of {n} on the same {where} object: '
        if ci >= len(impl['conns']):
            break
        rec = impl['conns'][ci]
        sub = {'hung': rec['hung'], 'created': rec['created'], 'entered': rec['entered'], 'raised': rec['raised'],
               'errors': [['RuntimeError', '']] * len(rec['raised']), 'status': rec['status']}
        why = _oracle_tasks({'script': conn['script']}, sub)
        if why:
            return head + why
        acts = [a[0] for a in conn['script']]
        if ('eof' in acts or 'reset' in acts) and rec['running']:
            return head + 'tasks: the face did not shut down when the stream ended'
        if conn.get('ask') is not None and _answer_due(conn):
            if rec['answer'] != ['data', (b'answer-%d' % conn['ask']).hex()]:
                return (head + f"the Interest expressed on this connection was answered by a complete, valid Data packet of "
                        f"the connection's stream but finished as {rec['answer']}")
    raised = sum(len(r['raised']) for r in impl['conns'])
    bg = [e[0] for e in impl['errors']]
    other = [e for r in impl['conns'] for e in r['bg']] + [e for e in bg if e != 'RuntimeError']
    if other or len(bg) > raised:
        return f"connections on the same {where} object: a background task ended with an unhandled error ({(other or ['?'])[0]})"
    return None


def _oracle_utasks(case, impl):
    """every datagram that starts with a readable Type number is handed over whole, once, in order of arrival; the others
    are dropped; nothing ends with an unhandled error except the scripted failures"""
    if impl['hung']:
        return 'udp tasks: the loop did not come to rest after the input'
    want = []
    for a in case['script']:
        if a[0] == 'dgram':
            d = bytes.fromhex(a[1])
            t = read_num(d, 0)
            if t is not None:
                want.append([t[0], a[1]])
    ent = [impl['created'][i] for i in impl['entered']]
    if impl['entered'] != list(range(len(impl['entered']))):
        return 'udp tasks: the per-datagram tasks were not entered in the order in which they were created'
    if len(impl['created']) != len(impl['entered']):
        return f"udp tasks: {len(impl['created']) - len(impl['entered'])} datagram(s) were accepted but their receive step was never entered"
    if ent != want:
        return f'udp tasks: handed over {len(ent)} datagrams, expected exactly the {len(want)} that start with a Type number, in order'
    bg = impl['errors']
    if len(bg) != len(impl['raised']) or any(e[0] != 'RuntimeError' for e in bg):
        other = [e[0] for e in bg if e[0] != 'RuntimeError']
        return f"udp tasks: something ended with an unhandled error ({(other or ['?'])[0]})"
    return None


def nontrivial(case, impl):
    if case['k'] == 'conns':
        return len(impl['conns']) >= 2 and any(r['created'] for r in impl['conns'][1:])
    if case['k'] in ('tasks', 'utasks'):
        return len(impl['created']) >= 1
    if case['k'] == 'stream':
        return bool(case['cuts'])
    if case['k'] == 'udp':
        return len(case['data']) <= 18
    if case['k'] == 'turn':
        return True
    return bool(case['pend'] or case['hand'])


def tags(case, impl):
    t = ['kind:' + case['k']]
    if case['k'] == 'conns':
        t.append('conns:' + case['layer'])
        t.append('conns-connections:%d' % len(case['conns']))
        for ci, conn in enumerate(case['conns'][:-1]):
            acts = [a[0] for a in conn['script']]
            fed = b''.join(bytes.fromhex(a[1]) for a in conn['script'] if a[0] == 'feed')
            mid = _complete_packets(fed)[1] < len(fed)
            how = next((a for a in acts if a in ('eof', 'reset', 'other', 'shutdown')), 'closed')
            t.append('conns-earlier-connection-ended:%s:%s' % (how, 'mid-packet' if mid else 'on-boundary'))
            if conn.get('norest'):
                t.append('conns-reopened-at-once')
        for conn, rec in zip(case['conns'], impl['conns']):
            if conn.get('ask') is not None:
                t.append('conns-interest:' + ('answer-due' if _answer_due(conn) else 'not-due') + ':' + str((rec['answer'] or ['none'])[0]))
    elif case['k'] == 'utasks':
        acts = [a[0] for a in case['script']]
        t.append('udp-tasks:' + case['fe'])
        t.append('udp-tasks-created:%d' % min(len(impl['created']), 6))
        for a in ('lost', 'shutdown'):
            if a in acts:
                t.append('udp-tasks-' + a)
        if len(impl['created']) < acts.count('dgram'):
            t.append('udp-tasks-datagram-dropped')
    elif case['k'] == 'tasks':
        acts = [a[0] for a in case['script']]
        t.append('tasks:' + case['fe'])
        t.append('tasks-created:%d' % min(len(impl['created']), 6))
        for a in ('eof', 'shutdown', 'reset', 'other'):
            if a in acts:
                t.append('tasks-' + a)
        if impl['raised']:
            t.append('tasks-receive-step-raises')
        evs = _tasks_plan(case)[0]
        if any(e.startswith('c:') and e != 'c:-' for e in evs):
            t.append('tasks-last-bytes-and-eof-in-one-pass')
        if 'sd' in evs and any(e.startswith(('f:', 'c:')) and e != 'c:-' for e in evs[evs.index('sd'):]):
            t.append('tasks-bytes-after-shutdown')
    elif case['k'] == 'stream':
        t.append('cuts:%d' % min(len(case['cuts']), 8))
        t.append('stream-packets:%d' % len(impl['got']))
        t.append('stream-end:' + case.get('end', 'eof'))
        if len(_stream_bytes(case)) >= 65536:
            t.append('stream-with-64k-packet')
    elif case['k'] == 'turn':
        t.append(f"turn:{case['fe']}:{case['how']}:{case['what']}")
    elif case['k'] == 'recv':
        t.append(f"{case['fe']}:pend{len(case['pend'])}:hand{len(case['hand'])}")
        t.append('validators:' + (case.get('val') or 'scripted-pass'))
        t.append('debug-logging:' + ('on' if case.get('debug') else 'off'))
        for pk, rec in zip(case['pkts'], impl['trace']):
            t.append('pkt:' + pk.get('tag', '?').split('+')[0])
            t.append('mode:' + pk['mode'])
            for stage in ('lp', 'tl', 'int', 'data'):
                if rec['dec'][stage].startswith('E:') and rec['dec'][stage] != 'E:Other':
                    t.append(f"decoder-raise:{stage}:{rec['dec'][stage][2:]}")
            if rec['done']:
                t.append('completes-pending')
            if rec['invoked']:
                t.append('invokes-handler')
            if rec['exc'] or rec['bg']:
                t.append('leak:' + (rec['exc'] or rec['bg'][0]))
    return t


def finding_key(case, impl, why):
    w = re.sub(r'\(packet \d+.*?\)', '', why).replace('v1:', 'legacy:').replace('v2:', 'appv2:')
    w = re.sub(r'packet \d+', 'packet', w)
    w = re.sub(r'Interest \d+', 'Interest', w)
    w = re.sub(r'\b\d+\b', 'N', w)
    w = re.sub(r'[^a-zA-Z0-9]+', '-', w).strip('-').lower()
    return w[:70]


LEVEL_TEXT = ('Lean 4 theorems over (a) a model of StreamFace.run / read_tl_num_from_stream: exact '
              'framing of every packet sequence followed by any proper prefix of a packet, and partition/never-partial for every '
              'byte stream (on the concatenated stream), and a model of asyncio.StreamReader (buffer, eof flag, exception) with '
              'StreamFace.run as a resumable machine over the transport events feed/eof/set_exception: for EVERY list of chunks '
              'the machine hands over exactly the framing of the concatenation and shuts down (chunks_irrelevant, chunked_concat), '
              'after every chunk exactly the complete elements received so far (never_partial_chunked, trace_chunked, '
              'handed_over_prefix), and an EOF / transport exception at any point hands over nothing more '
              '(reset_mid_packet); the except tuple of StreamFace.run is generated from the source; (b) a model of _receive/_on_nack/_on_data/_on_interest of both front-ends over abstract decoder '
              'outcomes, with the except tuples, the missing-Fragment guard, the Nack-lookup guard and the future-already-done guards of nack_interest / satisfy generated from the live '
              'source with ast: reception is total for every combination of decoder outcomes in the raisable set and every '
              'table state, a dropped packet leaves the tables unchanged and uncompleted pending Interests stay pending; and '
              'with the decoders instantiated by the byte-level decoder models of C07 (whose error classes are proved there '
              'for every byte string) reception is total for EVERY delivered byte string and type number '
              '(receive_bytes_total); '
              '(c) UdpFace.datagram_received is total for every datagram; '
              '(d) the task layer - the reader machine under an event loop with a FIFO ready queue of per-packet tasks, loop '
              'turns, end of stream in the same pass as the last bytes, transport errors, app.shutdown() at any instant and '
              'raising receive steps: for EVERY event history the packets delivered are a prefix of the framing of the bytes '
              'fed, equal to it once the queue has drained on an open connection, whatever the chunks and the interleaving '
              'of turns (tasks_exactly_once_in_order, tasks_delivered_when_drained, tasks_chunks_and_turns_irrelevant), no '
              'task ever carries a partial packet (tasks_never_partial, tasks_end_mid_packet), no task is withdrawn from the '
              'queue and after shutdown() everything received before is delivered and at most one more packet '
              '(tasks_never_withdrawn, tasks_shutdown_guarantee), and a raising receive step changes nothing for the other '
              'tasks (tasks_isolated). Model and code are tied on every run by differential '
              'execution (real StreamReader with every cut, real NDNApp of both front-ends fed mutated packets) and the '
              'property oracle is evaluated on the implementation.')
LEVEL_NOTE = ('Proofs are about the model; model = code is sampled. The set of exception classes of the decoders is proved for '
              'the C07 decoder models (not sampled any more); that those models are the real decoders is C07\'s correspondence '
              'plus the byte-level comparison made here. Chunking is part of the stream model and proved for every cut; '
              'that the StreamReader model is asyncio\'s StreamReader is tied per chunk by the harness (hand-over count after '
              'every feed).')
TECHNIQUE = ('Lean 4 proof (induction over packet lists / fuel, simulation invariant between the chunked reader machine and '
             'the framing of the concatenated stream, case analysis over generated except tuples closed by decide, '
             'table invariant) + generated tables from ast + model/implementation correspondence check')
DESIGN_REF = 'DESIGN.md section 7, C06'
