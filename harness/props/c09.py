"""C09 - name representations (URI text, component list, wire) are mutually consistent; prefix test;
canonical order.  Code: src/ndn/encoding/name/{Name,Component}.py, src/ndn/encoding/tlv_var.py."""
import re
import struct

from props import c09_extract

PROP = 'C09'
TITLE = 'Name representations (URI, component list, wire) are mutually consistent'
LEAN_TARGETS = ['NdnProofs.Props.C09', 'NdnProofs.Props.C09Tables', 'NdnProofs.Props.C09ToStr',
                'NdnProofs.Props.ComponentGen', 'NdnProofs.Props.TlvVarGen', 'NdnGen.Component', 'NdnGen.TlvVar',
                'NdnProofs.Props.NameGen', 'NdnGen.NameGen']
THEOREMS = [
    'Ndn.C09.decode_encode_name', 'Ndn.C09.normalize_wire', 'Ndn.C09.decode_accepts_exact', 'Ndn.C09.decode_overrun_rejected',
    'Ndn.C09.isPrefix_iff', 'Ndn.C09.isPrefix_iff_componentwise',
    'Ndn.C09.unescape_escape', 'Ndn.C09.fromStr_toCanonicalUri', 'Ndn.C09.getType_getValue',
    'Ndn.C09.fromStr_toStr', 'Ndn.C09.toStr_total', 'Ndn.C09.fromStr_toStr_oddwidth', 'Ndn.C09.fromStr_shorthand_number', 'Ndn.C09.fromStr_shorthand_digest',
    'Ndn.C09.name_fromStr_toCanonicalUri', 'Ndn.C09.name_fromStr_toStr', 'Ndn.C09.normalize_agree',
    'Ndn.C09.write_lex_mono', 'Ndn.C09.bytesLt_iff_lex', 'Ndn.C09.order_canonical_component', 'Ndn.C09.order_canonical_name',
    'Ndn.C09.order_canonical_name_list',
    'Ndn.C09.uri_root', 'Ndn.C09.uri_empty_component', 'Ndn.C09.uri_trailing_empty_component',
    'Ndn.C09.uri_trailing_slash_ignored', 'Ndn.C09.uri_leading_slash_optional',
    'Ndn.C09.escape_then_fromStr',
    # generated tables (lean/NdnGen) pinned to the model
    'Ndn.C09.tables_recognised', 'Ndn.C09.charset_table', 'Ndn.C09.type_constants', 'Ndn.C09.shorthand_tables',
    'Ndn.C09.shorthand_lookup_inverse', 'Ndn.C09.shorthand_number_table', 'Ndn.C09.digest_tables', 'Ndn.C09.toStr_number_guard',
    'Ndn.C09.escaping_table', 'Ndn.C09.empty_component_literals', 'Ndn.C09.type_range_probes', 'Ndn.C09.tlNumSize_table',
    'Ndn.C09.packUint_table', 'Ndn.C09.writeTlNum_table', 'Ndn.C09.parseTlNum_table', 'Ndn.C09.int_digit_limit',
    # Component.py / tlv_var.py helpers TRANSLATED from their source text on every run (harness/py2lean.py ->
    # lean/NdnGen/Component.lean, TlvVar.lean) = the model functions (Ndn.Comp.*, Ndn.tlNumSize ...), for all inputs
    'Ndn.ComponentGen.all_translated', 'Ndn.ComponentGen.get_type_eq', 'Ndn.ComponentGen.get_value_eq',
    'Ndn.ComponentGen.to_number_eq', 'Ndn.ComponentGen.from_bytes_eq', 'Ndn.ComponentGen.from_bytes_nonpos',
    'Ndn.ComponentGen.from_number_eq', 'Ndn.ComponentGen.from_typed_number_eq',
    'Ndn.TlvVarGen.all_translated', 'Ndn.TlvVarGen.get_tl_num_size_eq', 'Ndn.TlvVarGen.write_tl_num_eq',
    'Ndn.TlvVarGen.pack_uint_bytes_eq', 'Ndn.TlvVarGen.parse_tl_num_eq',
    # Name.py wire-level functions TRANSLATED from their source text on every run (-> lean/NdnGen/NameGen.lean: reduce =
    # fold, for = Py.forEach, while = recursion on fuel) = the model functions (Ndn.Name.*), for all inputs
    'Ndn.NameGen.all_translated', 'Ndn.NameGen.encoded_length_eq', 'Ndn.NameGen.is_prefix_core_eq',
    'Ndn.NameGen.encode_eq', 'Ndn.NameGen.encode_eq_empty', 'Ndn.NameGen.encode_into_eq', 'Ndn.NameGen.decode_eq', 'Ndn.NameGen.decode_error_class', 'Ndn.NameGen.decode_fuel_suffices',
    'Ndn.NameGen.decode_error_of_model', 'Ndn.NameGen.decode_ok_model', 'Ndn.NameGen.decode_ok_of_model',
    # Name.decode(buf, offset) at EVERY offset >= 0 = Ndn.Name.decodeAt = decoding the suffix buf[offset:] (components, count
    # and exception; offset >= len(buf): IndexError); negative offsets: below -len(buf) IndexError, and like the equivalent
    # offset len(buf) + offset when the Name element ends strictly before the end of the buffer
    'Ndn.decodeAt_eq_drop', 'Ndn.decodeAt_zero', 'Ndn.decodeAt_outside', 'Ndn.decodeAt_append',
    'Ndn.NameGen.decode_at_eq', 'Ndn.NameGen.decode_at_drop', 'Ndn.NameGen.decode_at_suffix', 'Ndn.NameGen.decode_at_outside',
    'Ndn.NameGen.decode_at_fuel_suffices', 'Ndn.NameGen.decode_below', 'Ndn.NameGen.decode_neg_ok',
]
PARTIAL = {}
TRUSTED = [
    'C09: Python str is modelled as a list of Unicode scalar values (no lone surrogates); str.encode() is Lean String.utf8EncodeChar',
    'C09: int(s) / int(s,16) / bytearray.fromhex are modelled on strings over Component.CHARSET only (the code rejects any other character first); the CPython 4300-digit limit of int() is modelled with its default value',
    'C09: component values and names shorter than 2^64 bytes (struct.pack would raise otherwise); Component.from_bytes is modelled for typ >= 0',
    'C09: Name.decode is modelled as the code is since the repair of finding F3: a component whose extent exceeds what is left of the declared Length of the Name raises IndexError before it is appended (Ndn.Name.decodeLoop has the test where the source has it); model and implementation must agree on such wires like on any other (no tolerance in the correspondence)',
    'C09 (Component.py, tlv_var.py byte-level helpers): get_type, get_value, to_number, from_bytes, from_number, from_segment / '
    'byte_offset / version / timestamp / sequence_num and the tlv_var.py functions they call are translated from the source '
    'text by harness/py2lean.py (a compositional translator for a delimited subset of Python; anything outside it is '
    'reported as not translated) and proved equal to the model functions for all inputs; trusted there: the translator, '
    'lean/NdnModel/PySem.lean (the reading of CPython ints, struct, indexing, slicing, bytearray(n), slice assignment it maps '
    'to), module-level constants not rebound from outside the module, arguments of the annotated types',
    'C09 (Name.py wire-level functions): encoded_length, encode, decode and the last two lines of is_prefix are translated '
    'from the source text by harness/py2lean.py (reduce(lambda) = a left fold, `for comp in name` = Py.forEach, the `while` '
    'loop of decode = recursion on a fuel argument whose bound `length + 1` is DECLARED by the request and proved never to '
    'be exhausted) and proved equal to Ndn.Name.* for all inputs (encode: fresh buffer, empty buffer passed, and into a '
    'caller-supplied buffer at an offset >= 0; decode at EVERY offset >= 0: plain equality with Ndn.Name.decodeAt, which is '
    'Ndn.Name.decode of the suffix buf[offset:] - the IndexError of a component that overruns the declared Length and of an '
    'offset at or past the end of the buffer included); '
    'trusted there, besides the translator and PySem.lean: '
    'that a FormalName argument is a list of byte strings which the call does not change meanwhile, and - declared by the '
    'request, stated in the generated file - that Name.normalize returns an equal list on an argument that already is a '
    'list of byte strings (is_prefix is translated for such arguments only)',
    'C09 (NEGATIVE offsets of Name.decode; encode into a buffer at a negative offset is not covered at all): proved of the '
    'translated source - offset < -len(buf) raises IndexError (decode_below); for -len(buf) <= -k < 0, when decoding at the '
    'equivalent offset len(buf) - k succeeds and the Name element ends STRICTLY before the end of the buffer, decode(buf, -k) '
    'returns the same components and count (decode_neg_ok).  Everything else about negative offsets is OUTSIDE the '
    'theorems and the model, and the stream only observes it: parse_tl_num indexes buf[offset] from the end, but a bound that '
    'has reached 0 is not normalised, so when the element ends exactly WITH the buffer the last component is the empty slice '
    'buf[st:0] (Name.decode(b"\\x07\\x02\\x08\\x00", -4) == ([b""], 4): no exception, wrong components), multi-byte TL numbers '
    'ending with the buffer raise struct.error, an offset that reaches 0 continues reading at the START of the buffer '
    '(Name.decode(b"\\x02\\x08\\x00\\x07", -1) == ([b"\\x08\\x00"], 4)), and the test length > len(buf) - offset is weaker by '
    '|offset|; both calls are closed `example`s about the translated source in NameGen.lean.  The annotated contract '
    '(offset: int = 0, callers pass positions >= 0) is read as offset >= 0',
    'C09: lean/NdnGen/C09.lean is regenerated on every run by harness/props/c09_extract.py from Component.py, Name.py and tlv_var.py (live constants of the imported modules, ast shapes, live probes of the range checks and of the TL-number / pack_uint_bytes ladders at the integer constants of their source); the name model READS the character set and the two shorthand tables from it, every other literal of the model is pinned to it by the *_table theorems (closed by evaluation). Trusted: the extractor (an unrecognised shape is emitted as false/unknown and fails tables_recognised), and that a step function is constant between the probed constants of its source',
]
RULE = ('names of 0..8 components, types from {1,2,8,32,50,52,54,56,58,252,253,65535,random 1..65535}, value bytes weighted to '
        '/ % = . ~ _ - 0x00 0x7f-0xff, typed numbers at the 1/2/4/8-byte width boundaries, every one of the 256 byte values as a '
        'single-byte component; a URI parsing stream (valid URIs mutated: truncated escapes, stray = % -, upper/lower-case hex, '
        'non-ASCII, typed prefixes with odd numbers) compared on accept/reject class and value; arbitrary text through escape_str '
        '(every Latin-1 supplement character, the code points on the UTF-8 width boundaries U+007F/80, U+07FF/800, U+D7FF/E000, '
        'U+FFFF/10000, U+10FFFF, random scalars of every width); second use: every constructor asked twice with the caller '
        'overwriting the first (mutable) result or its argument buffer in between; '
        'typed numbers 0..2^64-1 and just outside; well-formed and damaged Name wires; Name wires whose Length ends strictly inside a component (after 0..3 whole components; the component wholly inside the buffer, ending with it, or cut by it) - decode and normalize must raise IndexError, and whatever decode accepts must tile the declared Length exactly with whole components; pairs of related names for is_prefix and for '
        'byte order versus an independent (type, length, value) comparison; names whose total Length and components whose '
        'own Length sit on 252/253 and 65535/65536 (1- and 3-byte Type numbers); oracle-only observations on the other '
        'front-ends of the same conversions (to_bytes/from_bytes, decode/encode at a non-zero offset, encoded_length, '
        'normalize of tuple/generator/bytes+bytearray+memoryview+str lists, non-strict arguments of to_str/'
        'to_canonical_uri/is_prefix, lower-case percent escapes, upper-case digests, the five typed-number constructors '
        'and shorthands); Name.decode(buf, offset) on generated / damaged / overrunning Name wires embedded between 0..6 and 0..5 '
        'other bytes, offset in {0, 1, k, k+1, k+size, len-1, len, len+1} compared with the model of the suffix and judged by an '
        'independent reader (same components as the suffix, count = size of the Name element, IndexError at or past the end), '
        'and in {-1, -2, -(len-k), -(len-k)+-1, -len, -len+1, -len-1} judged where a theorem speaks (IndexError below -len; equal '
        'to the equivalent offset when the element ends before the end of the buffer). non-trivial = at least one component / an accepted URI / '
        'a pair that is not identical; distinct = distinct cases')

NUM_TYPES = (50, 52, 54, 56, 58)
TYPES = [1, 2, 8, 8, 8, 32, 50, 52, 54, 56, 58, 252, 253, 65535]
SPECIAL = [0x2f, 0x25, 0x3d, 0x2e, 0x7e, 0x5f, 0x2d, 0x00, 0x7f, 0x80, 0xff, 0x20, 0x41, 0x61, 0x30, 0x39]
BOUNDS = [0, 1, 0xfc, 0xfd, 0xff, 0x100, 0xffff, 0x10000, 0xffffffff, 0x100000000, 2**63, 2**64 - 1]


def _imports():
    from ndn.encoding import Name, Component
    return Name, Component


# ----------------------------------------------------------------------------------- token helpers
def _hx(b):
    b = bytes(b)
    return b.hex() if b else '-'


def _tx(s):
    return _hx(s.encode('utf-8'))


def _nm(n):
    return ','.join(_hx(c) for c in n) if n else '.'


def _unhx(h):
    return b'' if h == '-' else bytes.fromhex(h)


def _untx(h):
    return _unhx(h).decode('utf-8')


def _unnm(h):
    return [] if h == '.' else [_unhx(x) for x in h.split(',')]


def _cls(e):
    return 'struct.error' if isinstance(e, struct.error) else type(e).__name__


def _exec(op):
    """one protocol op; afterwards the caller treats what the library returned as its own and overwrites / edits it in
    place (pktcommon.scribble_returned): what a function hands out must not be something it hands out, or reads, again"""
    keep = []
    try:
        return _exec_inner(op, keep)
    finally:
        import pktcommon as _PK
        for v in keep:
            _PK.scribble_returned(v)


def _exec_inner(op, keep):
    """run one protocol op on the REAL implementation; returns (token, python value or None)"""
    Name, Component = _imports()
    a = op.split(':')
    k = a[0]
    try:
        if k == 'fb':
            v = Component.from_bytes(_unhx(a[2]), int(a[1])); keep.append(v); return 'ok=' + _hx(v), bytes(v)
        if k == 'fn':
            v = Component.from_number(int(a[1]), int(a[2])); keep.append(v); return 'ok=' + _hx(v), bytes(v)
        if k == 'fs':
            v = Component.from_str(_untx(a[1])); keep.append(v); return 'ok=' + _hx(v), bytes(v)
        if k == 'es':
            v = Component.escape_str(_untx(a[1])); keep.append(v); return 'ok=' + _tx(v), v
        if k == 'ts':
            v = Component.to_str(_unhx(a[1])); keep.append(v); return 'ok=' + _tx(v), v
        if k == 'tc':
            v = Component.to_canonical_uri(_unhx(a[1])); keep.append(v); return 'ok=' + _tx(v), v
        if k == 'gt':
            v = Component.get_type(_unhx(a[1])); keep.append(v); return 'ok=%d' % v, v
        if k == 'gv':
            v = Component.get_value(_unhx(a[1])); keep.append(v); return 'ok=' + _hx(v), bytes(v)
        if k == 'tn':
            v = Component.to_number(_unhx(a[1])); keep.append(v); return 'ok=%d' % v, v
        if k == 'nfs':
            v = Name.from_str(_untx(a[1])); keep.append(v); return 'ok=' + _nm(v), [bytes(c) for c in v]
        if k == 'nts':
            v = Name.to_str(_unnm(a[1])); keep.append(v); return 'ok=' + _tx(v), v
        if k == 'ntc':
            v = Name.to_canonical_uri(_unnm(a[1])); keep.append(v); return 'ok=' + _tx(v), v
        if k == 'enc':
            v = Name.encode(_unnm(a[1])); keep.append(v); return 'ok=' + _hx(v), bytes(v)
        if k == 'dec':
            v, n = Name.decode(_unhx(a[1])); keep.append(v); return 'ok=%s@%d' % (_nm(v), n), ([bytes(c) for c in v], n)
        if k == 'deco':                                   # Name.decode(buf, offset), 0 <= offset (model: the suffix, see _model_op)
            v, n = Name.decode(_unhx(a[1]), int(a[2])); keep.append(v); return 'ok=%s@%d' % (_nm(v), n), ([bytes(c) for c in v], n)
        if k == 'nrm':
            l = [] if a[1] == '.' else [(_untx(e[1:]) if e[0] == 's' else _unhx(e[1:])) for e in a[1].split(',')]
            v = Name.normalize(l); keep.append(v); return 'ok=' + _nm(v), [bytes(c) for c in v]
        if k == 'nrs':
            v = Name.normalize(_untx(a[1])); keep.append(v); return 'ok=' + _nm(v), [bytes(c) for c in v]
        if k == 'nrw':
            v = Name.normalize(_unhx(a[1])); keep.append(v); return 'ok=' + _nm(v), [bytes(c) for c in v]
        if k == 'pre':
            v = Name.is_prefix(_unnm(a[1]), _unnm(a[2])); keep.append(v); return 'ok=' + ('T' if v else 'F'), bool(v)
        if k == 'lt':
            v = _unhx(a[1]) < _unhx(a[2]); keep.append(v); return 'ok=' + ('T' if v else 'F'), v
        if k == 'nlt':
            v = _unnm(a[1]) < _unnm(a[2]); keep.append(v); return 'ok=' + ('T' if v else 'F'), v
        if k == 'flt':
            v = b''.join(_unnm(a[1])) < b''.join(_unnm(a[2])); keep.append(v); return 'ok=' + ('T' if v else 'F'), v
    except Exception as e:          # noqa - the class is the observation
        return 'err=' + _cls(e), None
    raise RuntimeError('unknown op ' + op)


class _Rec:
    def __init__(self):
        self.ops, self.res, self.lab, self.sd = [], [], {}, {}

    def do(self, op, label=None):
        tok, val = _exec(op)
        self.ops.append(op)
        self.res.append(tok)
        if label is not None:
            self.lab[label] = tok
        return val

    def side(self, label, fn):
        """oracle-only observation (not part of the model protocol): fn() -> token"""
        try:
            self.sd[label] = fn()
        except Exception as e:          # noqa - the class is the observation
            self.sd[label] = 'err=' + _cls(e)

    def out(self, **extra):
        d = {'ops': self.ops, 'res': self.res, 'lab': self.lab, 'side': self.sd}
        d.update(extra)
        return d


# ------------------------------------------------------------------------------------------ cases
def _value(rng, maxlen=6):
    r = rng.random()
    if r < 0.12:
        return b''
    if r < 0.2:
        # values that URI schemes treat specially: runs of periods (the NDN URI scheme of ndn-cxx pads all-period
        # components with three more periods; this library documents that it does not), of one reserved character
        return rng.choice([b'.', b'-', b'_', b'~', b'%', b'=', b'/', b'+', b' ']) * rng.choice([1, 2, 3, 3, 4, 5, 6])
    n = rng.choice([1, 1, 2, 3, maxlen])
    return bytes(rng.choice(SPECIAL) if rng.random() < 0.6 else rng.randrange(256) for _ in range(n))


def _pack(n):
    for lim, fmt in ((0xff, '!B'), (0xffff, '!H'), (0xffffffff, '!I')):
        if n <= lim:
            return struct.pack(fmt, n)
    return struct.pack('!Q', n)


def _number(rng):
    b = rng.choice(BOUNDS)
    return max(0, min(2**64 - 1, b + rng.choice([-1, 0, 0, 1]))) if rng.random() < 0.7 else rng.getrandbits(rng.choice([4, 8, 16, 32, 64]))


def _comp(rng):
    t = rng.choice(TYPES) if rng.random() < 0.85 else rng.randint(1, 65535)
    if t in NUM_TYPES:
        r = rng.random()
        if r < 0.7:
            v = _pack(_number(rng))
        elif r < 0.85:
            v = b'\x00' * rng.choice([1, 2, 3]) + _pack(_number(rng))[:3]     # non-canonical width
        elif r < 0.9:
            # not a nonNegativeInteger at all: widths other than 1/2/4/8, up to beyond CPython's 4300-digit
            # int-to-str limit (1786 bytes) - to_str prints these generically (fixed in /repo: it used to raise)
            n = rng.choice([3, 5, 6, 7, 9, 16, 17, 1785, 1786, 1787, 1800])
            v = bytes(rng.randrange(1, 256) for _ in range(min(n, 8))) * (n // 8 + 1)
            v = v[:n]
        else:
            v = _value(rng)
    elif t in (1, 2) and rng.random() < 0.5:
        v = bytes(rng.randrange(256) for _ in range(32))
    else:
        v = _value(rng)
    return [t, v.hex()]


def _name(rng, lo=0, hi=8):
    return [_comp(rng) for _ in range(rng.randint(lo, hi))]


def _mutate_name(rng, a):
    b = [list(c) for c in a]
    r = rng.random()
    if r < 0.15 or not b:
        return b + _name(rng, 0, 2)
    if r < 0.30:
        return b[:rng.randint(0, len(b))]
    i = rng.randrange(len(b))
    t, v = b[i][0], bytearray.fromhex(b[i][1])
    r = rng.random()
    if r < 0.25:
        b[i][0] = rng.choice([max(1, t - 1), min(65535, t + 1), 252, 253, 8, 1, 65535])
    elif r < 0.5 and v:
        j = rng.randrange(len(v))
        v[j] = (v[j] + rng.choice([1, 255, 128])) % 256
        b[i][1] = bytes(v).hex()
    elif r < 0.7:
        b[i][1] = (bytes(v) + bytes([rng.choice([0, 255, rng.randrange(256)])])).hex()
    elif r < 0.85:
        b[i][1] = bytes(v[:-1]).hex()
    else:
        # length crossing 252/253: a longer value with a smaller first byte
        b[i][1] = (bytes([rng.randrange(256)]) * rng.choice([252, 253, 254])).hex()
    if rng.random() < 0.3:
        b = b[:i + 1]
    return b


ODD_URIS = ['1_0=a', '%4', 'a%4', 'seg=-1', 'seg=-0', '=', 'a=b=c', '%-0', '%-1', '%0x', '%4g', '%', 'a%', '%%%', 'a%%41',
            'seg=18446744073709551616', 'seg=18446744073709551615', 'seg=', 'seg=1_0', 'seg=_1', 'seg=1__0', 'seg=1_', 'seg=0x1',
            'seg=007', 'seg=-', 'seg=--1', 'seg=1%', 'seg=%31', 'v=255', 'v=256', 't=65536', 'seq=4294967296', 'off=4294967295',
            '008=a', '0=a', '65536=a', '65535=a', '-5=a', '-0=a', '8=a', '08=', '8=', '32=%00', '1=%00', '2=ab', '50=%01', '50=a',
            'sha256digest=', 'sha256digest=0', 'sha256digest=AbcD', 'sha256digest=abcd', 'sha256digest=a_', 'sha256digest=%41',
            'sha256digest=-0', 'params-sha256=00ff', 'params-sha256=0', 'params-sha256=FF', 'SEG=1', 'Seg=1', 'sha256Digest=00',
            'abc=', 'abc=1', '+1=a', '١=a', 'é', '%41%4a%4A', '%c3%A9', '...', '.', '..', '....', '~', '-', '_', 'a b',
            '%2F', '%2f', '%25', '%3D', '%3d', 'a%3Db', 'a=b', '=a', 'a=', '1=2=3', '%=', '=%', '8=%', '8=%4', '8=%41', '1_=a',
            '_1=a', '1__0=a', '6_5_5_3_5=a', '65_536=a', '00000000000000000000008=a', '8=' + 'a' * 300, '%00', '%7F', '%7f', '%80',
            '%FF', '%fF', '%Ff', '%-a', '%a-', '%_a', '%a_', '%0_', '%.1', '%~1', '\U0001f600', 'a中b', '1' * 4300 + '=a',
            '1' * 4301 + '=a', '0' * 4301 + '8=a', 'seg=' + '0' * 4300 + '_1', 'seg=' + '0' * 4400]
ODD_NAMES = ['', '/', '//', '///', '////', '/a//', '/a/', 'a', 'a/', 'a//', '//a', '/a//b', '/a/../b', '/a/./b', '/./', '/../',
             '/é/ /%2F', '/a=b=c', '/ ', '/%', '/8=a/1=%00', '/a/seg=5/v=1/t=0/seq=9/off=300', '/sha256digest=00/params-sha256=ff',
             '/a/b/c/d/e/f/g/h', 'ndn:/a', '/a?b', '/a#b', '/%C3%A9', '/%c3%a9', '/8=%41/A', '/seg=-1', '/a/%4', '/32=x/', '/32=/',
             '//32=', '/=', '/中文/\U0001f600']


_UNRESERVED = set(b'ABCDEFGHIJKLMNOPQRSTUVWXYZabcdefghijklmnopqrstuvwxyz0123456789-._~')
_ALT_WORD = {50: 'seg', 52: 'off', 54: 'v', 56: 't', 58: 'seq'}


def _gen_tl(n):
    """the generator's own TL-number writer (the generator must not depend on the library it feeds)"""
    if n < 253:
        return bytes([n])
    if n < 65536:
        return b'\xfd' + n.to_bytes(2, 'big')
    if n < 2**32:
        return b'\xfe' + n.to_bytes(4, 'big')
    return b'\xff' + n.to_bytes(8, 'big')


def _gen_comp(t, v):
    return _gen_tl(t) + _gen_tl(len(v)) + v


def _gen_uri(t, v, short):
    """a component URI written by the generator itself from the NDN URI scheme: `short` = with the shorthands
    (generic type omitted, sha256digest= / params-sha256= in hex, seg= / off= / v= / t= / seq= for numbers of a legal width)"""
    if t in (1, 2):
        return ('sha256digest=' if t == 1 else 'params-sha256=') + v.hex()
    if short and t in _ALT_WORD and len(v) in (1, 2, 4, 8):
        return '%s=%d' % (_ALT_WORD[t], int.from_bytes(v, 'big'))
    esc = ''.join(chr(b) if b in _UNRESERVED else '%%%02X' % b for b in v)
    return esc if (short and t == 8) else '%d=%s' % (t, esc)


def _rand_uri(rng):
    """a valid canonical component URI, then perhaps damaged"""
    t, vh = _comp(rng)
    s = _gen_uri(t, bytes.fromhex(vh), rng.random() < 0.5)
    r = rng.random()
    if r < 0.25:
        return s
    s = list(s)
    for _ in range(rng.choice([1, 1, 2, 3])):
        m = rng.random()
        alpha = '/%=.~_-09afAFgzZ 1é'
        if m < 0.3 and s:
            del s[rng.randrange(len(s))]
        elif m < 0.6:
            s.insert(rng.randint(0, len(s)), rng.choice(alpha))
        elif m < 0.8 and s:
            i = rng.randrange(len(s))
            s[i] = s[i].swapcase()
        elif s:
            s[rng.randrange(len(s))] = rng.choice(alpha)
    return ''.join(s)


# code points on the boundaries of the UTF-8 helper (str.encode): last 1-byte / first and last 2-byte / first 3-byte /
# around the surrogate gap / last 3-byte / first and last 4-byte scalar; Latin-1 supplement ends
UTF8_EDGES = ['\x7f', '\x80', '\xa0', '\xbf', '\xc0', '\xdf', '\xff', '\u0100', '\u07ff', '\u0800', '\u0fff', '\u1000',
              '\ud7ff', '\ue000', '\ufffd', '\uffff', '\U00010000', '\U0003ffff', '\U00040000', '\U000fffff', '\U00100000',
              '\U0010ffff']


def _rand_text(rng):
    if rng.random() < 0.25:
        return ''.join(rng.choice(UTF8_EDGES + ['a', '/', '%', ' ']) if rng.random() < 0.8 else chr(rng.choice(
            [rng.randrange(0x80, 0x100), rng.randrange(0x100, 0x800), rng.randrange(0x800, 0xd800), rng.randrange(0xe000, 0x10000),
             rng.randrange(0x10000, 0x110000)])) for _ in range(rng.randint(1, 4)))
    alpha = ['a', 'Z', '0', '/', '%', '=', '.', '~', '_', '-', ' ', '\x00', '\x7f', 'é', 'Σ', '中', '\U0001f600', '١', '+', ':', '?', '#']
    return ''.join(rng.choice(alpha) for _ in range(rng.randint(0, 6)))


def _wire(rng):
    body = b''.join(_gen_comp(t, bytes.fromhex(v)) for t, v in _name(rng, 0, 4))
    w = bytearray(b'\x07' + _gen_tl(len(body)) + body)
    r = rng.random()
    if r < 0.3:
        return bytes(w).hex()
    if r < 0.5 and len(w) > 1:
        w[1] = (w[1] + rng.choice([1, 2, 255, 254, 3])) % 256
    elif r < 0.65:
        w = w[:rng.randint(0, len(w))]
    elif r < 0.8 and w:
        i = rng.randrange(len(w))
        w[i] = rng.choice([0, 7, 8, 0xfd, 0xfe, 0xff, rng.randrange(256)])
    elif r < 0.9:
        w += bytes(rng.randrange(256) for _ in range(rng.randint(1, 3)))
    else:
        w[0] = rng.choice([6, 8, 0, 0xfd])
    return bytes(w).hex()


def _wire_of(comps):
    body = b''.join(_gen_comp(t, bytes.fromhex(v)) for t, v in comps)
    return (b'\x07' + _gen_tl(len(body)) + body).hex()


def _junk(rng, lo, hi):
    """bytes around an embedded Name: anything, weighted to bytes that look like TLV headers"""
    return bytes(rng.choice([7, 8, 0, 1, 2, 0xfd, 0xfe, 0xff, rng.randrange(256)]) for _ in range(rng.randint(lo, hi))).hex()


def _at_offsets(npre, nw, n):
    """the offsets asked of Name.decode(buf, offset) for a Name of nw bytes at npre in a buffer of n bytes"""
    k = npre
    offs = [0, 1, k, k + 1, n - 1, n, n + 1, -1, -(n - k), -(n - k) - 1, -(n - k) + 1, -n, -n - 1, -n + 1, k + nw, -2]
    out = []
    for o in offs:
        if o not in out:
            out.append(o)
    return out


def _overrun_wire(rng, mode=None):
    """a Name TLV whose Length ends strictly inside one of its components (after 0..3 whole ones); the overrunning
    component lies wholly inside the buffer (more bytes follow the declared Length), is cut by the end of the buffer,
    or ends exactly with the buffer"""
    whole = [_gen_comp(t, bytes.fromhex(v)) for t, v in _name(rng, 0, 3)]
    t, vh = _comp(rng)
    last = _gen_comp(t, bytes.fromhex(vh))
    after = b''.join(_gen_comp(t2, bytes.fromhex(v2)) for t2, v2 in _name(rng, 0, 2))
    pre = b''.join(whole)
    cut = rng.randint(1, len(last) - 1)                  # the Length ends `cut` bytes into the last component
    mode = mode or rng.choice(['inside', 'inside', 'exact', 'short'])
    if mode == 'inside':
        tail = last + (after or b'\x08\x00')
    elif mode == 'exact':
        tail = last
    else:                                                # the buffer ends inside the component, at or after the Length
        tail = last[:rng.randint(cut, len(last) - 1)]
    return (b'\x07' + _gen_tl(len(pre) + cut) + pre + tail).hex()


def _sized_name(rng, total, ncomp):
    """a name whose components' encodings add up to exactly `total` bytes (the Length of the Name TLV)"""
    out, left = [], total
    for i in range(ncomp - 1):
        t, vh = _comp(rng)
        sz = (1 if t < 253 else 3) + 1 + len(vh) // 2
        if sz + 3 > left:
            break
        out.append([t, vh])
        left -= sz
    t = rng.choice([8, 8, 32, 252, 253, 65535])
    tl = 1 if t < 253 else 3
    for ll in (1, 3, 5):
        v = left - tl - ll
        if v >= 0 and (v < 253 if ll == 1 else 253 <= v < 65536 if ll == 3 else v >= 65536):
            fill = rng.choice([0x00, 0xff, 0x41, 0x25, 0x3d, rng.randrange(256)])
            out.insert(rng.randint(0, len(out)), [t, (bytes([fill]) * v).hex()])
            return out
    # `left` falls into a gap of the length-of-length function (e.g. 1+3+252): pad with one more small component
    out.append([8, ''])
    return out + _sized_name(rng, left - 2, 1)


def extract(repo):
    """lean/NdnGen/C09.lean: CHARSET, TYPE_* constants, shorthand tables, escaping rule, TL-number ladders; and
    lean/NdnGen/Component.lean, TlvVar.lean: the byte-level helpers translated from their source text"""
    import py2lean
    py2lean.write_generated(repo)
    return c09_extract.generate(repo)


def cases(rng, tier):
    quick = tier == 'quick'
    # boundaries of the NAME Length (not only of a component's): 252/253 and 65535/65536, reached with 1..4 components,
    # and components whose own Length sits on those boundaries with 1- and 3-byte Type numbers
    # (the 64 KiB ones cost ~2 s each, so the quick tier takes three of them)
    for total in (251, 252, 253, 254, 255, 256, 258, 65535, 65536, 65537):
        for ncomp in ((1, 2, 3, 4, 4) if not quick else (1, 3) if total < 1000 else (1,) if total == 65535 else (3,) if total == 65536 else ()):
            yield {'k': 'name', 'comps': _sized_name(rng, total, ncomp)}
    for vlen in (252, 253, 254, 65535, 65536):
        for t in ((8, 1, 32, 252, 253, 65535) if not quick else (8, 65535) if vlen < 1000 else (65535,) if vlen == 65536 else ()):
            yield {'k': 'name', 'comps': [[8, '61'], [t, (bytes([rng.choice([0x41, 0, 0xff, 0x2f])]) * vlen).hex()]]}
    for la, lb in ((252, 253), (253, 254), (65535, 65536), (252, 65536), (255, 256), (0, 253)):
        for ta, tb in (((8, 8), (65535, 8)) if quick and lb > 1000 else ((8, 8), (252, 253), (253, 253), (65535, 8))):
            a = [[8, '62'], [ta, 'ff' * la]]
            b = [[8, '62'], [tb, '00' * lb]]
            yield {'k': 'pair', 'a': a, 'b': b}
            yield {'k': 'pair', 'a': a + [[8, '']], 'b': a}
    yield {'k': 'pair', 'a': [], 'b': []}
    yield {'k': 'pair', 'a': [], 'b': [[8, '']]}
    yield {'k': 'pair', 'a': [[8, '']], 'b': [[8, ''], [8, '']]}
    yield {'k': 'pair', 'a': [[8, '61']], 'b': [[8, '61']]}
    # every byte value as a single-byte component (exhaustive), 8 per name
    byte_types = [8, 32, 1, 50] if quick else [1, 2, 8, 32, 50, 52, 54, 56, 58, 252, 253, 65535, 300]
    for t in byte_types:
        for b0 in range(0, 256, 8):
            yield {'k': 'name', 'comps': [[t, '%02x' % b] for b in range(b0, b0 + 8)]}
    for n in BOUNDS + [2**64, -1, 254, 255, 256, 65535, 65536]:
        for t in ((50, 58) if quick else NUM_TYPES + (8,)):
            yield {'k': 'num', 'n': n, 'typ': t}
    for s in ODD_URIS:
        yield {'k': 'uri', 's': s}
    for s in ODD_NAMES:
        yield {'k': 'uri', 's': s}
    # raw non-ASCII text through the escaping helper: every Latin-1 supplement character, the UTF-8 width boundaries
    for b0 in range(0x80, 0x100, 8):
        yield {'k': 'text', 's': ''.join(chr(c) for c in range(b0, b0 + 8))}
    for ch in UTF8_EDGES:
        yield {'k': 'text', 's': ch}
        yield {'k': 'uri', 's': '/a' + ch + '/' + ch + 'b/8=' + ch}
    yield {'k': 'name', 'comps': []}
    yield {'k': 'name', 'comps': [[8, '']]}
    yield {'k': 'name', 'comps': [[8, '61'], [8, '']]}
    yield {'k': 'name', 'comps': [[8, ''], [8, '']]}
    yield {'k': 'name', 'comps': [[8, ''], [8, '61']]}
    yield {'k': 'name', 'comps': [[50, '0001']]}
    yield {'k': 'name', 'comps': [[8, '00' * 252], [8, '00' * 253], [253, 'ff' * 300]]}
    k = 1 if quick else 100
    for _ in range(260 * k):
        yield {'k': 'name', 'comps': _name(rng)}
    for _ in range(260 * k):
        a = _name(rng, 0, 6)
        yield {'k': 'pair', 'a': a, 'b': _mutate_name(rng, a) if rng.random() < 0.85 else _name(rng, 0, 6)}
    for _ in range(300 * k):
        yield {'k': 'uri', 's': _rand_uri(rng) if rng.random() < 0.7 else '/'.join(_rand_uri(rng) for _ in range(rng.randint(0, 4)))}
    for _ in range(120 * k):
        yield {'k': 'text', 's': _rand_text(rng)}
    for _ in range(80 * k):
        yield {'k': 'num', 'n': _number(rng) if rng.random() < 0.9 else rng.choice([-1, -2, 2**64, 2**64 + 5]), 'typ': rng.choice(NUM_TYPES)}
    for _ in range(150 * k):
        yield {'k': 'wire', 'w': _wire(rng)}
    for mode in ('inside', 'exact', 'short'):
        yield {'k': 'wire', 'w': _overrun_wire(rng, mode)}
    yield {'k': 'wire', 'w': '0703080261620800'}         # Length 3, a 4-byte component inside the buffer, then 08 00
    yield {'k': 'wire', 'w': '07030801610802'}           # Length 3: one whole component, then one byte of the next
    for _ in range(40 * k):
        yield {'k': 'wire', 'w': _overrun_wire(rng)}
    # Name.decode(buf, offset): generated (well-formed, damaged, overrunning) Name wires embedded in larger buffers
    yield {'k': 'at', 'pre': '', 'w': '07020800', 'post': ''}
    yield {'k': 'at', 'pre': 'aa', 'w': '07020800', 'post': ''}
    yield {'k': 'at', 'pre': 'aa', 'w': '07020800', 'post': 'bb'}
    yield {'k': 'at', 'pre': '020800', 'w': '0700', 'post': '07'}
    yield {'k': 'at', 'pre': '07', 'w': '07fd00020800', 'post': ''}
    for _ in range(40 * k):
        r = rng.random()
        w = _wire(rng) if r < 0.75 else _overrun_wire(rng)
        if r < 0.45:
            w = (b'\x07' + _gen_tl(0) + b'').hex() if r < 0.03 else _wire_of(_name(rng, 0, 4))
        yield {'k': 'at', 'pre': _junk(rng, 0, 6), 'w': w, 'post': _junk(rng, 0, 5)}
    for _ in range(6 * k):
        base = _name(rng, 0, 4)
        pool = [base] + [_mutate_name(rng, base) for _ in range(9)]
        yield {'k': 'pool', 'names': pool}


def shrink(case):
    k = case['k']
    if k == 'name':
        cs = case['comps']
        for i in range(len(cs)):
            yield {'k': 'name', 'comps': cs[:i] + cs[i + 1:]}
        for i, (t, v) in enumerate(cs):
            if len(v) > 2:
                yield {'k': 'name', 'comps': cs[:i] + [[t, v[:-2]]] + cs[i + 1:]}
                yield {'k': 'name', 'comps': cs[:i] + [[t, v[2:]]] + cs[i + 1:]}
            if t != 8:
                yield {'k': 'name', 'comps': cs[:i] + [[8, v]] + cs[i + 1:]}
    elif k == 'pair':
        for side in ('a', 'b'):
            cs = case[side]
            for i in range(len(cs)):
                c2 = dict(case)
                c2[side] = cs[:i] + cs[i + 1:]
                yield c2
            for i, (t, v) in enumerate(cs):
                if len(v) > 2:
                    c2 = dict(case)
                    c2[side] = cs[:i] + [[t, v[:-2]]] + cs[i + 1:]
                    yield c2
    elif k in ('uri', 'text'):
        s = case['s']
        for i in range(len(s)):
            yield {'k': k, 's': s[:i] + s[i + 1:]}
    elif k == 'wire':
        w = case['w']
        for i in range(0, len(w), 2):
            yield {'k': 'wire', 'w': w[:i] + w[i + 2:]}
    elif k == 'at':
        for f in ('pre', 'post', 'w'):
            h = case[f]
            for i in range(0, len(h), 2):
                c2 = dict(case)
                c2[f] = h[:i] + h[i + 2:]
                yield c2
    elif k == 'pool':
        ns = case['names']
        for i in range(len(ns)):
            if len(ns) > 2:
                yield {'k': 'pool', 'names': ns[:i] + ns[i + 1:]}
        if len(ns) == 2:
            yield {'k': 'pair', 'a': ns[0], 'b': ns[1]}
    elif k == 'num':
        if case['n'] > 0:
            yield {'k': 'num', 'n': case['n'] // 2, 'typ': case['typ']}


# --------------------------------------------------------------------------------- implementation
def _build(R, comps, tag):
    out = []
    for i, (t, v) in enumerate(comps):
        c = R.do('fb:%d:%s' % (t, v or '-'), '%s%d' % (tag, i))
        out.append(c)
    return out


_LOWER_ESC = re.compile('%[0-9A-F]{2}')
# naming conventions (NDN Technical Memo: Naming Conventions, rev. 2): constructor -> (URI shorthand, component type)
_CONVENTION = {'from_segment': ('seg', 50), 'from_byte_offset': ('off', 52), 'from_version': ('v', 54),
               'from_timestamp': ('t', 56), 'from_sequence_num': ('seq', 58)}


def _kinded(cs, uris, shift):
    """the same components as bytes / bytearray / memoryview / canonical URI str, rotating"""
    out = []
    for i, c in enumerate(cs):
        m = (i + shift) % 4
        out.append(bytes(c) if m == 0 else bytearray(c) if m == 1 else memoryview(bytes(c)) if m == 2 else
                   (uris[i] if uris[i] is not None else bytes(c)))
    return out


def _scribble(x):
    """what a caller may do with a result it owns: overwrite a mutable component / list in place"""
    if isinstance(x, list):
        for c in x:
            _scribble(c)
        x.clear()
    elif isinstance(x, bytearray):
        x[:] = b'\xaa' * (len(x) + 1)
    elif isinstance(x, memoryview) and not x.readonly:
        x[:] = b'\xaa' * len(x)


def _snap(x):
    return _nm([bytes(c) for c in x]) if isinstance(x, list) else _hx(x)


def _fresh(R, label, fn):
    """second use: the same conversion asked twice, the caller having overwritten the first (mutable) result in between"""
    def go():
        r1 = fn()
        want = _snap(r1)
        _scribble(r1)
        return 'ok=same' if _snap(fn()) == want else 'ok=changed'
    R.side(label, go)


def _name_side(R, cs, w, U, S, uris):
    """oracle-only observations on the other front-ends of the same conversions: to_bytes / from_bytes, decode and encode
    at a non-zero offset, encoded_length, every accepted container / element type for normalize, non-strict arguments of
    to_str / to_canonical_uri / is_prefix, the other letter case of percent escapes and digests"""
    Name, Component = _imports()
    nm = lambda v: 'ok=' + _nm([bytes(c) for c in v])       # noqa
    n = len(cs)
    R.side('tb_list', lambda: 'ok=' + _hx(Name.to_bytes([bytearray(c) for c in cs])))
    R.side('enclen', lambda: 'ok=%d' % Name.encoded_length(cs))
    def reent(x):
        # RE-ENTRANCY: a lazy iterable of components whose own code uses the library for something else while the library
        # is consuming it (a generator that builds each component with the library's helpers does exactly this)
        for c in x:
            Name.to_bytes([b'\x08\x01x', bytes(c)])
            Name.to_bytes(iter([bytes(c), b'\x08\x02yy']))
            Name.normalize('/re/entered')
            Name.to_str([bytes(c)])
            Component.from_str('zz')
            yield bytes(c)
    R.side('tb_gen', lambda: 'ok=' + _hx(Name.to_bytes(bytes(c) for c in cs)))
    R.side('tb_regen', lambda: 'ok=' + _hx(Name.to_bytes(reent(cs))))
    R.side('nrm_regen', lambda: nm(Name.normalize(reent(cs))))
    R.side('nrm_tuple', lambda: nm(Name.normalize(tuple(cs))))
    R.side('nrm_gen', lambda: nm(Name.normalize(c for c in cs)))
    for sh in range(4):
        R.side('nrm_kinds%d' % sh, lambda: nm(Name.normalize(_kinded(cs, uris, sh))))
    R.side('pre_kinds', lambda: 'ok=%s' % Name.is_prefix(_kinded(cs, uris, 1), _kinded(cs, uris, 2)))
    # the prefix test across CONTAINER forms of the same components: tuple / list / generator / wire / URI on either side
    # (a prefix of j components against the whole name, and the whole name against that prefix)
    forms = {'t': lambda x: tuple(bytes(c) for c in x), 'l': lambda x: [bytes(c) for c in x],
             'g': lambda x: (bytes(c) for c in x), 'w': lambda x: bytes(Name.encode([bytes(c) for c in x]))}
    for j in sorted({0, n // 2, n}):
        for a in 'tlgw':
            for b in 'tlgw':
                if a == b and a != 't':
                    continue
                R.side('prec_%s%s_%d' % (a, b, j), lambda: 'ok=%s' % Name.is_prefix(forms[a](cs[:j]), forms[b](cs)))
                R.side('perc_%s%s_%d' % (a, b, j), lambda: 'ok=%s' % Name.is_prefix(forms[a](cs), forms[b](cs[:j])))
    for i, c in enumerate(cs[:3]):
        t, v = Component.get_type(c), bytes(Component.get_value(c))
        R.side('fhex%d' % i, lambda: 'ok=' + _hx(Component.from_hex(v.hex(), t)))
        R.side('ts_mv%d' % i, lambda: 'ok=' + _tx(Component.to_str(memoryview(c))))
        R.side('tc_ba%d' % i, lambda: 'ok=' + _tx(Component.to_canonical_uri(bytearray(c))))
    if n:
        t0, v0 = Component.get_type(cs[0]), bytes(Component.get_value(cs[0]))
        _fresh(R, 'fresh_fb', lambda: Component.from_bytes(v0, t0))
        _fresh(R, 'fresh_fhex', lambda: Component.from_hex(v0.hex(), t0))

        def arg_reused():
            buf = bytearray(v0)
            c = Component.from_bytes(buf, t0)
            buf[:] = b'\x55' * len(buf)         # the caller reuses its buffer after the call
            return 'ok=' + _hx(c)
        R.side('fb_arg_reused', arg_reused)
    if U is not None:
        _fresh(R, 'fresh_nfs', lambda: Name.from_str(U))
        _fresh(R, 'fresh_nrs', lambda: Name.normalize(U))
    if all(u is not None for u in uris):
        _fresh(R, 'fresh_nrm', lambda: Name.normalize(list(uris)))
    _fresh(R, 'fresh_enc', lambda: Name.encode([bytes(c) for c in cs]))
    if w is not None:
        R.side('tb_wire', lambda: 'ok=' + _hx(Name.to_bytes(bytearray(w))))
        R.side('fb_wire', lambda: nm(Name.from_bytes(w)))
        for off, tail in ((1, b''), (3, b'\x08\x01A')):
            def dec_off():
                v, k = Name.decode(b'\x07' * off + w + tail, off)
                return '%s@%d' % (nm(v), k)
            R.side('dec_off%d' % off, dec_off)

            def enc_off():
                buf = bytearray(b'\xee' * (off + len(w) + len(tail)))
                r = Name.encode(cs, buf, off)
                return 'ok=' + _hx(bytes(r))
            R.side('enc_off%d' % off, enc_off)
        R.side('nts_wire', lambda: 'ok=' + _tx(Name.to_str(w)))
        R.side('ntc_wire', lambda: 'ok=' + _tx(Name.to_canonical_uri(memoryview(w))))
        for j in sorted({0, n // 2, n}):
            R.side('pre_w_%d' % j, lambda: 'ok=%s' % Name.is_prefix(Name.encode(cs[:j]), w))
            R.side('erp_w_%d' % j, lambda: 'ok=%s' % Name.is_prefix(w, [bytes(c) for c in cs[:j]]))
    if U is not None:
        R.side('tb_str', lambda: 'ok=' + _hx(Name.to_bytes(U)))
        R.side('ntc_str', lambda: 'ok=' + _tx(Name.to_canonical_uri(U)))
        R.side('nfs_lower', lambda: nm(Name.from_str(_LOWER_ESC.sub(lambda m: m.group(0).lower(), U))))
        if w is not None:
            R.side('pre_s_w', lambda: 'ok=%s' % Name.is_prefix(U, w))
            R.side('pre_w_s', lambda: 'ok=%s' % Name.is_prefix(w, U))
    if S is not None:
        up = '/'.join((x.split('=')[0] + '=' + x.split('=')[1].upper()) if x.startswith(('sha256digest=', 'params-sha256=')) else x
                      for x in S.split('/'))
        R.side('nfs_digest_upper', lambda: nm(Name.from_str(up)))


def run_impl(case):
    R = _Rec()
    k = case['k']
    if k == 'name':
        cs = _build(R, case['comps'], 'c')
        if any(c is None for c in cs):
            return R.out(built=False)
        uris, strs = [], []
        for i, c in enumerate(cs):
            h = _hx(c)
            R.do('gt:' + h, 'gt%d' % i)
            R.do('gv:' + h, 'gv%d' % i)
            u = R.do('tc:' + h, 'tc%d' % i)
            s = R.do('ts:' + h, 'ts%d' % i)
            uris.append(u)
            strs.append(s)
            if u is not None:
                R.do('fs:' + _tx(u), 'fs_tc%d' % i)
            if s is not None:
                R.do('fs:' + _tx(s), 'fs_ts%d' % i)
        nh = _nm(cs)
        w = R.do('enc:' + nh, 'enc')
        if w is not None:
            R.do('dec:' + _hx(w), 'dec')
            R.do('nrw:' + _hx(w), 'nrw')
        U = R.do('ntc:' + nh, 'ntc')
        S = R.do('nts:' + nh, 'nts')
        if U is not None:
            R.do('nfs:' + _tx(U), 'nfs_ntc')
            R.do('nrs:' + _tx(U), 'nrs_ntc')
        if S is not None:
            R.do('nfs:' + _tx(S), 'nfs_nts')
        if all(u is not None for u in uris):
            R.do('nrm:' + (','.join('s' + _tx(u) for u in uris) or '.'), 'nrm_str')
            R.do('nrm:' + (','.join(('s' + _tx(u)) if i % 2 else ('b' + _hx(c)) for i, (u, c) in enumerate(zip(uris, cs))) or '.'), 'nrm_mixed')
        R.do('nrm:' + (','.join('b' + _hx(c) for c in cs) or '.'), 'nrm_bytes')
        for j in sorted({0, len(cs) // 2, max(0, len(cs) - 1), len(cs)}):
            R.do('pre:%s:%s' % (_nm(cs[:j]), nh), 'pre_%d' % j)
            R.do('pre:%s:%s' % (nh, _nm(cs[:j])), 'erp_%d' % j)
        _name_side(R, cs, w, U, S, uris)
        return R.out(built=True, name=nh)
    if k == 'pair':
        a, b = _build(R, case['a'], 'a'), _build(R, case['b'], 'b')
        if any(c is None for c in a + b):
            return R.out(built=False)
        ah, bh = _nm(a), _nm(b)
        R.do('pre:%s:%s' % (ah, bh), 'pre_ab')
        R.do('pre:%s:%s' % (bh, ah), 'pre_ba')
        for x in ('nlt', 'flt'):
            R.do('%s:%s:%s' % (x, ah, bh), x + '_ab')
            R.do('%s:%s:%s' % (x, bh, ah), x + '_ba')
        for i in range(min(len(a), len(b))):
            R.do('lt:%s:%s' % (_hx(a[i]), _hx(b[i])), 'lt_ab%d' % i)
            R.do('lt:%s:%s' % (_hx(b[i]), _hx(a[i])), 'lt_ba%d' % i)
        return R.out(built=True)
    if k == 'pool':
        ns = [_build(R, n, 'n%d_' % i) for i, n in enumerate(case['names'])]
        if any(c is None for n in ns for c in n):
            return R.out(built=False)
        for i, x in enumerate(ns):
            for j, y in enumerate(ns):
                R.do('nlt:%s:%s' % (_nm(x), _nm(y)), 'nlt_%d_%d' % (i, j))
        order = sorted(range(len(ns)), key=lambda i: [bytes(c) for c in ns[i]])
        return R.out(built=True, sorted_by_bytes=[[c.hex() for c in ns[i]] for i in order],
                     sorted_idx=order)
    if k == 'uri':
        s = case['s']
        c = R.do('fs:' + _tx(s), 'fs')
        R.do('es:' + _tx(s), 'es')
        if c is not None:
            h = _hx(c)
            R.do('gt:' + h, 'gt')
            u = R.do('tc:' + h, 'tc')
            s2 = R.do('ts:' + h, 'ts')
            if u is not None:
                R.do('fs:' + _tx(u), 'fs_tc')
            if s2 is not None:
                R.do('fs:' + _tx(s2), 'fs_ts')
        Name, Component = _imports()
        _fresh(R, 'fresh_fs', lambda: Component.from_str(s))
        _fresh(R, 'fresh_nfs', lambda: Name.from_str(s))
        n = R.do('nfs:' + _tx(s), 'nfs')
        R.do('nrs:' + _tx(s), 'nrs')
        if s and '/' not in s:
            R.do('nrm:s' + _tx(s), 'nrm1')
        if n is not None:
            nh = _nm(n)
            U = R.do('ntc:' + nh, 'ntc')
            if U is not None:
                R.do('nfs:' + _tx(U), 'nfs_ntc')
            w = R.do('enc:' + nh, 'enc')
            if w is not None:
                R.do('nrw:' + _hx(w), 'nrw')
        return R.out()
    if k == 'text':
        s = case['s']
        e = R.do('es:' + _tx(s), 'es')
        c = R.do('fs:' + _tx(e), 'fs')
        if c is not None:
            R.do('gt:' + _hx(c), 'gt')
            R.do('gv:' + _hx(c), 'gv')
        R.do('nrm:s' + _tx(s), 'nrm1')
        if '/' not in s:
            R.do('nfs:' + _tx('/' + s), 'nfs')
        Name, Component = _imports()
        _fresh(R, 'fresh_nrm1', lambda: Name.normalize([s]))
        return R.out()
    if k == 'num':
        c = R.do('fn:%d:%d' % (case['n'], case['typ']), 'fn')
        if c is not None:
            h = _hx(c)
            R.do('tn:' + h, 'tn')
            R.do('gv:' + h, 'gv')
            s = R.do('ts:' + h, 'ts')
            if s is not None:
                R.do('fs:' + _tx(s), 'fs_ts')
        if case['n'] >= 0:
            R.do('fs:' + _tx('seg=%d' % case['n']), 'fs_seg')
        Name, Component = _imports()
        _fresh(R, 'fresh_fn', lambda: Component.from_number(case['n'], case['typ']))
        for nm_, (short, typ) in _CONVENTION.items():
            R.side('ctor_' + short, lambda: 'ok=' + _hx(getattr(Component, nm_)(case['n'])))
            if case['n'] >= 0:
                R.side('fs_' + short, lambda: 'ok=' + _hx(Component.from_str('%s=%d' % (short, case['n']))))
                R.side('nfs_' + short, lambda: 'ok=' + _nm([bytes(c) for c in Name.from_str('/a/%s=%d' % (short, case['n']))]))
        return R.out()
    if k == 'wire':
        r = R.do('dec:' + (case['w'] or '-'), 'dec')
        R.do('nrw:' + (case['w'] or '-'), 'nrw')
        if r is not None:
            R.do('enc:' + _nm(r[0]), 'enc')
        return R.out()
    if k == 'at':
        pre, w, post = bytes.fromhex(case['pre']), bytes.fromhex(case['w']), bytes.fromhex(case['post'])
        buf = pre + w + post
        Name, Component = _imports()
        for o in _at_offsets(len(pre), len(w), len(buf)):
            if o >= 0:
                R.do('deco:%s:%d' % (_hx(buf), o), 'at%d' % o)
            else:       # negative offsets are outside the model (TRUSTED): observed, judged only where a theorem speaks
                def neg(o=o):
                    v, n = Name.decode(bytes(buf), o)
                    return 'ok=%s@%d' % (_nm(v), n)
                R.side('at%d' % o, neg)
        def sfx():
            v, n = Name.decode(bytes(buf[len(pre):]))
            return 'ok=%s@%d' % (_nm(v), n)
        R.side('sfx', sfx)
        return R.out(buf=_hx(buf))
    raise RuntimeError('unknown case kind')


# ------------------------------------------------------------------------------------------ model
def _model_op(op):
    """`deco:<buf>:<off>` (Name.decode(buf, off), 0 <= off) is asked of the model as `dec:<buf[off:]>`: theorems
    Ndn.NameGen.decode_at_eq (the translated source at an offset = Ndn.Name.decodeAt) and Ndn.decodeAt_eq_drop (decoding at
    an offset = decoding the suffix: same components, same count, same exception; an offset past the end = the empty
    string); every other op goes as it is"""
    if op.startswith('deco:'):
        _, h, o = op.split(':')
        return 'dec:' + _hx(_unhx(h)[int(o):])
    return op


def model_line(case, impl):
    return 'C09 ' + ' '.join(_model_op(op) for op in impl['ops']) if impl['ops'] else None


def model_obs(answer, case, impl):
    """the model's answers as they are: model and implementation must agree on every op (also on a Name wire one of
    whose components overruns the declared Length: both raise IndexError)"""
    toks = answer.split(' ')
    out = list(toks)
    if len(toks) != len(impl['ops']):
        out.append('answer-count-mismatch')
    return out


def impl_obs(impl):
    return list(impl['res'])


# ----------------------------------------------------------------------------------------- oracle
def _canon_num(t, v):
    """typed-number components must carry a minimal 1/2/4/8-byte number for the shorthand to round-trip"""
    if t not in NUM_TYPES:
        return True
    return len(v) in (1, 2, 4, 8) and _pack(int.from_bytes(v, 'big')) == v


def _key(comps):
    """NDN canonical order key of a name given as [(type, value-hex)]: type, then length, then value"""
    return [(t, len(bytes.fromhex(v)), bytes.fromhex(v)) for t, v in comps]


def _ok(tok):
    return tok is not None and tok.startswith('ok=')


def _name_side_oracle(comps, L, D, want, wlen):
    n = len(comps)
    canon = all(_canon_num(t, bytes.fromhex(v)) for t, v in comps)
    enc = L['enc']
    for lab, what in (('tb_list', 'to_bytes(list of components)'), ('tb_wire', 'to_bytes(wire)'), ('tb_str', 'to_bytes(canonical URI)'),
                      ('tb_gen', 'to_bytes(generator of components)'),
                      ('tb_regen', 'to_bytes(generator whose code uses the library while it is being consumed)')):
        if D.get(lab) != enc:
            return f'Name.{what} != Name.encode(n)'
    if D.get('enclen') != 'ok=%d' % wlen:
        return 'Name.encoded_length(n) != len(Name.encode(n))'
    for lab, what in (('fresh_fb', 'Component.from_bytes'), ('fresh_fhex', 'Component.from_hex'), ('fresh_nfs', 'Name.from_str'),
                      ('fresh_nrs', 'Name.normalize(str)'), ('fresh_nrm', 'Name.normalize(list of str)'), ('fresh_enc', 'Name.encode')):
        if lab in D and D[lab] != 'ok=same':
            return f'{what} gives a different answer the second time, after the caller overwrote the first result ({D[lab]})'
    if n and D.get('fb_arg_reused') != L['c0']:
        return 'Component.from_bytes(buf, t) changes when the caller reuses buf after the call'
    for lab, what in (('nrm_tuple', 'tuple'), ('nrm_gen', 'generator'),
                      ('nrm_regen', 'generator whose code uses the library while it is being consumed'), ('nrm_kinds0', 'bytes/bytearray/memoryview/str list'),
                      ('nrm_kinds1', 'bytes/bytearray/memoryview/str list'), ('nrm_kinds2', 'bytes/bytearray/memoryview/str list'),
                      ('nrm_kinds3', 'bytes/bytearray/memoryview/str list'), ('fb_wire', 'from_bytes(wire)'),
                      ('nfs_lower', 'canonical URI with lower-case percent escapes')):
        if D.get(lab) != want:
            return f'normalize({what}) != n' if lab.startswith('nrm') else f'Name {what} != n'
    if D.get('pre_kinds') != 'ok=True':
        return 'is_prefix of the same name given with different element types is not True'
    for i in range(min(3, n)):
        if D.get('fhex%d' % i) != L['c%d' % i]:
            return f'component {i}: from_hex(value.hex(), type) != from_bytes(value, type)'
        if D.get('ts_mv%d' % i) != L['ts%d' % i] or D.get('tc_ba%d' % i) != L['tc%d' % i]:
            return f'component {i}: URI of the component differs with the buffer type it is held in'
    for off in (1, 3):
        if D.get('dec_off%d' % off) != '%s@%d' % (want, wlen):
            return 'Name.decode(buf, offset) at a non-zero offset != (n, len)'
        e = D.get('enc_off%d' % off, '')
        if not _ok(e) or _unhx(e[3:])[off:off + wlen] != _unhx(enc[3:]):
            return 'Name.encode(n, buf, offset) does not place the wire of n at the offset'
    if D.get('nts_wire') != L['nts']:
        return 'Name.to_str(wire) != Name.to_str(n)'
    if D.get('ntc_wire') != L['ntc'] or D.get('ntc_str') != L['ntc']:
        return 'Name.to_canonical_uri of the wire / of the canonical URI != Name.to_canonical_uri(n)'
    if canon and D.get('nfs_digest_upper') != want:
        return 'Name.from_str(Name.to_str(n) with upper-case digest hex) != n'
    if D.get('pre_s_w') != 'ok=True' or D.get('pre_w_s') != 'ok=True':
        return 'is_prefix between the URI and the wire of the same name is not True'
    for lab, tok in D.items():
        if lab.startswith('prec_') and tok != 'ok=True':
            return ('is_prefix(n[:j], n) is not True when the two names are given in different container forms '
                    f'({lab[5]} / {lab[6]}: t = tuple, l = list, g = generator, w = wire)')
        if lab.startswith('perc_') and tok != ('ok=True' if int(lab.split('_')[2]) == n else 'ok=False'):
            return ('is_prefix(n, n[:j]) disagrees with component-wise equality when the two names are given in different '
                    f'container forms ({lab[5]} / {lab[6]})')
        if lab.startswith('pre_w_') and tok != 'ok=True':
            return 'is_prefix(wire of n[:j], wire of n) is not True'
        if lab.startswith('erp_w_') and tok != ('ok=True' if int(lab[6:]) == n else 'ok=False'):
            return 'is_prefix(wire of n, n[:j]) disagrees with component-wise equality'
    return None


def _rd_tl(b, off):
    """the oracle's own TL-number reader: (value, size) or None when the number does not lie inside `b`"""
    if off >= len(b):
        return None
    x = b[off]
    n = {253: 2, 254: 4, 255: 8}.get(x, 0)
    if n == 0:
        return x, 1
    if off + 1 + n > len(b):
        return None
    return int.from_bytes(b[off + 1:off + 1 + n], 'big'), 1 + n


def _wire_shape(w):
    """what the bytes say, read independently of the library: ('overrun', where) when the wire is a Name TLV whose
    Length lies inside the buffer and ends strictly inside a component whose Type and Length can be read;
    ('name', header size, Length) for any other wire starting with a readable Name header; ('other',) otherwise"""
    t = _rd_tl(w, 0)
    if t is None or t[0] != 7:
        return ('other',)
    ln = _rd_tl(w, t[1])
    if ln is None:
        return ('other',)
    hdr, left = t[1] + ln[1], ln[0]
    if left > len(w) - hdr:
        return ('name', hdr, ln[0])
    off = hdr
    while left > 0:
        ct = _rd_tl(w, off)
        cl = _rd_tl(w, off + ct[1]) if ct is not None else None
        if cl is None:
            return ('name', hdr, ln[0])
        ext = ct[1] + cl[1] + cl[0]
        if ext > left:
            return ('overrun', 'inside-buffer' if off + ext < len(w) else 'to-buffer-end' if off + ext == len(w) else 'past-buffer')
        off += ext
        left -= ext
    return ('name', hdr, ln[0])


def _wire_oracle(w, L):
    """the component list and the wire must say the same thing: whatever Name.decode accepts is a Name TLV whose
    components are whole TLVs that tile exactly the declared Length; a Length that ends inside a component is an
    IndexError; Name.normalize of the wire agrees with Name.decode"""
    dec, nrw = L.get('dec'), L.get('nrw')
    shape = _wire_shape(w)
    if shape[0] == 'overrun':
        if dec != 'err=IndexError':
            return 'Name.decode does not raise IndexError on a Name whose Length ends inside a component'
        if nrw != 'err=IndexError':
            return 'Name.normalize(wire) does not raise IndexError on a Name whose Length ends inside a component'
        return None
    if not _ok(dec):
        if _ok(nrw):
            return 'Name.normalize(wire) accepts a wire Name.decode rejects'
        return None
    if shape[0] != 'name':
        return 'Name.decode accepts a wire that does not start with a readable Name Type and Length'
    names, used = dec[3:].rsplit('@', 1)
    comps = _unnm(names)
    hdr, ln = shape[1], shape[2]
    if int(used) != hdr + ln:
        return 'Name.decode: bytes consumed != header + declared Length'
    if hdr + ln > len(w):
        return 'Name.decode accepts a Name whose Length runs past the buffer'
    if b''.join(bytes(c) for c in comps) != w[hdr:hdr + ln]:
        return 'Name.decode: the components joined are not the declared Length bytes of the wire'
    for c in comps:
        c = bytes(c)
        ct = _rd_tl(c, 0)
        cl = _rd_tl(c, ct[1]) if ct is not None else None
        if cl is None or ct[1] + cl[1] + cl[0] != len(c):
            return 'Name.decode returns a component that is not one whole TLV'
    if nrw != 'ok=' + names:
        return 'Name.normalize(wire) != the components Name.decode returns'
    enc = L.get('enc')
    if not _ok(enc):
        return 'Name.encode fails on the components Name.decode returned'
    if bytes.fromhex(enc[3:])[1:] != _gen_tl(ln) + w[hdr:hdr + ln]:
        return 'Name.encode(Name.decode(wire)) is not Type 7, the shortest-form Length and the same component bytes'
    return None


def oracle(case, impl):
    L = impl['lab']
    k = case['k']
    if k == 'name':
        comps = case['comps']
        if not impl.get('built'):
            return 'Component.from_bytes rejected a component with type in 1..65535'
        name = impl['name']
        want = 'ok=' + name
        for i, (t, v) in enumerate(comps):
            c = L['c%d' % i]
            if L['gt%d' % i] != 'ok=%d' % t:
                return f'component {i}: get_type of the encoded component is not the type it was built with'
            if L['gv%d' % i] != 'ok=' + (v or '-'):
                return f'component {i}: get_value of the encoded component is not the value it was built with'
            if not _ok(L['tc%d' % i]):
                return f'component {i}: to_canonical_uri failed'
            if L.get('fs_tc%d' % i) != c:
                return f'component {i}: from_str(to_canonical_uri(c)) != c'
            if not _ok(L['ts%d' % i]):
                return f'component {i}: to_str failed'
            if _canon_num(t, bytes.fromhex(v)) and L.get('fs_ts%d' % i) != c:
                return f'component {i}: from_str(to_str(c)) != c'
        if not _ok(L['enc']):
            return 'Name.encode failed'
        wlen = len(_unhx(L['enc'][3:]))
        if L.get('dec') != '%s@%d' % (want, wlen):
            return 'Name.decode(Name.encode(n)) != (n, len)'
        for lab, what in (('nrw', 'normalize(wire)'), ('nfs_ntc', 'Name.from_str(Name.to_canonical_uri(n))'),
                          ('nrs_ntc', 'normalize(canonical URI)'), ('nrm_str', 'normalize(list of canonical component URIs)'),
                          ('nrm_mixed', 'normalize(mixed list)'), ('nrm_bytes', 'normalize(list of components)')):
            if L.get(lab) != want:
                return f'{what} != n'
        if all(_canon_num(t, bytes.fromhex(v)) for t, v in comps) and L.get('nfs_nts') != want:
            return 'Name.from_str(Name.to_str(n)) != n'
        r = _name_side_oracle(comps, L, impl.get('side', {}), want, wlen)
        if r:
            return r
        n = len(comps)
        for lab, tok in L.items():
            if lab.startswith('pre_') and tok != 'ok=T':
                return 'is_prefix(n[:j], n) is not True'
            if lab.startswith('erp_'):
                j = int(lab[4:])
                if tok != ('ok=T' if j == n else 'ok=F'):
                    return 'is_prefix(n, n[:j]) disagrees with component-wise equality'
        return None
    if k == 'pair':
        if not impl.get('built'):
            return 'Component.from_bytes rejected a component with type in 1..65535'
        a, b = [tuple(c) for c in case['a']], [tuple(c) for c in case['b']]
        if L['pre_ab'] != ('ok=T' if a == b[:len(a)] else 'ok=F'):
            return 'is_prefix(a, b) disagrees with component-wise equality'
        if L['pre_ba'] != ('ok=T' if b == a[:len(b)] else 'ok=F'):
            return 'is_prefix(b, a) disagrees with component-wise equality'
        ka, kb = _key(a), _key(b)
        for x, what in (('nlt', 'comparing the lists of encoded components'), ('flt', 'comparing the concatenated encoded components')):
            if L[x + '_ab'] != ('ok=T' if ka < kb else 'ok=F') or L[x + '_ba'] != ('ok=T' if kb < ka else 'ok=F'):
                return f'{what} disagrees with NDN canonical order'
        for i in range(min(len(a), len(b))):
            if L['lt_ab%d' % i] != ('ok=T' if ka[i] < kb[i] else 'ok=F') or L['lt_ba%d' % i] != ('ok=T' if kb[i] < ka[i] else 'ok=F'):
                return 'comparing two encoded components disagrees with NDN canonical order (type, length, value)'
        return None
    if k == 'pool':
        if not impl.get('built'):
            return 'Component.from_bytes rejected a component with type in 1..65535'
        names = case['names']
        if sorted(_key(n) for n in names) != [_key(names[i]) for i in impl['sorted_idx']]:
            return 'sorting names by their encoded components disagrees with NDN canonical order'
        return None
    if k in ('uri', 'text', 'num'):
        for lab, tok in impl.get('side', {}).items():
            first = {'fresh_fs': 'fs', 'fresh_nfs': 'nfs', 'fresh_nrm1': 'nrm1', 'fresh_fn': 'fn'}.get(lab)
            if first and _ok(L.get(first)) and tok != 'ok=same':
                return (f'{lab[6:]}: the same conversion gives a different answer the second time, after the caller overwrote '
                        f'the first result ({tok})')
    if k == 'uri':
        s = case['s']
        if _ok(L['fs']):
            if L.get('fs_tc') != L['fs']:
                return 'accepted component URI: from_str(to_canonical_uri(c)) != c'
            m = re.match(r'ok=(\d+)', L.get('gt', ''))
            if not m or not (1 <= int(m.group(1)) <= 65535):
                return 'accepted component URI has a type outside 1..65535'
        if _ok(L['nfs']):
            if L.get('nrs') != L['nfs']:
                return 'normalize(str) != Name.from_str(str)'
            if L.get('nfs_ntc') != L['nfs']:
                return 'accepted name URI: Name.from_str(Name.to_canonical_uri(n)) != n'
            if L.get('nrw') != L['nfs']:
                return 'accepted name URI: normalize(Name.encode(n)) != n'
        if 'nrm1' in L and (_ok(L['nfs']) or _ok(L['nrm1'])) and L['nrm1'] != L['nfs']:
            return 'a one-component URI normalises differently as a str and as a one-element list'
        return None
    if k == 'text':
        s = case['s']
        if '%' not in s and '=' not in s:
            want = s.encode('utf-8')
            if not _ok(L['fs']):
                return 'from_str(escape_str(text)) rejected a text without % and ='
            if L.get('gt') != 'ok=8' or L.get('gv') != 'ok=' + _hx(want):
                return 'from_str(escape_str(text)) is not the generic component holding the UTF-8 bytes of the text'
            if L['nrm1'] != 'ok=' + L['fs'][3:]:
                return 'normalize([text]) differs from from_str(escape_str(text))'
            if 'nfs' in L and s and L['nfs'] != 'ok=' + L['fs'][3:]:
                return "Name.from_str('/' + text) differs from the component built from the text"
        return None
    if k == 'num':
        n, t = case['n'], case['typ']
        if 0 <= n < 2**64:
            if not _ok(L['fn']):
                return 'from_number rejected a number in 0..2^64-1'
            if L.get('tn') != 'ok=%d' % n:
                return 'to_number(from_number(n)) != n'
            if L.get('gv') != 'ok=' + _hx(_pack(n)):
                return 'from_number does not carry the minimal 1/2/4/8-byte big-endian number'
            if t in NUM_TYPES and L.get('fs_ts') != L['fn']:
                return 'from_str(to_str(from_number(n))) != from_number(n)'
            if L.get('fs_seg') != 'ok=' + _hx(bytes([50, len(_pack(n))]) + _pack(n)):
                return "from_str('seg=n') is not the segment component of n"
            D = impl.get('side', {})
            for ctor, (short, typ) in _CONVENTION.items():
                wantc = _hx(bytes([typ, len(_pack(n))]) + _pack(n))
                if D.get('ctor_' + short) != 'ok=' + wantc:
                    return f'Component.{ctor}(n) is not the type-{typ} component holding the minimal number'
                if D.get('fs_' + short) != 'ok=' + wantc:
                    return f"from_str('{short}=n') is not the type-{typ} component of n"
                if D.get('nfs_' + short) != 'ok=0801' + '61,' + wantc:
                    return f"Name.from_str('/a/{short}=n') does not end with the type-{typ} component of n"
        return None
    if k == 'wire':
        return _wire_oracle(bytes.fromhex(case['w']), L)
    if k == 'at':
        return _at_oracle(case, L, impl.get('side', {}))
    return None


def _at_one(suffix, tok):
    """Name.decode(buf, off) for 0 <= off against the bytes of the suffix buf[off:], read independently of the library"""
    if not suffix:
        return None if tok == 'err=IndexError' else 'does not raise IndexError at an offset at or past the end of the buffer'
    shape = _wire_shape(suffix)
    if shape[0] == 'overrun':
        return None if tok == 'err=IndexError' else 'does not raise IndexError on a Name whose Length ends inside a component'
    if not _ok(tok):
        if shape[0] == 'name' and shape[1] + shape[2] <= len(suffix) and _tiles(suffix[shape[1]:shape[1] + shape[2]]):
            return 'rejects a Name element made of whole components that lies inside the buffer'
        return None
    if shape[0] != 'name':
        return 'accepts bytes that do not start with a readable Name Type and Length'
    names, used = tok[3:].rsplit('@', 1)
    comps = [bytes(c) for c in _unnm(names)]
    hdr, ln = shape[1], shape[2]
    if int(used) != hdr + ln:
        return 'bytes consumed != size of the Name element (header + declared Length)'
    if hdr + ln > len(suffix):
        return 'accepts a Name whose Length runs past the buffer'
    if b''.join(comps) != suffix[hdr:hdr + ln]:
        return 'the components joined are not the Value bytes of the Name element at the offset'
    for c in comps:
        ct = _rd_tl(c, 0)
        cl = _rd_tl(c, ct[1]) if ct is not None else None
        if cl is None or ct[1] + cl[1] + cl[0] != len(c):
            return 'returns a component that is not one whole TLV'
    return None


def _tiles(body):
    off = 0
    while off < len(body):
        ct = _rd_tl(body, off)
        cl = _rd_tl(body, off + ct[1]) if ct is not None else None
        if cl is None or off + ct[1] + cl[1] + cl[0] > len(body):
            return False
        off += ct[1] + cl[1] + cl[0]
    return True


def _at_oracle(case, L, D):
    pre, w, post = bytes.fromhex(case['pre']), bytes.fromhex(case['w']), bytes.fromhex(case['post'])
    buf = pre + w + post
    n = len(buf)
    for o in _at_offsets(len(pre), len(w), n):
        if o >= 0:
            tok = L.get('at%d' % o)
            r = _at_one(buf[o:], tok)
            if r:
                return 'Name.decode(buf, %s): %s' % ('len(pre)' if o == len(pre) else 'offset >= 0', r)
            # decoding at an offset = decoding the suffix as a buffer of its own (what theorem decode_at_suffix says of the
            # source, observed on the implementation with an independent call)
            if o == len(pre) and tok != D.get('sfx'):
                return 'Name.decode(buf, len(pre)) differs from Name.decode(buf[len(pre):])'
        else:
            tok = D.get('at%d' % o)
            if o < -n:
                # theorem Ndn.NameGen.decode_below: buf[offset] raises IndexError
                if tok != 'err=IndexError':
                    return 'Name.decode(buf, offset < -len(buf)) does not raise IndexError'
                continue
            # -n <= o < 0.  Outside the model except (theorem Ndn.NameGen.decode_neg_ok) when decoding at the equivalent
            # offset n + o succeeds and ends STRICTLY before the end of the buffer: then the negative offset gives the same
            pos = L.get('at%d' % (n + o))
            if pos is not None and _ok(pos) and int(pos.rsplit('@', 1)[1]) < -o and tok != pos:
                return 'Name.decode(buf, -k) differs from Name.decode(buf, len(buf) - k) although the Name ends before the end of the buffer'
    return None


def nontrivial(case, impl):
    k = case['k']
    if k == 'name':
        return len(case['comps']) > 0
    if k == 'pair':
        return case['a'] != case['b']
    if k == 'uri':
        return _ok(impl['lab'].get('fs')) or _ok(impl['lab'].get('nfs'))
    if k == 'wire':
        return _ok(impl['lab'].get('dec'))
    if k == 'at':
        return any(_ok(v) for v in impl['lab'].values())
    return True


def tags(case, impl):
    k = case['k']
    t = ['kind:' + k]
    L = impl['lab']
    if k == 'name':
        t.append('ncomp:%d' % len(case['comps']))
        for ty, v in case['comps']:
            t.append('type:%s' % (ty if ty in TYPES else 'other'))
            if ty in NUM_TYPES:
                t.append('number:' + ('canonical' if _canon_num(ty, bytes.fromhex(v)) else 'non-canonical'))
            if v == '':
                t.append('empty-value')
    elif k == 'uri':
        t.append('component-uri:' + L['fs'][:3] + ('' if _ok(L['fs']) else L['fs'][3:]))
        t.append('name-uri:' + L['nfs'][:3] + ('' if _ok(L['nfs']) else L['nfs'][3:]))
    elif k == 'wire':
        t.append('decode:' + (L['dec'][:2] if _ok(L['dec']) else L['dec']))
        shape = _wire_shape(bytes.fromhex(case['w']))
        if shape[0] == 'overrun':
            t.append('component-overruns-name-length:' + shape[1])
    elif k == 'at':
        for lab, tok in list(L.items()) + list(impl.get('side', {}).items()):
            if not lab.startswith('at'):
                continue
            o = int(lab[2:])
            tg = 'decode-at:%s:%s' % ('neg' if o < 0 else 'zero' if o == 0 else 'pos', tok[:2] if _ok(tok) else tok)
            if tg not in t:
                t.append(tg)
    elif k == 'pair':
        t.append('prefix:' + L.get('pre_ab', '?')[3:] + L.get('pre_ba', '?')[3:])
    elif k == 'num':
        t.append('from_number:' + (L['fn'][:2] if _ok(L['fn']) else L['fn']))
    return t


def finding_key(case, impl, why):
    w = re.sub(r'component \d+: ', '', why)
    w = re.sub(r'[^a-zA-Z0-9]+', '-', w).strip('-').lower()
    return w[:60]


LEVEL_TEXT = ('Lean 4 theorems over a hand-written model of Component.{from_bytes,from_str,to_str,to_canonical_uri,escape_str,'
              'from_number,get_type,get_value} and Name.{from_str,to_str,to_canonical_uri,encode,decode,normalize,is_prefix}: '
              'wire and URI round trips for every name (any number of components, types 1..65535, arbitrary value bytes), the '
              'for every byte string what Name.decode accepts is Type 7, a Length inside the buffer and whole components that tile exactly that Length (decode_accepts_exact), a Length ending inside a component is IndexError (decode_overrun_rejected), the '
              'shorthand URI round trip under the canonical-number hypothesis (with the counterexample showing why), agreement of all '
              'accepted input forms, is_prefix = list prefix, and byte order = NDN canonical order from write_lex_mono. The model is '
              'tied to the code on every run by differential execution of the compiled model against the real functions, plus the '
              'property oracle evaluated on the implementation.'
              ' The character set and the two typed-number shorthand tables of the model are read from lean/NdnGen/C09.lean, which is regenerated from the source on every run; the TYPE_* constants, MAX_COMPONENT_TYPE_VALUE, Name.TYPE_NAME, the digest words, the escaping exclusions and hex case, the 08 00 literals, the range of Type numbers and the thresholds of get_tl_num_size / write_tl_num / parse_tl_num / pack_uint_bytes are pinned to the generated values by theorems closed by evaluation (NdnProofs/Props/C09Tables.lean), so an edit of one of these constants breaks a proof obligation before any input is searched for.')
LEVEL_NOTE = ('Proof is about the model; model=code is sampled (differential testing), not proved. Python str/int()/fromhex '
              'semantics are modelled on the CHARSET alphabet.')
TECHNIQUE = 'Lean 4 proof (structural induction over byte strings / component lists, case analysis of the TL-number codec) + model/implementation correspondence check'
DESIGN_REF = 'DESIGN.md section 7, C09'
