"""C16 — issued certificates are well-formed, correctly named and verifiable."""
import datetime as _dt
import pktcommon as PK
import tlvschema as T
import strict_tlv as S

PROP = 'C16'
TITLE = 'Issued certificates are well-formed, correctly named and verifiable'
LEAN_TARGETS = ['NdnProofs.Props.C16', 'NdnGen.C16']
THEOREMS = [
    'Ndn.C16.cert_wire', 'Ndn.C16.cert_name', 'Ndn.C16.cert_signed_portion', 'Ndn.C16.parse_cert_roundtrip',
    'Ndn.C16.formatTime_length', 'Ndn.C16.formatTime_inj', 'Ndn.Gen.C16.schema_matches',
]
PARTIAL = {}
TRUSTED = [
    'C16: datetime arithmetic (now + 20 years, start + expire_sec) and strftime are CPython; the model starts from the calendar fields of the two instants; years outside 1000..9999 are outside the model',
    'C16: the signer is abstract as in C01 (its output is recorded); verification uses the real pycryptodomex verifiers in the oracle',
]
RULE = ('certificates produced by self_sign, sign_req and derive_cert for random key names (given as component list, URI '
        'text or encoded Name; zero components, with/without KEY suffix), issuer ids given as text (incl. percent-escapes, '
        'typed and alias forms; expected component computed from the URI scheme) or as component, a sweep of every kind '
        'of year (weekday of 1 Jan x leap) x 29 Dec..3 Jan as requested start, requested end, now, now+10d, now+20y, month '
        'ends, microseconds, UTC-aware starts, a machine zone other than UTC, total certificate size swept across 253 and '
        '65536 for every signer, EC P-256/384/521, RSA-2048 and Ed25519 subject keys and issuer signers (plus HMAC and a synthetic signer '
        'sweeping reserved/real signature lengths across 253), validity start times at year / month / leap-day boundaries '
        'and durations up to 10^9 s, with the clock patched. Compared with the model: wire bytes, signed bytes, certificate '
        'name, every parsed field. Oracle: well-formed Data, name = key-name/issuer/version, Content = key, ContentType KEY, '
        'ValidityPeriod = the requested instants, key locator = the signer\'s, signature verifies under the issuing key, '
        'parse_certificate and parse_data agree. non-trivial = certificate built and verified; distinct = distinct inputs')
LEVEL_TEXT = ('Lean 4 theorems about the model of new_cert (manual outer-TLV assembly after the reserved signature space is '
              'cut): the certificate is exactly tlv DATA (Name, MetaInfo(KEY), Content=key, SignatureInfo+ValidityPeriod, '
              'tlv SIGNATURE_VALUE sig) for every signature length; its name is key-name/issuer/version; the signed bytes are '
              'Name..SignatureInfo; decoding returns the same fields; the 15-character validity encoding is injective on '
              'calendar fields. Tied to security_v2.py by differential execution with real keys and a patched clock; the '
              'oracle verifies every certificate with the issuer\'s public key.')
LEVEL_NOTE = 'Model = code sampled; datetime arithmetic and cryptography are not modelled (oracle side only).'
TECHNIQUE = 'Lean 4 proof (byte-level assembly + generic codec round trip) + model/implementation correspondence with real keys'
DESIGN_REF = 'DESIGN.md section 7, C16'

ISSUERS = [['ec256'], ['ec256'], ['ec384'], ['ec521'], ['rsa2048'], ['ed25519'], ['hmac'], ['digest', 0]]


def _leap(y):
    return y % 4 == 0 and (y % 100 != 0 or y % 400 == 0)


def _mdays(y, mo):
    return [31, 29 if _leap(y) else 28, 31, 30, 31, 30, 31, 31, 30, 31, 30, 31][mo - 1]


def _kind_years():
    """one year of every kind (weekday of 1 January x leap / common = 14 kinds): the ISO week-year, %U/%W week numbers
    and day-of-year arithmetic differ between kinds exactly on 29 Dec - 3 Jan"""
    kinds = {}
    for y in range(1996, 2040):
        kinds.setdefault((_dt.date(y, 1, 1).weekday(), _leap(y)), y)
    return [kinds[k] for k in sorted(kinds)]


KIND_YEARS = _kind_years()
BOUNDARY_DAYS = [(12, 29), (12, 30), (12, 31), (1, 1), (1, 2), (1, 3)]
HMS = [(0, 0, 0), (23, 59, 59), (12, 0, 0), (0, 0, 1), (23, 59, 0)]
ISSUER_TEXTS = ['ca', 'NDNCERT', 'a-b_c', 'root.1', 'a%20b', '%00%ff', 'x%2Fy', '32=issuer', '255=%01%02', 'caf%C3%A9',
                '8=x', 'v=5', '']
FAST_ISSUERS = [['ed25519'], ['hmac'], ['digest', 0], ['ec256']]


def _rand_time(rng):
    r = rng.random()
    if r < 0.25:
        y = rng.choice([1000, 1900, 1999, 2000, 2024, 2038, 2100, 9998])
        mo, d = rng.choice([(1, 1), (12, 31), (2, 28), (3, 1)])
        if _leap(y) and rng.random() < 0.5:
            mo, d = 2, 29
        return [y, mo, d, rng.choice([0, 23]), rng.choice([0, 59]), rng.choice([0, 59])]
    if r < 0.40:
        # 29 Dec - 3 Jan of a year of any kind
        y = rng.choice(KIND_YEARS) + 28 * rng.choice([-1, 0, 0, 1])
        mo, d = rng.choice(BOUNDARY_DAYS)
        return [y, mo, d] + list(rng.choice(HMS))
    if r < 0.55:
        # the last days of a month
        y, mo = rng.randint(1000, 9000), rng.randint(1, 12)
        return [y, mo, _mdays(y, mo) - rng.choice([0, 0, 1])] + list(rng.choice(HMS))
    return [rng.randint(1000, 9000), rng.randint(1, 12), rng.randint(1, 28), rng.randint(0, 23), rng.randint(0, 59),
            rng.randint(0, 59)]


def _extras(rng):
    """dimensions added by hardening (absent keys mean the old behaviour, so old replays stay valid)"""
    return {'tz': rng.choice([None, None, 0, 0, 5, -8, 5.75, 14, -12]), 'us': rng.choice([0, 0, 1, 500000, 999999]),
            'local_off': rng.choice([-11, -5, 1, 9, 14]), 'kn_form': rng.choice(['list', 'list', 'str', 'wire'])}


def _base(rng, **kw):
    c = {'fn': 'derive', 'issuer': ['ed25519'], 'subject': 'raw', 'raw_len': 32, 'key_name': ['08034b4559', '08026b31'],
         'issuer_id': ['text', 'ca'], 'start': [2020, 6, 1, 0, 0, 0], 'expire': 3600, 'now': [2020, 6, 1, 0, 0, 0],
         'ts': rng.randint(0, 2 ** 48), 'seed': rng.getrandbits(32), 'tz': None, 'us': 0, 'local_off': 9, 'kn_form': 'list'}
    c.update(kw)
    return c


def _secs(a, b):
    return int((_dt.datetime(*b) - _dt.datetime(*a)).total_seconds())


def _sweep(rng, tier):
    """every kind of year x every day of 29 Dec - 3 Jan, as requested start AND as requested end of derive_cert, as
    `now` and as now + 10 days of sign_req, as now + 20 years of self_sign"""
    n = len(KIND_YEARS)
    for i, y in enumerate(KIND_YEARS):
        for j, (mo, d) in enumerate(BOUNDARY_DAYS):
            a = [y, mo, d] + list(rng.choice(HMS))
            mo2, d2 = BOUNDARY_DAYS[(j + 3) % 6]
            y2 = KIND_YEARS[(i + 5) % n]
            while (y2, mo2, d2) <= (y, mo, d):
                y2 += 28
            b = [y2, mo2, d2] + list(rng.choice(HMS))
            common = {'issuer': rng.choice(FAST_ISSUERS), 'tz': rng.choice([None, 0, 9, -3.5]), 'us': rng.choice([0, 999999]),
                      'issuer_id': rng.choice([['text', 'ca'], ['comp', '0802' + b'ca'.hex()]]),
                      'kn_form': rng.choice(['list', 'str', 'wire'])}
            yield _base(rng, fn='derive', start=a, expire=_secs(a, b), **common)
            if tier != 'quick' or (i + j) % 2 == 0:
                yield _base(rng, fn='req', now=a, **common)
            if tier != 'quick' or (i + j) % 2 == 1:
                back = _dt.datetime(*a) - _dt.timedelta(days=10)
                yield _base(rng, fn='req', now=_fields(back), **common)
            yield _base(rng, fn='self', now=[y - 20] + a[1:], **common)


def _measure(case):
    try:
        impl = run_impl(dict(case, raw_len=0))
        return len(impl['made'][1]) // 2 if impl['made'][0] == 'ok' else None
    except Exception:      # noqa - steering only
        return None


def _sizes(rng, tier):
    """total certificate size swept across 253 and 65536 for every kind of signer (the content is a raw key of the
    length that puts the whole certificate there; ECDSA signers then shrink across the boundary by chance)"""
    signers = [['ec256'], ['ec384'], ['ec521'], ['rsa2048'], ['ed25519'], ['hmac'], ['digest', 0],
               ['synth', 72, 70], ['synth', 72, 64], ['synth', 8, 0]]
    for rep in range(1 if tier == 'quick' else 4):
        for sg in signers:
            fn = rng.choice(['derive', 'derive', 'self', 'req'])
            kn = [c.hex() for c in PK.rand_name(rng)[:2] if len(c) < 40] + ['08034b4559', '0801' + '%02x' % rng.randrange(256)]
            proto = _base(rng, fn=fn, issuer=sg, key_name=kn, start=_rand_time(rng), now=[2024, 12, 31, 23, 59, 59],
                          issuer_id=rng.choice([['text', 'ca'], ['comp', PK.rand_comp(rng).hex()]]))
            l0 = _measure(proto)
            if l0 is None:
                l0 = 150
            for target, deltas in ((253, range(-5, 5)), (65536, range(-10, 3))):
                deltas = list(deltas)
                if tier == 'quick' and target == 65536:
                    deltas = rng.sample(deltas, 3)
                for dl in deltas:
                    n = target + dl - l0
                    if target == 65536:
                        n -= 2 + (4 if l0 < 253 else 2)      # Content Length 1 -> 3 bytes, outer Length 1|3 -> 5 bytes
                    if n >= 0:
                        yield dict(proto, raw_len=n, ts=rng.randint(0, 2 ** 48), seed=rng.getrandbits(32))


def _random_case(rng, tier):
    fn = rng.choice(['derive', 'derive', 'derive', 'self', 'req'])
    issuer = rng.choice(ISSUERS) if rng.random() < 0.8 else PK.rand_synth(rng)
    if tier == 'quick' and issuer[0] == 'rsa2048' and rng.random() < 0.6:
        issuer = ['ec256']
    subject = rng.choice(['ec256', 'ec384', 'ec521', 'ed25519', 'rsa2048', 'raw'])
    r = rng.random()
    if r < 0.05:
        key_name = []                                               # a key name of zero components
    elif r < 0.10:
        key_name = [c.hex() for c in PK.rand_name(rng)]             # no KEY / key-id suffix
    else:
        key_name = [c.hex() for c in PK.rand_name(rng)] + ['08034b4559', PK.rand_comp(rng).hex()]
    start = _rand_time(rng)
    expire = rng.choice([0, 1, 59, 86400, 86400 * 365, 10 ** 9, rng.randint(1, 10 ** 7)])
    if rng.random() < 0.3:
        # an end instant on one of the special days
        end = _rand_time(rng)
        while end[0] < start[0] + 1:
            end[0] += 28
        if end[1:3] == [2, 29] and not _leap(end[0]):
            end[2] = 28
        if end[0] <= 9999:
            expire = _secs(start, end)
    case = {'fn': fn, 'issuer': issuer, 'subject': subject, 'raw_len': rng.choice([0, 1, 91, 252, 253, 300]),
            'key_name': key_name, 'issuer_id': rng.choice([['text', rng.choice(ISSUER_TEXTS)],
                                                           ['comp', PK.rand_comp(rng).hex()]]),
            'start': start, 'expire': expire,
            'now': _rand_time(rng), 'ts': rng.choice([0, 255, 256, 65535, 65536, 2 ** 32 - 1, 2 ** 32,
                                                      rng.randint(0, 2 ** 48), rng.randint(0, 2 ** 48)]),
            'seed': rng.getrandbits(32)}
    case.update(_extras(rng))
    if case['kn_form'] == 'str' and any(c[:2] in ('32', '34', '36', '38', '3a') for c in key_name):
        # naming-convention components with a value that is not a number have no URI text (Name.to_str/from_str is
        # another property's business): hand those over as an encoded Name instead
        case['kn_form'] = 'wire'
    return case


def cases(rng, tier):
    yield from _sweep(rng, tier)
    yield from _sizes(rng, tier)
    n = 150 if tier == 'quick' else 4000
    for _ in range(n):
        yield _random_case(rng, tier)


def shrink(case):
    if len(case['key_name']) > 2:
        yield dict(case, key_name=case['key_name'][1:])
    if case['expire'] > 1:
        yield dict(case, expire=case['expire'] // 2)


def _pub_key(case):
    if case['subject'] == 'raw':
        import random
        r = random.Random(case['seed'])
        return bytes(r.getrandbits(8) for _ in range(case['raw_len']))
    pub = PK.keys()[case['subject']][1]
    try:
        return pub.export_key(format='DER')
    except TypeError:
        return pub.export_key('DER')


def _fmt(t):
    return '%04d%02d%02dT%02d%02d%02d' % tuple(t)


def _fields(dt):
    return [dt.year, dt.month, dt.day, dt.hour, dt.minute, dt.second]


_ALIASES = {'seg': 50, 'off': 52, 'v': 54, 't': 56, 'seq': 58}


def _nat_min(n):
    """NonNegativeInteger: 1, 2, 4 or 8 bytes, the shortest that fits"""
    for w in (1, 2, 4, 8):
        if n < 1 << (8 * w):
            return n.to_bytes(w, 'big')
    raise ValueError(n)


def _uri_comp(text):
    """the name component an NDN-URI component text denotes (written from the URI scheme, not with the library):
    optional `<type>=` (a number, or a naming-convention alias with a decimal value), percent-escapes decoded"""
    typ, val = 8, text
    if '=' in text:
        head, val = text.split('=', 1)
        if head in _ALIASES:
            return T.tl(_ALIASES[head]) + T.tl(len(_nat_min(int(val)))) + _nat_min(int(val))
        typ = int(head)
    out, i = bytearray(), 0
    while i < len(val):
        if val[i] == '%':
            out.append(int(val[i + 1:i + 3], 16))
            i += 3
        else:
            out.append(ord(val[i]))
            i += 1
    return T.tl(typ) + T.tl(len(out)) + bytes(out)


def _version_comp(ts):
    """version component of the naming conventions: type 54, NonNegativeInteger"""
    v = _nat_min(ts)
    return T.tl(54) + T.tl(len(v)) + v


def run_impl(case):
    from ndn.app_support import security_v2 as sv
    from ndn import encoding as enc
    out = {}
    inner = PK.make_signer(case['issuer'])
    rec = PK.Recorder(inner)
    key_name = [bytes.fromhex(c) for c in case['key_name']]
    form = case.get('kn_form', 'list')
    if form == 'str':
        key_name = enc.Name.to_str(key_name)
    elif form == 'wire':
        key_name = bytes(enc.Name.to_bytes(key_name))
    pub = _pub_key(case)
    us = case.get('us', 0)
    now = _dt.datetime(*case['now'], us, tzinfo=_dt.timezone.utc)
    local_off = case.get('local_off')

    class _DT(_dt.datetime):
        @classmethod
        def now(cls, tz=None):
            # the machine's zone is UTC+local_off hours: asking for the local time gives another wall-clock reading
            if tz is None:
                return now if local_off is None else (now + _dt.timedelta(hours=local_off)).replace(tzinfo=None)
            return now.astimezone(tz)
    old = (sv.datetime, sv.timestamp)
    sv.datetime, sv.timestamp = _DT, (lambda: case['ts'])
    try:
        try:
            if case['fn'] == 'self':
                name, wire = sv.self_sign(key_name, pub, rec)
                issuer = b'\x08\x04self'         # NDN certificate naming: the issuer id of a self-signed certificate
                t0 = [1970, 1, 1, 0, 0, 0]
                t1 = _fields(now.replace(year=now.year + 20))
            elif case['fn'] == 'req':
                name, wire = sv.sign_req(key_name, pub, rec)
                issuer = bytes(sv.SIGN_REQ_COMPONENT)
                t0 = _fields(now)
                t1 = _fields(now + _dt.timedelta(days=10))
            else:
                kind, val = case['issuer_id']
                iid = val if kind == 'text' else bytes.fromhex(val)
                # case['start'] is the requested instant in UTC; 'tz': None = naive, 0 = aware UTC, other = the same
                # instant expressed in a zone that many hours from UTC (fixed in /repo: written as UTC)
                start = _dt.datetime(*case['start'], us, tzinfo=None if case.get('tz') is None else _dt.timezone.utc)
                if case.get('tz'):
                    start = start.astimezone(_dt.timezone(_dt.timedelta(hours=case['tz'])))
                name, wire = sv.derive_cert(key_name, iid, pub, rec, start, case['expire'])
                issuer = _uri_comp(val) if kind == 'text' else bytes.fromhex(val)
                t0 = case['start']
                end = start + _dt.timedelta(seconds=case['expire'])
                t1 = _fields(end if end.tzinfo is None else end.astimezone(_dt.timezone.utc))
            wire = bytes(wire)
            out['made'] = ['ok', wire.hex()]
            out['name'] = [bytes(c).hex() for c in name]
        except (ValueError, OverflowError) as e:
            # calendar arithmetic outside the supported range (Feb 29 + 20 years, year > 9999): not a certificate
            out['made'] = ['calendar', type(e).__name__]
            return out
        except Exception as e:      # noqa
            out['made'] = ['err', PK.exc_name(e)]
            return out
    finally:
        sv.datetime, sv.timestamp = old
    out.update({'issuer': issuer.hex(), 't0': t0, 't1': t1, 'pub': pub.hex(),
                'version': _version_comp(case['ts']).hex(),
                'reserved': rec.reserved, 'sig': rec.sig.hex() if rec.sig is not None else None,
                'covered': b''.join(rec.covered).hex() if rec.covered is not None else None})
    from ndn.encoding.ndn_format_0_3 import SignatureInfo
    si_fs = T.class_schema(SignatureInfo)
    # the five fields the signer filled in (the certificate's SignatureInfo starts with them)
    out['signer_info'] = T.values_text([T.from_py(s, rec.si.__dict__.get(f.name)) for f, s in zip(SignatureInfo._encoded_fields, si_fs)])
    # parse with both decoders
    try:
        cert = sv.parse_certificate(wire)
        fs = T.class_schema(sv.CertificateV2Value)
        out['parsed'] = ['ok', T.values_text(T.from_instance(fs, cert))]
        out['cert'] = {
            'name': [bytes(c).hex() for c in cert.name], 'content': bytes(cert.content).hex(),
            'content_type': cert.meta_info.content_type if cert.meta_info else None,
            'not_before': bytes(cert.signature_info.validity_period.not_before).decode('latin1')
            if cert.signature_info and cert.signature_info.validity_period else None,
            'not_after': bytes(cert.signature_info.validity_period.not_after).decode('latin1')
            if cert.signature_info and cert.signature_info.validity_period else None,
            'key_locator': None if cert.signature_info is None or cert.signature_info.key_locator is None
            or cert.signature_info.key_locator.name is None
            else [bytes(c).hex() for c in enc.Name.normalize(cert.signature_info.key_locator.name)]}
    except Exception as e:      # noqa
        out['parsed'] = ['err', PK.exc_name(e)]
    p2 = PK.parse_packet('data', wire)
    out['parse_data'] = {'res': p2['res'], 'name': p2.get('name'), 'content': p2.get('content'),
                         'SC': ''.join(p2.get('SC', [])), 'SV': p2.get('SV')}
    # the matching verifier with the issuer's public key
    vcase = {'signer': case['issuer'], 'pkt': 'data'}
    from props import c02
    out['verify'] = c02._verify(vcase, wire)
    try:
        fs = T.class_schema(sv.CertificateV2Value)
        vals = S.strict_packet(fs, wire, 6, False, True)
        body = b''.join(T.ref_encode(s, v) for s, v in zip(fs, vals))
        out['strict'] = 'ok' if T.tl(6) + T.tl(len(body)) + body == wire else 'not-minimal-or-out-of-order'
    except S.Reject as r:
        out['strict'] = 'rej:' + str(r)
    return out


def model_line(case, impl):
    if impl['made'][0] != 'ok' or impl.get('sig') is None:
        return None
    kn = ','.join(T.hx(bytes.fromhex(c)) for c in case['key_name']) or '.'
    t0 = ','.join(str(x) for x in impl['t0'])
    t1 = ','.join(str(x) for x in impl['t1'])
    if not (1000 <= impl['t0'][0] <= 9999 and 1000 <= impl['t1'][0] <= 9999):
        return None
    return (f"C16 cert {kn} {impl['issuer']} {impl['version']} {T.hx(bytes.fromhex(impl['pub']))} {impl['signer_info']} "
            f"{t0} {t1} {impl['reserved']}:{T.hx(bytes.fromhex(impl['sig']))}")


def model_obs(answer, case, impl):
    if answer.startswith('err'):
        return {'made': ['err', answer.split()[1]]}
    left, right = answer.split(' | ')
    d = dict(t.split('=', 1) for t in left.split()[1:])
    r = right.split()
    return {'made': ['ok', d['W']], 'covered': ''.join(PK._hexlist(d['C'])), 'name': PK._hexlist(d['N']),
            'parsed': [r[0], r[1].split('=', 1)[1] if r[0] == 'ok' else r[1]]}


def impl_obs(impl):
    return {'made': impl['made'], 'covered': impl['covered'], 'name': impl['name'], 'parsed': impl['parsed']}


def oracle(case, impl):
    if impl['made'][0] == 'calendar':
        return None
    if impl['made'][0] == 'err':
        s = case['issuer']
        if s[0] == 'synth' and s[1] >= 253 and s[2] != s[1]:
            return None
        return f"issuing a certificate raised {impl['made'][1]}"
    if impl['strict'] != 'ok':
        return f"certificate is not one well-formed, exactly sized Data element: {impl['strict']}"
    if impl['parsed'][0] != 'ok' or impl['parse_data']['res'] != 'ok':
        return 'the certificate does not parse'
    c = impl['cert']
    exp_name = list(case['key_name']) + [impl['issuer'], impl['version']]
    if c['name'] != exp_name or impl['name'] != exp_name or impl['parse_data']['name'] != exp_name:
        return 'certificate name is not key-name / issuer-id / version'
    if c['content'] != impl['pub'] or impl['parse_data']['content'] != impl['pub']:
        return 'certificate content is not exactly the given public key'
    if c['content_type'] != 2:
        return 'content type is not KEY'
    if c['not_before'] != _fmt(impl['t0']) or c['not_after'] != _fmt(impl['t1']):
        return f"validity period {c['not_before']}..{c['not_after']} does not encode the requested instants {_fmt(impl['t0'])}..{_fmt(impl['t1'])}"
    k = case['issuer'][0]
    want_kl = {'hmac': '/k/hmac', 'rsa2048': '/k/rsa', 'ed25519': '/k/ed'}.get(k, '/k/' + k if k.startswith('ec') else None)
    if want_kl is not None:
        from ndn.encoding import Name
        if c['key_locator'] != [bytes(x).hex() for x in Name.from_str(want_kl)]:
            return 'key locator is not the one configured in the issuing signer'
    elif c['key_locator'] is not None:
        return 'the certificate names a key locator although the issuing signer configures none'
    if impl['verify'] is False or isinstance(impl['verify'], str):
        return f"signature does not verify under the issuing key ({impl['verify']})"
    if impl['parse_data']['SV'] != impl['sig'] or impl['parse_data']['SC'] != impl['covered']:
        return 'signature value / covered bytes reported by the parser differ from what the signer saw'
    return None


def nontrivial(case, impl):
    return impl['made'][0] == 'ok' and impl.get('verify') in (True, None)


def tags(case, impl):
    t = ['fn:' + case['fn'], 'issuer:' + case['issuer'][0], 'subject:' + case['subject'], 'made:' + impl['made'][0]]
    if impl['made'][0] == 'ok':
        n = len(impl['made'][1]) // 2
        t.append('size:' + ('<253' if n < 253 else '253..259' if n < 260 else '>=260'))
        for b in (253, 65536):
            if b - 6 <= n <= b + 8:
                t.append('size-near-%d:%s' % (b, case['issuer'][0]))
        if impl.get('reserved') and impl.get('sig') is not None and impl['reserved'] * 2 != len(impl['sig']):
            t.append('shrunk')
            if n < 253 <= n + impl['reserved'] - len(impl['sig']) // 2:
                t.append('shrunk-across-253')
        for key in ('t0', 't1'):
            if impl[key][1:3] in ([12, 29], [12, 30], [12, 31], [1, 1], [1, 2], [1, 3]):
                t.append(key + ':29dec-3jan')
            elif impl[key][2] >= 29:
                t.append(key + ':day>=29')
        if case['fn'] == 'derive':
            t.append('issuer-id:' + case['issuer_id'][0] + ('-escaped' if '%' in case['issuer_id'][1] or '=' in case['issuer_id'][1] else ''))
            t.append('tz:' + str(case.get('tz')))
        t.append('kn-form:' + case.get('kn_form', 'list'))
        t.append('kn-comps:%d' % min(len(case['key_name']), 3))
        t.append('verify:' + str(impl['verify']))
    return t


def finding_key(case, impl, why):
    import re
    w = re.sub(r'[0-9]+', 'N', why)
    return re.sub(r'[^a-zA-Z]+', '-', w).strip('-').lower()[:80]


def extract(repo):
    from props.c08 import _lean_schema
    from ndn.app_support import security_v2 as sv
    fs = T.class_schema(sv.CertificateV2Value)
    out = ['import NdnModel.Cert',
           '/- GENERATED on every run by harness/props/c16.py from the live CertificateV2Value class.  Do not edit. -/',
           'namespace Ndn.Gen.C16', 'open Ndn.Codec', '',
           f"def certLive : List Schema := [{', '.join(_lean_schema(s) for s in fs)}]", '',
           '/-- the certificate field list the model is written against is the one the source declares now -/',
           'theorem schema_matches : certLive = Ndn.Cert.certFs := rfl', '', 'end Ndn.Gen.C16']
    return '\n'.join(out) + '\n'
