"""C16 — issued certificates are well-formed, correctly named and verifiable."""
import datetime as _dt
import pktcommon as PK
import tlvschema as T
import strict_tlv as S

PROP = 'C16'
TITLE = 'Issued certificates are well-formed, correctly named and verifiable'
LEAN_TARGETS = ['NdnProofs.Props.C16', 'NdnGen.C16']
THEOREMS = [
    'Ndn.C16.cert_wire', 'Ndn.C16.cert_name', 'Ndn.C16.cert_signed_portion', 'Ndn.C16.parse_cert_roundtrip',
    'Ndn.C16.formatTime_length', 'Ndn.C16.formatTime_inj', 'Ndn.Gen.C16.schema_matches',
    'Ndn.C16.ord_ymd_roundtrip', 'Ndn.C16.addSeconds_spec', 'Ndn.C16.addYears_spec', 'Ndn.C16.toUtc_spec',
    'Ndn.C16.fmtInstant_inj', 'Ndn.C16.fmtInstant_form', 'Ndn.C16.derive_instants', 'Ndn.C16.derive_zone_independent',
    'Ndn.C16.validity_encodes_requested_instants', 'Ndn.C16.validity_period_length', 'Ndn.C16.req_instants',
    'Ndn.C16.self_instants', 'Ndn.C16.issued_validity',
]
PARTIAL = {}
TRUSTED = [
    'C16: the calendar is modelled (NdnModel/Calendar.lean transcribes CPython\'s _ymd2ord/_ord2ymd, datetime + timedelta(seconds=n), replace(year=...), astimezone(UTC) as wall-clock reading minus the offset the tzinfo reports for that reading and its fold, in whole seconds) and tied to CPython\'s datetime by the calendar stream of this run; an instant enters the model as (date.toordinal(), second of day, microsecond); expire_sec is an integer; the validity text (_fmt_time: \'%04d\' % year + strftime(\'%m%dT%H%M%S\')) is modelled as zero-padded decimal fields on the whole range 0001..9999; the tzinfo of an aware start time is an arbitrary function from (wall-clock reading, fold) to an offset in the theorems; in the correspondence runs the model is handed the offset the tzinfo reports for the start reading and the one it reports for the wall-clock reading start + expire_sec (a two-valued zone function); offsets with a microsecond part (possible for hand-written tzinfo classes, not for zoneinfo) are outside the model',
    'C16: the signer is abstract as in C01 (its output is recorded); verification uses the real pycryptodomex verifiers in the oracle',
]
RULE = ('certificates produced by self_sign, sign_req and derive_cert for random key names (given as component list, tuple, '
        'list of URI strings, mixed bytes/str/bytearray/memoryview list, URI text or encoded Name in bytes / bytearray / '
        'memoryview; zero components, with/without KEY suffix), issuer ids given as text (incl. percent-escapes, '
        'typed and alias forms; expected component computed from the URI scheme) or as component (bytes / bytearray / '
        'memoryview), public keys in bytes / bytearray / memoryview, the signer object having issued 0..2 other certificates '
        'before, its private key given as DER or PEM (HMAC / Ed25519: bytes, bytearray, memoryview), its key locator as URI text, '
        'component list or encoded Name, EC P-224 issuers too, a sweep of every kind '
        'of year (weekday of 1 Jan x leap) x 29 Dec..3 Jan as requested start, requested end, now, now+10d, now+20y, validity periods in the first millennium (year 1, 999 -> 1000; the year has four digits), month '
        'ends, microseconds, UTC-aware starts, starts in fixed-offset zones (whole hours, 5:45, offsets with seconds), starts in zoneinfo zones whose offset changes (daylight saving in both directions incl. the repeated hour with fold=1, 30-minute DST, a skipped calendar day, local-mean-time offsets with seconds, far-future rule years) placed around every change of offset of the zone with durations reaching across it in both directions, a hand-written tzinfo whose offset depends on the day and on fold, a machine zone other than UTC, total certificate size swept across 253 and '
        '65536 for every signer, EC P-256/384/521, RSA-2048 and Ed25519 subject keys and issuer signers (plus HMAC and a synthetic signer '
        'sweeping reserved/real signature lengths across 253), validity start times at year / month / leap-day boundaries '
        'and durations up to 10^9 s, with the clock patched; re-entrant signers (a stream over every point of the signer\'s work - '
        'after write_signature_info, inside get_signature_value_size, before / after the signature is computed - x issuing signers '
        'of every signature length x what is built from inside: a certificate by another signer of another signature length, a '
        'certificate by the very same signer object, a Data / Interest packet; plus 5% of the random cases): two issuances '
        'interleaved, the outer certificate compared with the model, both judged by the oracle; the model is handed the instants as (ordinal, second, microsecond, '
        'fold, offset seconds for that reading, offset for the reading start+expire_sec) + expire_sec and computes the calendar fields of the validity period itself, and the calendar '
        'errors (OverflowError past 9999-12-31, ValueError for 29 Feb + 20 years into a common year) are compared too. '
        'Calendar stream: ymd2ord / ord2ymd / datetime + timedelta(seconds=n) / astimezone(UTC) / replace(year+k) / '
        'the validity text of the Lean model against CPython\'s datetime in both directions (from fields and from ordinals) on '
        'random instants, the 400/100/4/1-year cycle boundaries, first/last days of years, month ends, leap days, century '
        'years, invalid dates, sums landing on and beyond 0001-01-01 and 9999-12-31, |n| up to 10^15; date.fromordinal of every '
        'ordinal 1..3652059 in the thorough tier (six random blocks of 40000 days in the quick tier). '
        'Compared with the model: wire bytes, signed bytes, certificate '
        'name, every parsed field. Oracle: well-formed Data, name = key-name/issuer/version, Content = key, ContentType KEY, '
        'ValidityPeriod = the requested instants, key locator = the signer\'s, signature verifies under the issuing key, '
        'parse_certificate and parse_data agree. non-trivial = certificate built and verified; distinct = distinct inputs')
LEVEL_TEXT = ('Lean 4 theorems about the model of new_cert (manual outer-TLV assembly after the reserved signature space is '
              'cut): the certificate is exactly tlv DATA (Name, MetaInfo(KEY), Content=key, SignatureInfo+ValidityPeriod, '
              'tlv SIGNATURE_VALUE sig) for every signature length; its name is key-name/issuer/version; the signed bytes are '
              'Name..SignatureInfo; decoding returns the same fields; the 15-character validity encoding is injective on '
              'calendar fields. The calendar is part of the model: CPython\'s ordinal <-> (year, month, day) conversions are '
              'inverse bijections (all ordinals, all valid dates), datetime + timedelta(seconds=n) is exactly ordinal*86400+second '
              'arithmetic with OverflowError outside the years 1..9999, replace(year+20) fails exactly on 29 February into a '
              'common year or past 9999, astimezone(UTC) preserves the moment; hence derive_cert writes the texts of the UTC '
              'instants t and t+expire_sec for EVERY tzinfo of the start time (any function from wall-clock readings and fold to '
              'offsets: fixed or daylight-saving zones; the result depends on the zone only through the offset of the start reading, '
              'and the period spans exactly expire_sec of elapsed time; OverflowError iff one of the two moments leaves the years 1..9999), sign_req of now and now+10 d, self_sign of 19700101T000000 and now with year+20, '
              'and the validity period determines those instants to the second. Tied to security_v2.py by differential execution with real keys and a patched clock; the '
              'oracle verifies every certificate with the issuer\'s public key.')
LEVEL_NOTE = 'Model = code sampled; the calendar is modelled and compared with CPython datetime; cryptography is not modelled (oracle side only).'
TECHNIQUE = 'Lean 4 proof (byte-level assembly + generic codec round trip + proleptic Gregorian calendar arithmetic) + model/implementation correspondence with real keys and with CPython datetime'
DESIGN_REF = 'DESIGN.md section 7, C16'

ISSUERS = [['ec256'], ['ec256'], ['ec384'], ['ec521'], ['ec224'], ['rsa2048'], ['ed25519'], ['hmac'], ['digest', 0]]
KN_FORMS = ['list', 'list', 'str', 'wire', 'strlist', 'mixed', 'tuple', 'wire-ba', 'wire-mv']
BUF_FORMS = ['bytes', 'bytes', 'bytearray', 'mv']


def _leap(y):
    return y % 4 == 0 and (y % 100 != 0 or y % 400 == 0)


def _mdays(y, mo):
    return [31, 29 if _leap(y) else 28, 31, 30, 31, 30, 31, 31, 30, 31, 30, 31][mo - 1]


def _kind_years():
    """one year of every kind (weekday of 1 January x leap / common = 14 kinds): the ISO week-year, %U/%W week numbers
    and day-of-year arithmetic differ between kinds exactly on 29 Dec - 3 Jan"""
    kinds = {}
    for y in range(1996, 2040):
        kinds.setdefault((_dt.date(y, 1, 1).weekday(), _leap(y)), y)
    return [kinds[k] for k in sorted(kinds)]


KIND_YEARS = _kind_years()
BOUNDARY_DAYS = [(12, 29), (12, 30), (12, 31), (1, 1), (1, 2), (1, 3)]
HMS = [(0, 0, 0), (23, 59, 59), (12, 0, 0), (0, 0, 1), (23, 59, 0)]
ISSUER_TEXTS = ['ca', 'NDNCERT', 'a-b_c', 'root.1', 'a%20b', '%00%ff', 'x%2Fy', '32=issuer', '255=%01%02', 'caf%C3%A9',
                '8=x', 'v=5', '']
FAST_ISSUERS = [['ed25519'], ['hmac'], ['digest', 0], ['ec256']]


def _rand_time(rng):
    r = rng.random()
    if r < 0.25:
        y = rng.choice([1, 5, 99, 100, 999, 1000, 1900, 1999, 2000, 2024, 2038, 2100, 9998])
        mo, d = rng.choice([(1, 1), (12, 31), (2, 28), (3, 1)])
        if _leap(y) and rng.random() < 0.5:
            mo, d = 2, 29
        return [y, mo, d, rng.choice([0, 23]), rng.choice([0, 59]), rng.choice([0, 59])]
    if r < 0.40:
        # 29 Dec - 3 Jan of a year of any kind
        y = rng.choice(KIND_YEARS) + 28 * rng.choice([-1, 0, 0, 1])
        mo, d = rng.choice(BOUNDARY_DAYS)
        return [y, mo, d] + list(rng.choice(HMS))
    if r < 0.55:
        # the last days of a month
        y, mo = rng.choice([rng.randint(1, 999), rng.randint(1000, 9000), rng.randint(1000, 9000)]), rng.randint(1, 12)
        return [y, mo, _mdays(y, mo) - rng.choice([0, 0, 1])] + list(rng.choice(HMS))
    return [rng.choice([rng.randint(1, 999), rng.randint(1000, 9000), rng.randint(1000, 9000), rng.randint(1000, 9000)]),
            rng.randint(1, 12), rng.randint(1, 28), rng.randint(0, 23), rng.randint(0, 59),
            rng.randint(0, 59)]


ZONES = ['America/New_York', 'Europe/Berlin', 'Australia/Lord_Howe', 'Europe/Dublin', 'America/St_Johns', 'Pacific/Apia',
         'Asia/Kathmandu', 'Africa/Casablanca', 'Pacific/Kiritimati', 'Asia/Tehran', 'Antarctica/Troll']


def _extras(rng):
    """dimensions added by hardening (absent keys mean the old behaviour, so old replays stay valid)"""
    e = {'tz': rng.choice([None, None, 0, 0, 5, -8, 5.75, 14, -12]), 'us': rng.choice([0, 0, 1, 500000, 999999]),
         'local_off': rng.choice([-11, -5, 1, 9, 14]), 'kn_form': rng.choice(KN_FORMS)}
    r = rng.random()
    if r < 0.15:
        # the start instant expressed in a zone whose offset changes over the year (and over the centuries: local mean
        # time with seconds before the railways, the rule of the last tzdata line in the far future)
        e['zone'], e['tz'] = rng.choice(ZONES), None
    elif r < 0.22:
        # a fixed offset that is not a whole number of minutes
        e['tz_s'], e['tz'] = rng.choice([1, -1, 59, 3599, -17762, 1172, 86399, -86399, rng.randint(-86399, 86399)]), None
    elif r < 0.27:
        e['wall_zone'], e['tz'], e['fold'] = [rng.randint(-86399, 86399), rng.randint(-86399, 86399)], None, rng.choice([0, 1])
    return e


def _extras2(rng, issuer):
    """second hardening round: the signer object has issued 0..2 certificates before this one; the signer's private key
    handed over as DER or PEM, its key locator as URI text / component list / encoded Name (incl. typed and empty
    components); the issuer-id component and the public key in a bytes / bytearray / memoryview buffer"""
    e = {'prior': rng.choice([0, 0, 1, 1, 2, 3]), 'iid_form': rng.choice(BUF_FORMS), 'pub_form': rng.choice(BUF_FORMS)}
    if issuer[0].startswith(('ec', 'rsa')) and rng.random() < 0.3:
        e['key_form'] = 'pem'
    if issuer[0] in ('hmac', 'ed25519') and rng.random() < 0.3:
        e['key_form'] = rng.choice(['bytearray', 'mv'])
    if issuer[0] not in ('digest', 'synth') and rng.random() < 0.6:
        # the key locator the signer is configured with: an unrelated name here; _random_case may replace it by the key
        # name itself or by the name of the key's self-signed certificate (it knows the key name)
        e['kl'] = [c.hex() for c in PK.rand_name(rng)] + ['08034b4559', PK.rand_comp(rng).hex()]
        e['kl_kind'] = rng.choice(['other', 'other', 'key', 'selfcert', 'cert'])
        e['kl_form'] = rng.choice(['list', 'str', 'wire'])
    return e


LOCATED = [['ec256'], ['ec384'], ['ec521'], ['ec224'], ['rsa2048'], ['ed25519'], ['hmac']]      # signers with a key_locator_name
_V = lambda n: _version_comp(n).hex()      # noqa: E731


def _locator(kind, key_name, rng):
    """a key locator of that kind for a signer that signs for the key key_name"""
    if kind == 'key' and key_name:
        return list(key_name)
    if kind == 'selfcert' and key_name:
        return list(key_name) + [_gc('self'), _V(rng.choice([0, 1, 255, 256, 1700000000000]))]
    if kind == 'cert' and key_name:
        return list(key_name) + [_gc(rng.choice(['ca', 'NDNCERT', 'KEY'])), _V(rng.randint(0, 2 ** 40))]
    return [_gc(t) for t in rng.choice([['somewhere', 'else'], ['k', 'KEY', 'x'], ['a'], ['alice', 'KEY', 'k2', 'self', 'v']])]


def _fix_kl_form(case):
    return case       # every locator has a URI text: it is written by the harness (PK.uri_name, typed components as <type>=<escaped>)


def _kl_seq(case, rng):
    """the locators the signer is configured with for its earlier certificates: other kinds and other name forms than the
    one in force for the call under test, sometimes the very same one first (configured away and back again)"""
    seq = [{'kl': _locator(rng.choice(['key', 'selfcert', 'cert', 'other']), case['key_name'], rng),
            'form': rng.choice(['list', 'str', 'wire'])} for _ in range(rng.choice([1, 1, 2, 3]))]
    if rng.random() < 0.35:
        seq.insert(0, {'kl': list(case['kl']), 'form': rng.choice(['list', 'str', 'wire'])})
    return seq


def _locators(rng, tier):
    """every signer class with a key locator x self_sign / sign_req / derive_cert x the locator being the key name, the
    name of the key's self-signed certificate, of another certificate of the key, an unrelated name x handed to the
    signer as component list / URI text / encoded Name; the same signer object having issued 0..3 certificates before"""
    kn = ['0805616c696365', '08034b4559', '08026b31']
    for sg in LOCATED:
        if tier == 'quick' and sg[0] in ('rsa2048', 'ec521', 'ec224') and rng.random() < 0.5:
            continue
        for fn in ('self', 'req', 'derive'):
            for kind in ('key', 'selfcert', 'cert', 'other'):
                forms = ['list', 'str', 'wire'] if tier != 'quick' else [rng.choice(['list', 'str', 'wire'])]
                for form in forms:
                    key_name = kn if rng.random() < 0.7 else [c.hex() for c in PK.rand_name(rng)][:2] + ['08034b4559', _gc('k%d' % rng.randrange(9))]
                    c = _fix_kl_form(_base(rng, fn=fn, issuer=sg, key_name=key_name, kl=_locator(kind, key_name, rng), kl_kind=kind,
                                           kl_form=form, prior=rng.choice([0, 1, 2, 3]), start=_rand_time(rng),
                                           now=[2024, 5, 6, 7, 8, 9], kn_form=rng.choice(['list', 'str', 'wire'])))
                    yield c
                    # the same call by a signer that was configured with other locators while it issued 1..3 certificates before
                    c = dict(c, prior=rng.choice([1, 2, 3]), ts=rng.randint(0, 2 ** 48))
                    c['kl_seq'] = _kl_seq(c, rng)
                    yield c


def _gc(text):
    """a generic name component with that text, in hex"""
    return (b'\x08' + bytes([len(text)]) + text.encode()).hex()


# key names that themselves contain `KEY` components at every position, key ids that read `KEY` / `self`, names that have
# the shape of a certificate name (.../KEY/<key-id>/<issuer>/<version>) or of a key name nested in a key name: whatever
# is handed in as key_name is the key name, and the certificate is named key-name / issuer-id / version
KEYISH_NAMES = [[_gc(t) if not t.startswith('#') else t[1:] for t in n] for n in (
    ['KEY', 'alice', 'KEY', 'k1'], ['a', 'KEY', 'b', 'KEY', 'k'], ['KEY', 'KEY', 'KEY', 'k1'], ['a', 'KEY', 'x', 'y', 'KEY', 'k'],
    ['KEY', 'KEY'], ['alice', 'KEY', 'KEY'], ['alice', 'KEY', 'self'], ['KEY', 'a', 'b', 'c'], ['a', 'KEY', 'b', 'c'],
    ['a', 'b', 'KEY', 'c', 'd'], ['KEY'], ['self', 'KEY', 'NDNCERT'], ['KEY', 'KEY', 'KEY', 'KEY', 'KEY', 'KEY'],
    ['a', 'KEY', 'k', 'self', '#360101'], ['a', 'KEY', 'k', 'ca', '#36080000018bcfe56800'], ['a', 'KEY', 'k', 'KEY', 'k'],
    ['KEY', 'alice', 'KEY', 'k1', 'KEY', 'k2'], ['a', 'KEY', 'k', 'cert-request', '#360102'],
    ['a', 'key', 'b', 'KEY', 'k'], ['a', 'KEY', 'b', 'key', 'k'], ['self', 'self', 'self', 'self'])]


def _keyish(rng, tier):
    """every such key name x self_sign / sign_req / derive_cert x the forms a name can be handed over in"""
    for kn in KEYISH_NAMES:
        for fn in ('self', 'req', 'derive'):
            forms = KN_FORMS[1:] if tier != 'quick' else ['list', 'str', 'wire'] + rng.sample(KN_FORMS[4:], 1)
            for form in forms:
                yield _base(rng, fn=fn, key_name=kn, kn_form=form, issuer=rng.choice(FAST_ISSUERS),
                            issuer_id=rng.choice([['text', 'ca'], ['text', 'KEY'], ['text', 'self'], ['comp', _gc('KEY')]]),
                            start=_rand_time(rng), now=[2024, 5, 6, 7, 8, 9], prior=rng.choice([0, 1]))


def _base(rng, **kw):
    c = {'fn': 'derive', 'issuer': ['ed25519'], 'subject': 'raw', 'raw_len': 32, 'key_name': ['08034b4559', '08026b31'],
         'issuer_id': ['text', 'ca'], 'start': [2020, 6, 1, 0, 0, 0], 'expire': 3600, 'now': [2020, 6, 1, 0, 0, 0],
         'ts': rng.randint(0, 2 ** 48), 'seed': rng.getrandbits(32), 'tz': None, 'us': 0, 'local_off': 9, 'kn_form': 'list'}
    c.update(kw)
    return c


def _secs(a, b):
    return int((_dt.datetime(*b) - _dt.datetime(*a)).total_seconds())


def _sweep(rng, tier):
    """every kind of year x every day of 29 Dec - 3 Jan, as requested start AND as requested end of derive_cert, as
    `now` and as now + 10 days of sign_req, as now + 20 years of self_sign"""
    n = len(KIND_YEARS)
    for i, y in enumerate(KIND_YEARS):
        for j, (mo, d) in enumerate(BOUNDARY_DAYS):
            a = [y, mo, d] + list(rng.choice(HMS))
            mo2, d2 = BOUNDARY_DAYS[(j + 3) % 6]
            y2 = KIND_YEARS[(i + 5) % n]
            while (y2, mo2, d2) <= (y, mo, d):
                y2 += 28
            b = [y2, mo2, d2] + list(rng.choice(HMS))
            common = {'issuer': rng.choice(FAST_ISSUERS), 'tz': rng.choice([None, 0, 9, -3.5]), 'us': rng.choice([0, 999999]),
                      'prior': rng.choice([0, 1]),
                      'issuer_id': rng.choice([['text', 'ca'], ['comp', '0802' + b'ca'.hex()]]),
                      'kn_form': rng.choice(KN_FORMS[1:]), 'pub_form': rng.choice(BUF_FORMS)}
            yield _base(rng, fn='derive', start=a, expire=_secs(a, b), **common)
            if tier != 'quick' or (i + j) % 2 == 0:
                yield _base(rng, fn='req', now=a, **common)
            if tier != 'quick' or (i + j) % 2 == 1:
                back = _dt.datetime(*a) - _dt.timedelta(days=10)
                yield _base(rng, fn='req', now=_fields(back), **common)
            yield _base(rng, fn='self', now=[y - 20] + a[1:], **common)


def _measure(case):
    try:
        impl = run_impl(dict(case, raw_len=0))
        return len(impl['made'][1]) // 2 if impl['made'][0] == 'ok' else None
    except Exception:      # noqa - steering only
        return None


def _sizes(rng, tier):
    """total certificate size swept across 253 and 65536 for every kind of signer (the content is a raw key of the
    length that puts the whole certificate there; ECDSA signers then shrink across the boundary by chance)"""
    signers = [['ec256'], ['ec384'], ['ec521'], ['rsa2048'], ['ed25519'], ['hmac'], ['digest', 0],
               ['synth', 72, 70], ['synth', 72, 64], ['synth', 8, 0]]
    for rep in range(1 if tier == 'quick' else 4):
        for sg in signers:
            fn = rng.choice(['derive', 'derive', 'self', 'req'])
            kn = [c.hex() for c in PK.rand_name(rng)[:2] if len(c) < 40] + ['08034b4559', '0801' + '%02x' % rng.randrange(256)]
            proto = _base(rng, fn=fn, issuer=sg, key_name=kn, start=_rand_time(rng), now=[2024, 12, 31, 23, 59, 59],
                          issuer_id=rng.choice([['text', 'ca'], ['comp', PK.rand_comp(rng).hex()]]),
                          prior=rng.choice([0, 1]), iid_form=rng.choice(BUF_FORMS), pub_form=rng.choice(BUF_FORMS))
            l0 = _measure(proto)
            if l0 is None:
                l0 = 150
            for target, deltas in ((253, range(-5, 5)), (65536, range(-10, 3))):
                deltas = list(deltas)
                if tier == 'quick' and target == 65536:
                    deltas = rng.sample(deltas, 3)
                for dl in deltas:
                    n = target + dl - l0
                    if target == 65536:
                        n -= 2 + (4 if l0 < 253 else 2)      # Content Length 1 -> 3 bytes, outer Length 1|3 -> 5 bytes
                    if n >= 0:
                        yield dict(proto, raw_len=n, ts=rng.randint(0, 2 ** 48), seed=rng.getrandbits(32))


def _random_case(rng, tier):
    fn = rng.choice(['derive', 'derive', 'derive', 'self', 'req'])
    issuer = rng.choice(ISSUERS) if rng.random() < 0.8 else PK.rand_synth(rng)
    if tier == 'quick' and issuer[0] == 'rsa2048' and rng.random() < 0.6:
        issuer = ['ec256']
    subject = rng.choice(['ec256', 'ec384', 'ec521', 'ed25519', 'rsa2048', 'raw'])
    r = rng.random()
    if r < 0.05:
        key_name = []                                               # a key name of zero components
    elif r < 0.10:
        key_name = [c.hex() for c in PK.rand_name(rng)]             # no KEY / key-id suffix
    elif r < 0.22:
        # `KEY` / `self` components inside the identity, in front of and behind the key's own KEY component
        key_name = [c.hex() for c in PK.rand_name(rng)][:rng.randint(0, 2)] + list(rng.choice(KEYISH_NAMES))
        if rng.random() < 0.5:
            key_name += [_gc('KEY'), rng.choice([PK.rand_comp(rng).hex(), _gc('KEY'), _gc('self')])]
    else:
        key_name = [c.hex() for c in PK.rand_name(rng)] + ['08034b4559', PK.rand_comp(rng).hex()]
    start = _rand_time(rng)
    expire = rng.choice([0, 1, 59, 86400, 86400 * 365, 10 ** 9, rng.randint(1, 10 ** 7)])
    if rng.random() < 0.3:
        # an end instant on one of the special days
        end = _rand_time(rng)
        while end[0] < start[0] + 1:
            end[0] += 28
        if end[1:3] == [2, 29] and not _leap(end[0]):
            end[2] = 28
        if end[0] <= 9999:
            expire = _secs(start, end)
    case = {'fn': fn, 'issuer': issuer, 'subject': subject, 'raw_len': rng.choice([0, 1, 91, 252, 253, 300]),
            'key_name': key_name, 'issuer_id': rng.choice([['text', rng.choice(ISSUER_TEXTS)],
                                                           ['comp', PK.rand_comp(rng).hex()]]),
            'start': start, 'expire': expire,
            'now': _rand_time(rng), 'ts': rng.choice([0, 255, 256, 65535, 65536, 2 ** 32 - 1, 2 ** 32,
                                                      rng.randint(0, 2 ** 48), rng.randint(0, 2 ** 48)]),
            'seed': rng.getrandbits(32)}
    case.update(_extras(rng))
    case.update(_extras2(rng, issuer))
    if case.get('kl_kind') in ('key', 'selfcert', 'cert'):
        case['kl'] = _locator(case['kl_kind'], key_name, rng)
    if case.get('kl') is not None:
        _fix_kl_form(case)
        if case.get('prior') and rng.random() < 0.6:
            case['kl_seq'] = _kl_seq(case, rng)
    if start[0] < 2 and (case.get('tz') or case.get('tz_s') or case.get('zone')):
        start[0] = 2          # 0001-01-01 expressed in a zone behind UTC is not a datetime the harness could hand over
    if case['kn_form'] in ('str', 'strlist', 'mixed') and any(c[:2] in ('32', '34', '36', '38', '3a') for c in key_name):
        # naming-convention components with a value that is not a number have no URI text (Name.to_str/from_str is
        # another property's business): hand those over as an encoded Name instead
        case['kn_form'] = 'wire'
    if tier != 'nested' and rng.random() < 0.05:
        # the signer issues other certificates / builds other packets while it works on this one
        case['reenter'] = _rand_reenter(rng, tier, case)
    return case


MAXORD = 3652059
CYCLES = [365, 366, 1461, 36524, 36525, 146097]


def _cal_ordinal(rng):
    r = rng.random()
    if r < 0.15:
        return rng.choice([1, 2, 3, 59, 60, 61, 365, 366, 367, 730, 731, 1095, 1096, 1460, 1461, 1462, MAXORD - 366,
                           MAXORD - 365, MAXORD - 1, MAXORD, 364877, 364878, 364879, 719162, 719163])
    if r < 0.45:
        # around a multiple of one of the cycle lengths (also nested: 400-year block + 100-year block + ...)
        n = rng.randint(0, 24) * 146097 + rng.choice([0, 0, 1, 2, 3, 4]) * 36524 + rng.choice([0, 0, 1, 24, 25]) * 1461 \
            + rng.choice([0, 0, 1, 2, 3, 4]) * 365 + rng.randint(-2, 3)
        return min(max(n, 1), MAXORD)
    if r < 0.65:
        # first / last days of a year, of February, of a month
        y = rng.choice([rng.randint(1, 9999), rng.choice([1, 4, 100, 400, 1000, 1900, 2000, 2100, 2400, 9996, 9999])])
        mo, d = rng.choice([(1, 1), (1, 2), (12, 31), (12, 30), (2, 28), (3, 1), (2, _mdays(y, 2)),
                            (rng.randint(1, 12), 1)])
        return _dt.date(y, mo, d).toordinal()
    return rng.randint(1, MAXORD)


def _cal_inst(rng):
    o = _cal_ordinal(rng)
    sec = rng.choice([0, 0, 1, 59, 60, 3599, 3600, 43200, 86399, 86399, 86340, rng.randrange(86400), rng.randrange(86400)])
    us = rng.choice([0, 0, 1, 999999, rng.randrange(1000000)])
    if rng.random() < 0.5:
        return ['o', o, sec, us]
    d = _dt.date.fromordinal(o)
    return ['f', d.year, d.month, d.day, sec // 3600, sec % 3600 // 60, sec % 60, us]


def _cal_abs(inst):
    if inst[0] == 'o':
        return inst[1] * 86400 + inst[2]
    return _dt.date(*inst[1:4]).toordinal() * 86400 + inst[4] * 3600 + inst[5] * 60 + inst[6]


def _cal_case(rng):
    r = rng.random()
    if r < 0.15:
        if rng.random() < 0.7:
            d = _dt.date.fromordinal(_cal_ordinal(rng))
            ymd = [d.year, d.month, d.day]
            if rng.random() < 0.3:
                ymd[2] = _mdays(ymd[0], ymd[1]) + rng.choice([0, 1])         # the last day of the month, and one past it
        else:
            ymd = [rng.choice([0, 1, 1900, 2000, 2023, 2024, 2100, 9999, 10000, rng.randint(1, 9999)]),
                   rng.choice([0, 1, 2, 2, 12, 13, rng.randint(1, 12)]), rng.choice([0, 1, 28, 29, 30, 31, 32])]
        return {'fn': 'cal', 'op': 'ymd2ord', 'ymd': ymd}
    if r < 0.30:
        n = _cal_ordinal(rng) if rng.random() < 0.9 else rng.choice([0, MAXORD + 1, MAXORD + 366, 4000000, 2 ** 31 - 1])
        return {'fn': 'cal', 'op': 'ord2ymd', 'n': n}
    inst = _cal_inst(rng)
    if r < 0.65:
        a = _cal_abs(inst)
        k = rng.random()
        if k < 0.2:
            n = rng.choice([0, 1, -1, 59, 60, 86399, 86400, 86401, -86399, -86400, -86401, 864000, 10 ** 9, -10 ** 9])
        elif k < 0.35:
            n = 86400 * rng.randint(-800000, 800000) + rng.choice([-1, 0, 0, 1])
        elif k < 0.5:
            # land on / next to the first and the last representable second
            n = rng.choice([86400 - a, (MAXORD + 1) * 86400 - 1 - a]) + rng.choice([-86400, -2, -1, 0, 0, 1, 2, 86400])
        elif k < 0.6:
            n = rng.choice([1, -1]) * rng.choice([10 ** 12, 10 ** 15, 86400 * 999999999, 86400 * 999999999 + 86399,
                                                  86400 * 10 ** 9, 86400 * 999999999 - 1])
        elif k < 0.7:
            # to the same second of another special day
            n = (_cal_ordinal(rng) - a // 86400) * 86400 + rng.choice([0, 0, -(a % 86400), 86399 - a % 86400])
        else:
            n = rng.randint(-10 ** rng.randint(1, 11), 10 ** rng.randint(1, 11))
        return {'fn': 'cal', 'op': 'add', 'inst': inst, 'n': n}
    if r < 0.80:
        off = rng.choice([0, 1, -1, 60, -60, 3600, -3600, 19800, 20700, -12600, 50400, -43200, 86399, -86399, -17762, 1172,
                          60 * rng.randint(-1439, 1439), rng.randint(-86399, 86399)])
        if rng.random() < 0.2:
            inst = rng.choice([['o', 1, rng.choice([0, 3600, 86399]), 0], ['o', MAXORD, rng.choice([0, 82800, 86399]), 5]])
        return {'fn': 'cal', 'op': 'utc', 'inst': inst, 'off_s': off}
    if r < 0.92:
        k = rng.choice([20, 20, 20, 0, 1, 4, 100, 400, rng.randint(0, 9999)])
        if rng.random() < 0.4:
            y = rng.choice([1880, 1980, 2080, 2000, 2024, 2380, 9976, 9979, 9980, 4 * rng.randint(1, 2499)])
            inst = ['f', y, 2, 29 if _leap(y) else 28, 0, 0, 0, 0] if rng.random() < 0.7 else ['f', y, 12, 31, 23, 59, 59, 1]
        return {'fn': 'cal', 'op': 'addyears', 'inst': inst, 'k': k}
    return {'fn': 'cal', 'op': 'fmt', 'inst': inst}


def _calendar_edges(rng):
    """the edges of the calendar arithmetic: 29 February + 20 years (into a leap and into a common year), the last
    years, sums that land on / pass 9999-12-31T23:59:59 in the wall-clock zone or only in UTC, negative durations"""
    fast = lambda: rng.choice(FAST_ISSUERS)      # noqa: E731
    for y in (1880, 1980, 2024, 2080, 2380):
        yield _base(rng, fn='self', now=[y, 2, 29] + list(rng.choice(HMS)), issuer=fast(), us=rng.choice([0, 999999]))
    for y in (9978, 9979, 9980, 9999):
        yield _base(rng, fn='self', now=[y] + list(rng.choice([[12, 31, 23, 59, 59], [1, 1, 0, 0, 0]])), issuer=fast())
    for now in ([9999, 12, 21, 23, 59, 59], [9999, 12, 22, 0, 0, 0], [9999, 12, 31, 23, 59, 59], [9989, 12, 22, 0, 0, 0]):
        yield _base(rng, fn='req', now=now, issuer=fast(), us=rng.choice([0, 999999]))
    for start, tz, expire in (([9999, 12, 31, 23, 59, 59], None, 0), ([9999, 12, 31, 23, 59, 59], None, 1),
                              ([9999, 12, 31, 23, 59, 59], 0, 1), ([9999, 12, 31, 9, 0, 0], 14, 3599),
                              ([9999, 12, 31, 9, 0, 0], 14, 3600), ([9999, 12, 31, 20, 0, 0], -12, 14399),
                              ([9999, 12, 31, 20, 0, 0], -12, 14400), ([9999, 12, 31, 20, 0, 0], -3.5, 18000),
                              ([2024, 3, 1, 0, 0, 0], None, -1), ([2024, 3, 1, 0, 0, 0], 5.75, -86401),
                              ([2100, 3, 1, 0, 0, 0], -8, -1), ([2001, 1, 1, 0, 0, 0], None, -366 * 86400),
                              ([1000, 1, 1, 0, 0, 0], 5, 0), ([1000, 1, 1, 0, 0, 0], -9, 10 ** 9),
                              ([2024, 1, 1, 0, 0, 0], None, 10 ** 12), ([2024, 1, 1, 0, 0, 0], 9, 251698233599 - 9 * 3600),
                              ([2024, 1, 1, 0, 0, 0], None, 251698233599), ([2024, 1, 1, 0, 0, 0], None, 251698233600)):
        yield _base(rng, fn='derive', start=start, tz=tz, expire=expire, issuer=fast(), us=rng.choice([0, 1, 999999]))


_TRANS = {}


def _transitions(zone, y0, y1):
    """the UTC instants (to the second) in the years y0..y1-1 at which the zone's offset changes, found by asking the
    zone day by day and bisecting"""
    key = (zone, y0, y1)
    if key not in _TRANS:
        from zoneinfo import ZoneInfo
        z, utc = ZoneInfo(zone), _dt.timezone.utc
        off = lambda t: t.astimezone(z).utcoffset()      # noqa: E731
        t, end, out = _dt.datetime(y0, 1, 1, tzinfo=utc), _dt.datetime(y1, 1, 1, tzinfo=utc), []
        while t < end:
            n = t + _dt.timedelta(days=1)
            if off(n) != off(t):
                lo, hi = t, n
                while hi - lo > _dt.timedelta(seconds=1):
                    mid = lo + _dt.timedelta(seconds=int((hi - lo).total_seconds()) // 2)
                    lo, hi = (mid, hi) if off(mid) == off(lo) else (lo, mid)
                out.append(_fields(hi))
            t = n
        _TRANS[key] = out
    return _TRANS[key]


DST_SPANS = [('America/New_York', 2024, 2025), ('Europe/Berlin', 2025, 2026), ('Australia/Lord_Howe', 2024, 2025),
             ('Europe/Dublin', 2024, 2025), ('America/St_Johns', 2024, 2025), ('Pacific/Apia', 2011, 2012),
             ('Asia/Kathmandu', 1985, 1987), ('America/New_York', 1883, 1884), ('Europe/Berlin', 8999, 9000),
             ('Africa/Casablanca', 2024, 2025)]


def _dst_cases(rng, tier):
    """start instants (UTC) shortly before and shortly after every change of offset of the zone the start_time is
    expressed in (after a backward change that is the repeated hour: fold = 1), durations that reach across the change
    forwards and backwards, stay on one side of it, or span several changes"""
    spans = DST_SPANS if tier != 'quick' else DST_SPANS[:3] + rng.sample(DST_SPANS[3:], 3)
    for zone, y0, y1 in spans:
        for ch in _transitions(zone, y0, y1):
            combos = [(3600, 7200), (86400 - 1, 86400), (19 * 3600, 86400), (1, 1), (10 * 86400, 30 * 86400), (60, 59),
                      (-1800, 3600), (-1800, -3600), (-1, -1), (0, 0), (-600, 200 * 86400), (-3 * 86400, -4 * 86400),
                      (1, 0), (-7200, -7199)]
            for before, expire in (combos if tier != 'quick' else combos[:6] + rng.sample(combos[6:], 4)):
                start = _fields(_dt.datetime(*ch) - _dt.timedelta(seconds=before))
                yield _base(rng, fn='derive', start=start, expire=expire, zone=zone, tz=None, issuer=rng.choice(FAST_ISSUERS),
                            us=rng.choice([0, 0, 999999]))
    # fixed offsets with seconds, and a hand-written tzinfo whose offset depends on the day and on fold
    for tz_s, start, expire in ((-17762, [1883, 11, 18, 17, 0, 0], 86400), (1172, [1937, 6, 30, 23, 40, 28], 1),
                                (86399, [2024, 2, 29, 0, 0, 0], 1), (-86399, [2024, 12, 31, 23, 59, 59], 2),
                                (59, [9999, 12, 31, 23, 59, 0], 59), (1, [1000, 1, 1, 0, 0, 0], 0)):
        yield _base(rng, fn='derive', start=start, expire=expire, tz_s=tz_s, tz=None, issuer=rng.choice(FAST_ISSUERS))
    for offs, fold, start, expire in (([3600, -7200], 0, [2024, 3, 1, 12, 0, 0], 86400), ([3600, -7200], 1, [2024, 3, 1, 12, 0, 0], 86400),
                                      ([-86399, 86399], 0, [2024, 12, 31, 23, 59, 59], 1), ([-86399, 86399], 1, [2025, 1, 1, 0, 0, 0], -1),
                                      ([45296, 45296], 0, [2000, 2, 29, 0, 0, 0], 366 * 86400), ([0, 1], 1, [2024, 6, 1, 0, 0, 0], 7),
                                      ([50400, 0], 0, [9999, 12, 31, 23, 0, 0], 3600), ([50400, 0], 1, [9999, 12, 31, 23, 0, 0], 3600),
                                      ([0, 43200], 0, [1, 1, 1, 0, 0, 0], 5), ([0, -3600], 1, [1000, 1, 1, 0, 0, 0], 5)):
        yield _base(rng, fn='derive', start=start, expire=expire, wall_zone=offs, fold=fold, tz=None, issuer=rng.choice(FAST_ISSUERS))


def _low_years(rng, tier):
    """validity periods in the first millennium, starting / ending on and next to 0001-01-01 and crossing 999 -> 1000:
    the year is written with four digits"""
    fast = lambda: rng.choice(FAST_ISSUERS)      # noqa: E731
    for start, tz, expire in (([5, 1, 2, 3, 4, 5], None, 1), ([1, 1, 1, 0, 0, 0], None, 0), ([1, 1, 1, 0, 0, 0], 0, 86399),
                              ([1, 1, 1, 0, 0, 1], None, -1), ([1, 1, 1, 0, 0, 0], None, -1), ([1, 1, 2, 0, 0, 0], 5, 10 ** 9),
                              ([999, 12, 31, 23, 0, 0], None, 7200), ([999, 12, 31, 23, 59, 59], 0, 1), ([999, 12, 31, 23, 59, 59], -8, 0),
                              ([1000, 1, 1, 0, 0, 0], 5.75, -1), ([1000, 1, 1, 0, 0, 0], None, -31536000), ([9, 12, 31, 23, 59, 59], 9, 1),
                              ([99, 12, 31, 23, 59, 59], None, 1), ([100, 2, 28, 12, 0, 0], -3.5, 86400), ([400, 2, 29, 0, 0, 0], 14, 86400),
                              ([10, 10, 10, 10, 10, 10], None, 31208630400), ([500, 6, 1, 0, 0, 0], None, 299_000_000_000)):
        yield _base(rng, fn='derive', start=start, tz=tz, expire=expire, issuer=fast(), us=rng.choice([0, 999999]))
    for zone, start, expire in (('America/New_York', [999, 12, 31, 23, 30, 0], 3600), ('Asia/Kathmandu', [2, 1, 1, 0, 0, 0], 59),
                                ('Europe/Berlin', [1000, 1, 1, 0, 0, 0], -1), ('Pacific/Kiritimati', [77, 7, 7, 7, 7, 7], 10 ** 7)):
        yield _base(rng, fn='derive', start=start, zone=zone, tz=None, expire=expire, issuer=fast())
    for now in ([979, 12, 31, 23, 59, 59], [980, 1, 1, 0, 0, 0], [980, 2, 29, 0, 0, 0], [1, 1, 1, 0, 0, 0], [80, 2, 29, 12, 0, 0],
                [84, 2, 29, 12, 0, 0], [999, 12, 31, 23, 59, 59]):
        yield _base(rng, fn='self', now=now, issuer=fast(), us=rng.choice([0, 999999]))
    for now in ([999, 12, 21, 23, 59, 59], [999, 12, 22, 0, 0, 0], [999, 12, 31, 23, 59, 59], [1, 1, 1, 0, 0, 0], [9, 12, 25, 6, 0, 0]):
        yield _base(rng, fn='req', now=now, issuer=fast(), us=rng.choice([0, 1]))


NESTED_ISSUERS = [['ec256'], ['ec256'], ['ec384'], ['ec521'], ['ec224'], ['ed25519'], ['hmac'], ['digest', 0], ['synth', 72, 64],
                  ['synth', 40, 0], ['synth', 200, 199]]


NESTED_ISSUERS_QUICK = [['ec256'], ['ec224'], ['ed25519'], ['hmac'], ['digest', 0], ['synth', 72, 64], ['synth', 40, 0], ['synth', 200, 199],
                        ['synth', 72, 71], ['synth', 104, 101]]


def _nested_cert_case(rng, tier, outer=None):
    """a certificate issued from inside the signer of another one: any case of the random stream (with another issuing
    signer, of another signature length), or - `outer` given - one issued by the very same signer object"""
    c = _random_case(rng, 'nested')
    c.pop('kl_seq', None)
    c['prior'] = 0
    if outer is not None:
        c['issuer'] = outer['issuer']
        for k in ('key_form', 'kl', 'kl_form', 'kl_kind'):
            c.pop(k, None)
            if k in outer:
                c[k] = outer[k]
    elif c['issuer'][0] == 'rsa2048' or rng.random() < 0.5 or (tier == 'quick' and c['issuer'][0] in ('ec384', 'ec521')):
        c['issuer'] = rng.choice(NESTED_ISSUERS if tier != 'quick' else NESTED_ISSUERS_QUICK)
        c.pop('key_form', None)
        if c['issuer'][0] in ('digest', 'synth'):
            for k in ('kl', 'kl_form', 'kl_kind'):
                c.pop(k, None)
    if c['raw_len'] > 300:
        c['raw_len'] = 91
    return c


def _rand_reenter(rng, tier, outer, ats=None, kinds=None):
    """1..2 things the signer of the certificate case `outer` does with the library while it works"""
    specs = []
    for _ in range(rng.choice([1, 1, 1, 2])):
        at = rng.choice(ats or PK.REENTER_AT + ['value-before', 'value-after'])
        kind = rng.choice(kinds or ['cert', 'cert', 'same', 'pkt', 'pkt'])
        if kind == 'cert':
            specs.append({'at': at, 'c16': _nested_cert_case(rng, tier)})
        elif kind == 'same':
            specs.append({'at': at, 'c16': _nested_cert_case(rng, tier, outer), 'same': True})
        else:
            specs.append({'at': at, 'case': PK.nested_packet_case(rng, tier)})
    return specs


REENTRANT_OUTER = [['ec256'], ['ec384'], ['ec521'], ['ec224'], ['ed25519'], ['hmac'], ['synth', 72, 70], ['synth', 72, 72], ['rsa2048']]


def _reentrant(rng, tier):
    """re-entrancy: every point of the signer's work x issuing signers of every signature length (shrinking and not) x
    what is built from inside (a certificate by another signer, a certificate by the same signer object, a Data / an
    Interest packet) x self_sign / sign_req / derive_cert"""
    outers = REENTRANT_OUTER
    if tier == 'quick':
        # (signing and verifying with the real keys is what a case costs: two packets per case here)
        outers = [['ec256'], rng.choice([['ec384'], ['ec521'], ['ec224']]),
                  rng.choice([['ed25519'], ['hmac'], ['synth', 72, 70], ['synth', 72, 72]])]
    for sg in outers:
        for at in PK.REENTER_AT:
            for kind in ('cert', 'same', 'pkt'):
                for rep in range(1 if tier == 'quick' else 3):
                    kn = [c.hex() for c in PK.rand_name(rng)[:2] if len(c) < 40] + ['08034b4559', PK.rand_comp(rng).hex()]
                    c = _base(rng, fn=rng.choice(['derive', 'derive', 'self', 'req']), issuer=sg, key_name=kn, start=_rand_time(rng),
                              now=[2024, 5, 6, 7, 8, 9], subject=rng.choice(['ec256', 'ed25519', 'raw', 'raw']),
                              raw_len=rng.choice([0, 32, 91, 160, 294]), expire=rng.choice([0, 1, 3600, 86400 * 365]),
                              prior=rng.choice([0, 0, 1] if tier != 'quick' else [0, 0, 0, 0, 1]))
                    if c['start'][0] > 9000:
                        c['start'][0] -= 1000
                    c['reenter'] = _rand_reenter(rng, tier, c, ats=[at], kinds=[kind])[:1]
                    if rng.random() < 0.3:
                        c['reenter'] += _rand_reenter(rng, tier, c)[:1]
                    yield c


def cases(rng, tier):
    yield from _reentrant(rng, tier)
    yield from _dst_cases(rng, tier)
    yield from _keyish(rng, tier)
    yield from _locators(rng, tier)
    yield from _low_years(rng, tier)
    yield from _calendar_edges(rng)
    yield from _sweep(rng, tier)
    yield from _sizes(rng, tier)
    n = 150 if tier == 'quick' else 4000
    for _ in range(n):
        yield _random_case(rng, tier)
    for _ in range(10000 if tier == 'quick' else 200000):
        yield _cal_case(rng)
    # date.fromordinal of EVERY ordinal 1.._MAXORDINAL in the thorough tier (blocks of 40000 days), 6 blocks in the quick one
    blocks = [(lo, min(40000, MAXORD + 1 - lo)) for lo in range(1, MAXORD + 1, 40000)]
    for lo, count in (blocks if tier != 'quick' else rng.sample(blocks, 6)):
        yield {'fn': 'cal', 'op': 'range', 'lo': lo, 'count': count}


def shrink(case):
    if case['fn'] == 'cal':
        return
    if len(case['key_name']) > 2:
        yield dict(case, key_name=case['key_name'][1:])
    if case['expire'] > 1:
        yield dict(case, expire=case['expire'] // 2)
    if case.get('prior', 0) > 1:
        yield dict(case, prior=case['prior'] - 1)
    if case.get('reenter'):
        yield {a: b for a, b in case.items() if a != 'reenter'}
        if len(case['reenter']) > 1:
            for i in range(len(case['reenter'])):
                yield dict(case, reenter=case['reenter'][:i] + case['reenter'][i + 1:])
        if case.get('prior'):
            yield dict(case, prior=0)
        for i, sp in enumerate(case['reenter']):
            if 'c16' in sp:
                for c2 in shrink(sp['c16']):
                    yield dict(case, reenter=case['reenter'][:i] + [dict(sp, c16=c2)] + case['reenter'][i + 1:])


def _pub_key(case):
    if case['subject'] == 'raw':
        import random
        r = random.Random(case['seed'])
        return bytes(r.getrandbits(8) for _ in range(case['raw_len']))
    pub = PK.keys()[case['subject']][1]
    try:
        return pub.export_key(format='DER')
    except TypeError:
        return pub.export_key('DER')


def _fmt(t):
    return '%04d%02d%02dT%02d%02d%02d' % tuple(t)


def _fields(dt):
    return [dt.year, dt.month, dt.day, dt.hour, dt.minute, dt.second]


_ALIASES = {'seg': 50, 'off': 52, 'v': 54, 't': 56, 'seq': 58}


def _nat_min(n):
    """NonNegativeInteger: 1, 2, 4 or 8 bytes, the shortest that fits"""
    for w in (1, 2, 4, 8):
        if n < 1 << (8 * w):
            return n.to_bytes(w, 'big')
    raise ValueError(n)


def _uri_comp(text):
    """the name component an NDN-URI component text denotes (written from the URI scheme, not with the library):
    optional `<type>=` (a number, or a naming-convention alias with a decimal value), percent-escapes decoded"""
    typ, val = 8, text
    if '=' in text:
        head, val = text.split('=', 1)
        if head in _ALIASES:
            return T.tl(_ALIASES[head]) + T.tl(len(_nat_min(int(val)))) + _nat_min(int(val))
        typ = int(head)
    out, i = bytearray(), 0
    while i < len(val):
        if val[i] == '%':
            out.append(int(val[i + 1:i + 3], 16))
            i += 3
        else:
            out.append(ord(val[i]))
            i += 1
    return T.tl(typ) + T.tl(len(out)) + bytes(out)


def _version_comp(ts):
    """version component of the naming conventions: type 54, NonNegativeInteger"""
    v = _nat_min(ts)
    return T.tl(54) + T.tl(len(v)) + v


def _inst(dt):
    """how an instant enters the model: (date.toordinal(), second of the day, microsecond) of the wall-clock reading"""
    return [dt.toordinal(), dt.hour * 3600 + dt.minute * 60 + dt.second, dt.microsecond]


class _WallZone(_dt.tzinfo):
    """a hand-written tzinfo: the offset it reports depends on the wall-clock reading (parity of the day) and on fold"""

    def __init__(self, offs):
        self.offs = offs

    def utcoffset(self, dt):
        return _dt.timedelta(seconds=self.offs[(dt.toordinal() + dt.fold) % 2])

    def dst(self, dt):
        return None

    def tzname(self, dt):
        return 'wall'


def _start_dt(case):
    """the start_time handed to derive_cert.  case['start'] is the requested instant in UTC; 'tz': None = naive,
    0 = aware UTC, other = the same instant expressed in a zone that many hours from UTC; 'tz_s': the same for a fixed
    offset in seconds; 'zone': the same instant expressed in that zoneinfo zone.  With 'wall_zone' (two offsets)
    case['start'] is the WALL-CLOCK reading of a hand-written tzinfo that reports offs[(ordinal + fold) % 2]."""
    if case.get('wall_zone'):
        return _dt.datetime(*case['start'], case.get('us', 0), tzinfo=_WallZone(case['wall_zone']), fold=case.get('fold', 0))
    if case.get('zone'):
        from zoneinfo import ZoneInfo
        return _dt.datetime(*case['start'], case.get('us', 0), tzinfo=_dt.timezone.utc).astimezone(ZoneInfo(case['zone']))
    if case.get('tz_s'):
        utc = _dt.datetime(*case['start'], case.get('us', 0), tzinfo=_dt.timezone.utc)
        return utc.astimezone(_dt.timezone(_dt.timedelta(seconds=case['tz_s'])))
    start = _dt.datetime(*case['start'], case.get('us', 0), tzinfo=None if case.get('tz') is None else _dt.timezone.utc)
    if case.get('tz'):
        start = start.astimezone(_dt.timezone(_dt.timedelta(hours=case['tz'])))
    return start


def _off_s(td):
    """a UTC offset in whole seconds"""
    return td.days * 86400 + td.seconds


def _issue(case):
    """the time inputs of the call in the model's terms (no calendar fields: the model computes them)"""
    if case['fn'] == 'derive':
        # the tzinfo enters the model as the offset it reports for the start reading (with its fold) and the offset it
        # reports for the wall-clock reading start + expire_sec (what a sum on the wall clock would be converted with)
        start = _start_dt(case)
        if start.tzinfo is None:
            off, off2 = 'n', 0
        else:
            off = off2 = _off_s(start.utcoffset())
            try:
                off2 = _off_s((start + _dt.timedelta(seconds=case['expire'])).utcoffset())
            except OverflowError:
                pass
        return 'derive:%d,%d,%d,%d,%s,%d,%d' % (*_inst(start), start.fold, off, off2, case['expire'])
    now = _dt.datetime(*case['now'], case.get('us', 0))
    return '%s:%d,%d,%d' % (case['fn'], *_inst(now))


def _cal_dt(inst):
    if inst[0] == 'o':
        o, sec, us = inst[1:]
        return _dt.datetime.combine(_dt.date.fromordinal(o), _dt.time(sec // 3600, sec % 3600 // 60, sec % 60, us))
    return _dt.datetime(*inst[1:])


def _cal_show(dt):
    return 'ok %d,%d,%d;%d,%d,%d,%d,%d,%d' % (*_inst(dt), *_fields(dt))


def _run_cal(case):
    """the same question put to CPython's datetime"""
    op = case['op']
    try:
        if op == 'ymd2ord':
            return 'ok %d' % _dt.date(*case['ymd']).toordinal()
        if op == 'ord2ymd':
            d = _dt.date.fromordinal(case['n'])
            return 'ok %d,%d,%d' % (d.year, d.month, d.day)
        if op == 'range':
            runs = []
            for n in range(case['lo'], case['lo'] + case['count']):
                d = _dt.date.fromordinal(n)
                if runs and runs[-1][:2] == [d.year, d.month] and d.day == runs[-1][2] + runs[-1][3]:
                    runs[-1][3] += 1
                else:
                    runs.append([d.year, d.month, d.day, 1])
            return 'ok ' + ';'.join('%d,%d,%d,%d' % tuple(r) for r in runs)
        t = _cal_dt(case['inst'])
        if op == 'add':
            return _cal_show(t + _dt.timedelta(seconds=case['n']))
        if op == 'utc':
            aware = t.replace(tzinfo=_dt.timezone(_dt.timedelta(seconds=_cal_off_s(case))))
            return _cal_show(aware.astimezone(_dt.timezone.utc).replace(tzinfo=None))
        if op == 'addyears':
            return _cal_show(t.replace(year=t.year + case['k']))
        if op == 'fmt':
            # the 15-octet YYYYMMDDThhmmss (strftime('%Y') alone does not pad years below 1000)
            return 'ok ' + ('%04d' % t.year + t.strftime('%m%dT%H%M%S')).encode().hex()
        raise KeyError(op)
    except (ValueError, OverflowError) as e:
        return 'err ' + type(e).__name__


def _cal_off_s(case):
    """the offset of a `cal utc` case in seconds (replays written before the model took seconds carry minutes in 'off')"""
    return case['off_s'] if 'off_s' in case else case['off'] * 60


def _cal_line(case):
    op = case['op']
    if op == 'ymd2ord':
        return 'C16 cal ymd2ord %d,%d,%d' % tuple(case['ymd'])
    if op == 'ord2ymd':
        return 'C16 cal ord2ymd %d' % case['n']
    if op == 'range':
        return 'C16 cal range %d %d' % (case['lo'], case['count'])
    inst = case['inst'][0] + ':' + ','.join(str(x) for x in case['inst'][1:])
    if op == 'fmt':
        return 'C16 cal fmt ' + inst
    return 'C16 cal %s %s %d' % (op, inst, _cal_off_s(case) if op == 'utc' else case[{'add': 'n', 'addyears': 'k'}[op]])


def _buf(b, form):
    """the same bytes as the caller may hold them: bytes, a bytearray, a memoryview into a larger writable buffer"""
    if form == 'bytearray':
        return bytearray(b)
    if form == 'mv':
        return memoryview(bytearray(b'\x00\x00' + b + b'\x00'))[2:2 + len(b)]
    return b


def _requested(case):
    """the requested instants (UTC calendar fields), worked out apart from the call; (None, None) when not representable"""
    us = case.get('us', 0)
    try:
        now = _dt.datetime(*case['now'], us, tzinfo=_dt.timezone.utc)
        if case['fn'] == 'self':
            return [1970, 1, 1, 0, 0, 0], _fields(now.replace(year=now.year + 20))
        if case['fn'] == 'req':
            return _fields(now), _fields(now + _dt.timedelta(days=10))
        t0 = _dt.datetime(*case['start'], us)
        if case.get('wall_zone'):
            # the start is a wall-clock reading: the instant it designates is that reading minus the offset of the zone
            t0 -= _dt.timedelta(seconds=case['wall_zone'][(t0.toordinal() + case.get('fold', 0)) % 2])
        return _fields(t0), _fields(t0 + _dt.timedelta(seconds=case['expire']))
    except (ValueError, OverflowError):
        return None, None


def _recording(inner, reentry=None):
    """the signer the library is handed: the real signer object itself (its class, its attributes - whatever the library may
    look at, copy or change is there) with the three signer methods wrapped so that what it was asked and what it produced
    is on record.  The record is shared by shallow copies of the object.
    With `reentry` (PK.Reentry) the signer issues other certificates / builds other packets with the library while it works
    (after it wrote its SignatureInfo, in the length pass, before / after it computed the signature); the record is always
    that of the call in progress (a nested call with this very object has its own while it lasts)."""
    import copy
    cls = type(inner)

    class Rec(cls):
        def _fire(self, at):
            if self._reentry is None:
                return
            saved = dict(self._log)
            try:
                self._reentry.fire(at, self)
            finally:
                self._log.clear()
                self._log.update(saved)

        def write_signature_info(self, si):
            cls.write_signature_info(self, si)
            self._log['si'] = si
            self._fire('info')

        def get_signature_value_size(self):
            self._log['reserved'] = cls.get_signature_value_size(self)
            self._fire('size')
            return self._log['reserved']

        def write_signature_value(self, wire, contents):
            self._log['covered'] = [bytes(c) for c in contents]
            self._fire('value-before')
            n = cls.write_signature_value(self, wire, contents)
            self._log['sig'] = bytes(wire[:n])
            self._fire('value-after')
            return n
    Rec.__name__, Rec.__qualname__ = cls.__name__, cls.__qualname__
    obj = copy.copy(inner)
    obj.__class__ = Rec
    obj._log = {}
    obj._reentry = reentry
    return obj


def _nested_do(spec, signer):
    """what the signer of a certificate does from inside: {'c16': a certificate case of this plugin[, 'same': issued with
    the very signer object that is at work]} -> that case's whole observation (judged by the oracle like any other
    certificate); {'case': a packet case of PK.make_packet} -> whether it was built (Data / Interest packets are another
    property's business)"""
    if 'c16' in spec:
        return {'at': spec['at'], 'impl': run_impl(spec['c16'], signer if spec.get('same') else None)}
    return {'at': spec['at'], 'pkt': PK.make_packet(spec['case'])['made'][0]}


_DEFAULT_KL = {'hmac': ['k', 'hmac'], 'rsa2048': ['k', 'rsa'], 'ed25519': ['k', 'ed']}


def _configured_kl(case):
    """the key locator the issuing signer is configured with (hex components), None for signers that have none"""
    k = case['issuer'][0]
    if k in ('digest', 'synth', 'custom', 'null', 'none'):
        return None
    if case.get('kl') is not None:
        return list(case['kl'])
    return [_gc(t) for t in _DEFAULT_KL.get(k, ['k', k])]


def _wire_path(fs, vals, path):
    """the value of the element reached by following the TLV types in `path` through nested models, as the harness's own
    decoder read it; None when absent"""
    for f, v in zip(fs, vals):
        if S._typ(f) == path[0] and v is not None:
            if len(path) == 1:
                return v
            return _wire_path(f[3], v[1], path[1:]) if f[0] == 'M' else None
    return None


def run_impl(case, signer=None):
    """`signer`: the (recording) signer object to issue with, for a certificate issued from inside that very signer"""
    if case['fn'] == 'cal':
        return {'made': ['cal'], 'cal': _run_cal(case)}
    from ndn.app_support import security_v2 as sv
    from ndn import encoding as enc
    out = {}
    def in_form(comps, form):
        comps = [bytes.fromhex(c) for c in comps]
        return PK.uri_name(comps) if form == 'str' else bytes(enc.Name.to_bytes(comps)) if form == 'wire' else comps
    kl = None
    if case.get('kl') is not None:
        kl = in_form(case['kl'], case.get('kl_form'))
    import copy
    kl_before = copy.deepcopy(kl)
    # the locators the signer is configured with while it issues its earlier certificates ('kl_seq': the application
    # RECONFIGURES the signer object between calls - key_locator_name is a plain attribute -, e.g. from the key name to the
    # name of the certificate it has just obtained); case['kl'] is the one in force for the call under test
    seq = [in_form(e['kl'], e.get('form')) for e in case.get('kl_seq') or []] if kl is not None else []
    # ONE signer object for every call of this case
    reentry = PK.Reentry(case['reenter'], _nested_do) if case.get('reenter') and signer is None else None
    if signer is None:
        signer = _recording(PK.make_signer(case['issuer'], key_name=seq[0] if seq else kl, key_form=case.get('key_form')), reentry)
    key_name = [bytes.fromhex(c) for c in case['key_name']]
    form = case.get('kn_form', 'list')
    if form == 'str':
        key_name = enc.Name.to_str(key_name)
    elif form.startswith('wire'):
        key_name = _buf(bytes(enc.Name.to_bytes(key_name)), {'wire': 'bytes', 'wire-ba': 'bytearray', 'wire-mv': 'mv'}[form])
    elif form == 'strlist':
        key_name = [enc.Component.to_str(c) for c in key_name]
    elif form == 'mixed':
        key_name = [(c, enc.Component.to_str(c), bytearray(c), memoryview(c))[i % 4] for i, c in enumerate(key_name)]
    elif form == 'tuple':
        key_name = tuple(key_name)
    pub = _pub_key(case)
    pub_arg = _buf(pub, case.get('pub_form', 'bytes'))
    us = case.get('us', 0)
    now = _dt.datetime(*case['now'], us, tzinfo=_dt.timezone.utc)
    local_off = case.get('local_off')

    # the clock: an ordinary day while the signer issues its earlier certificates, case['now'] for the call under test
    clock = [_dt.datetime(2001, 2, 3, 4, 5, 6, tzinfo=_dt.timezone.utc)]

    class _DT(_dt.datetime):
        @classmethod
        def now(cls, tz=None):
            # the machine's zone is UTC+local_off hours: asking for the local time gives another wall-clock reading
            now = clock[0]
            if tz is None:
                return now if local_off is None else (now + _dt.timedelta(hours=local_off)).replace(tzinfo=None)
            return now.astimezone(tz)
    old = (sv.datetime, sv.timestamp)
    sv.datetime, sv.timestamp = _DT, (lambda: case['ts'])
    try:
        try:
            # second use: the same signer object has issued other certificates before (an application's signer lives as
            # long as its keychain); what it did then must not show in this certificate
            for i in range(case.get('prior', 0)):
                if seq and i > 0:
                    signer.key_locator_name = seq[i % len(seq)]
                if i == 0:
                    sv.derive_cert('/prior/KEY/%d' % i, 'earlier', b'\x30' * (50 + i), signer,
                                   _dt.datetime(2001, 2, 3, 4, 5, 6), 77)
                elif i == 1:
                    sv.self_sign([b'\x08\x05prior', b'\x08\x03KEY', b'\x08\x01\x01'], b'\x31' * 300, signer)
                else:
                    sv.sign_req('/prior/KEY/%d' % i, b'\x32' * 91, signer)
            signer._log.clear()
            if reentry is not None:
                del reentry.records[:]      # (what the signer built while it issued its earlier certificates is not kept)
            clock[0] = now
            if seq:
                signer.key_locator_name = kl        # the locator in force for the call under test
            rec = signer
            if case['fn'] == 'self':
                name, wire = sv.self_sign(key_name, pub_arg, rec)
                issuer = b'\x08\x04self'         # NDN certificate naming: the issuer id of a self-signed certificate
            elif case['fn'] == 'req':
                name, wire = sv.sign_req(key_name, pub_arg, rec)
                issuer = bytes(sv.SIGN_REQ_COMPONENT)
            else:
                kind, val = case['issuer_id']
                iid = val if kind == 'text' else _buf(bytes.fromhex(val), case.get('iid_form', 'bytes'))
                start = _start_dt(case)
                name, wire = sv.derive_cert(key_name, iid, pub_arg, rec, start, case['expire'])
                issuer = _uri_comp(val) if kind == 'text' else bytes.fromhex(val)
            wire = bytes(wire)
            out['made'] = ['ok', wire.hex()]
            out['name'] = [bytes(c).hex() for c in name]
        except (ValueError, OverflowError) as e:
            # calendar arithmetic outside the supported range (Feb 29 + 20 years, year > 9999): not a certificate
            out['made'] = ['calendar', type(e).__name__]
            return out
        except Exception as e:      # noqa
            out['made'] = ['err', PK.exc_name(e)]
            return out
    finally:
        sv.datetime, sv.timestamp = old
        if reentry is not None:
            out['nested'] = reentry.records
    # the requested instants (UTC), worked out apart from the call: None when they are not representable (then a
    # certificate has no business existing, which the comparison with the model reports)
    t0, t1 = _requested(case)
    log = signer._log
    out.update({'issuer': issuer.hex(), 't0': t0, 't1': t1, 'pub': pub.hex(),
                'version': _version_comp(case['ts']).hex(),
                'reserved': log.get('reserved'), 'sig': log['sig'].hex() if log.get('sig') is not None else None,
                'covered': b''.join(log['covered']).hex() if log.get('covered') is not None else None})
    # the signer object after the calls: its configured key locator is still what it was configured with
    if kl is not None:
        after = getattr(signer, 'key_locator_name', None)
        after = bytes(after) if isinstance(after, (bytes, bytearray)) else after
        out['kl_unchanged'] = type(after) is type(kl_before) and after == kl_before
    from ndn.encoding.ndn_format_0_3 import SignatureInfo, KeyLocator
    si_fs = T.class_schema(SignatureInfo)
    # the five fields the signer fills in (the certificate's SignatureInfo starts with them), the KeyLocator being the
    # one the signer was CONFIGURED with before the calls (so the model speaks about the configured locator, whatever
    # object did the signing in the end)
    si_d = dict(log['si'].__dict__) if log.get('si') is not None else {}
    cfg = _configured_kl(case)
    if cfg is not None and si_d.get('key_locator') is not None:
        k2 = KeyLocator()
        k2.name = [bytes.fromhex(c) for c in cfg]
        si_d['key_locator'] = k2
    out['signer_info'] = T.values_text([T.from_py(s, si_d.get(f.name)) for f, s in zip(SignatureInfo._encoded_fields, si_fs)])
    # parse with both decoders
    try:
        cert = sv.parse_certificate(wire)
        fs = T.class_schema(sv.CertificateV2Value)
        out['parsed'] = ['ok', T.values_text(T.from_instance(fs, cert))]
        out['cert'] = {
            'name': [bytes(c).hex() for c in cert.name], 'content': bytes(cert.content).hex(),
            'content_type': cert.meta_info.content_type if cert.meta_info else None,
            'not_before': bytes(cert.signature_info.validity_period.not_before).decode('latin1')
            if cert.signature_info and cert.signature_info.validity_period else None,
            'not_after': bytes(cert.signature_info.validity_period.not_after).decode('latin1')
            if cert.signature_info and cert.signature_info.validity_period else None,
            'key_locator': None if cert.signature_info is None or cert.signature_info.key_locator is None
            or cert.signature_info.key_locator.name is None
            else [bytes(c).hex() for c in enc.Name.normalize(cert.signature_info.key_locator.name)]}
    except Exception as e:      # noqa
        out['parsed'] = ['err', PK.exc_name(e)]
    p2 = PK.parse_packet('data', wire)
    out['parse_data'] = {'res': p2['res'], 'name': p2.get('name'), 'content': p2.get('content'),
                         'SC': ''.join(p2.get('SC', [])), 'SV': p2.get('SV')}
    # the matching verifier with the issuer's public key
    vcase = {'signer': case['issuer'], 'pkt': 'data'}
    from props import c02
    out['verify'] = c02._verify(vcase, wire)
    try:
        fs = T.class_schema(sv.CertificateV2Value)
        vals = S.strict_packet(fs, wire, 6, False, True)
        # the certificate's name as the harness's own decoder reads it off the wire (not the library's parsers)
        out['wire_name'] = next(([c.hex() for c in v[1]] for f, v in zip(fs, vals) if f[0] == 'N' and v is not None), None)
        # ... and the KeyLocator Name inside its SignatureInfo (Data / SignatureInfo 22 / KeyLocator 28 / Name 7)
        wkl = _wire_path(fs, vals, [22, 28, 7])
        out['wire_kl'] = [c.hex() for c in wkl[1]] if wkl is not None else None
        body = b''.join(T.ref_encode(s, v) for s, v in zip(fs, vals))
        out['strict'] = 'ok' if T.tl(6) + T.tl(len(body)) + body == wire else 'not-minimal-or-out-of-order'
    except S.Reject as r:
        out['strict'] = 'rej:' + str(r)
    return out


def model_line(case, impl):
    if case['fn'] == 'cal':
        return _cal_line(case)
    if impl['made'][0] == 'calendar':
        # the implementation raised in its calendar arithmetic: the model must raise the same class from the same inputs
        return 'C16 times ' + _issue(case)
    if impl['made'][0] != 'ok' or impl.get('sig') is None:
        return None
    kn = ','.join(T.hx(bytes.fromhex(c)) for c in case['key_name']) or '.'
    return (f"C16 cert {kn} {impl['issuer']} {impl['version']} {T.hx(bytes.fromhex(impl['pub']))} {impl['signer_info']} "
            f"{_issue(case)} {impl['reserved']}:{T.hx(bytes.fromhex(impl['sig']))}")


def model_obs(answer, case, impl):
    if case['fn'] == 'cal':
        return {'cal': answer}
    if answer.startswith('err'):
        cls = answer.split()[1]
        return {'made': ['calendar' if cls in ('ValueError', 'OverflowError') else 'err', cls]}
    if impl['made'][0] == 'calendar':
        return {'made': ['ok-validity'] + answer.split()[1:]}
    left, right = answer.split(' | ')
    d = dict(t.split('=', 1) for t in left.split()[1:])
    r = right.split()
    return {'made': ['ok', d['W']], 'covered': ''.join(PK._hexlist(d['C'])), 'name': PK._hexlist(d['N']),
            'parsed': [r[0], r[1].split('=', 1)[1] if r[0] == 'ok' else r[1]]}


def impl_obs(impl):
    if impl['made'][0] == 'cal':
        return {'cal': impl['cal']}
    if impl['made'][0] == 'calendar':
        return {'made': impl['made']}
    return {'made': impl['made'], 'covered': impl['covered'], 'name': impl['name'], 'parsed': impl['parsed']}


def oracle(case, impl):
    why = _oracle1(case, impl)
    if case.get('reenter') and case['fn'] != 'cal':
        if why is not None:
            return why + ' (the signer did other work with the library meanwhile: ' + _reenter_text(case) + ')'
        # the certificates issued from inside the signer are certificates produced by self-signing / request creation /
        # issuance too
        for n in impl.get('nested') or []:
            spec = case['reenter'][n['i']]
            if 'c16' in spec:
                w2 = _oracle1(spec['c16'], n['impl'])
                if w2 is not None:
                    return ('certificate issued from inside the signer of another certificate (at %s%s): ' %
                            (spec['at'], ', by the same signer object' if spec.get('same') else '')) + w2
    return why


def _reenter_text(case):
    return ', '.join('%s at %s' % ('a certificate' + (' by the same signer object' if s.get('same') else '') if 'c16' in s
                                   else 'a ' + s['case']['pkt'] + ' packet', s['at']) for s in case['reenter'])


def _oracle1(case, impl):
    if impl['made'][0] == 'calendar':
        # ValueError / OverflowError are the calendar's answers (29 Feb + 20 years, beyond year 9999 in the zone the
        # arithmetic is done in): with every requested instant at least a year inside 1..9999 they are not
        t0, t1 = _requested(case)
        if t0 is not None and 2 <= t0[0] <= 9998 and 2 <= t1[0] <= 9998 \
                and not (case['fn'] == 'self' and case['now'][1:3] == [2, 29]):
            return f"issuing a certificate raised {impl['made'][1]} although the requested validity period is representable"
        return None
    if impl['made'][0] == 'cal':
        return None
    if impl['made'][0] == 'err':
        s = case['issuer']
        if s[0] == 'synth' and s[1] >= 253 and s[2] != s[1]:
            return None
        return f"issuing a certificate raised {impl['made'][1]}"
    if impl['strict'] != 'ok':
        return f"certificate is not one well-formed, exactly sized Data element: {impl['strict']}"
    if impl['parsed'][0] != 'ok' or impl['parse_data']['res'] != 'ok':
        return 'the certificate does not parse'
    c = impl['cert']
    exp_name = list(case['key_name']) + [impl['issuer'], impl['version']]
    if impl.get('wire_name') != exp_name:
        return 'certificate name on the wire is not key-name / issuer-id / version'
    if c['name'] != exp_name or impl['name'] != exp_name or impl['parse_data']['name'] != exp_name:
        return 'certificate name is not key-name / issuer-id / version'
    if c['content'] != impl['pub'] or impl['parse_data']['content'] != impl['pub']:
        return 'certificate content is not exactly the given public key'
    if c['content_type'] != 2:
        return 'content type is not KEY'
    if impl['t0'] is not None and (c['not_before'] != _fmt(impl['t0']) or c['not_after'] != _fmt(impl['t1'])):
        return f"validity period {c['not_before']}..{c['not_after']} does not encode the requested instants {_fmt(impl['t0'])}..{_fmt(impl['t1'])}"
    # the locator the signer was configured with before the call, against the KeyLocator read off the wire by the
    # harness's own decoder (and against what the library's parser reports)
    want_kl = _configured_kl(case)
    if want_kl is not None:
        if impl.get('wire_kl') != want_kl or c['key_locator'] != want_kl:
            return 'key locator is not the one configured in the issuing signer'
    elif impl.get('wire_kl') is not None or c['key_locator'] is not None:
        return 'the certificate names a key locator although the issuing signer configures none'
    if impl.get('kl_unchanged') is False:
        return 'issuing a certificate changed the key locator the signer object is configured with'
    if impl['verify'] is False or isinstance(impl['verify'], str):
        return f"signature does not verify under the issuing key ({impl['verify']})"
    if impl['parse_data']['SV'] != impl['sig'] or impl['parse_data']['SC'] != impl['covered']:
        return 'signature value / covered bytes reported by the parser differ from what the signer saw'
    return None


def nontrivial(case, impl):
    if impl['made'][0] == 'cal':
        return impl['cal'].startswith('ok')
    return impl['made'][0] == 'ok' and impl.get('verify') in (True, None)


def tags(case, impl):
    if case['fn'] == 'cal':
        return ['cal:' + case['op'] + ':' + impl['cal'].split()[0], 'cal-inst:' + case['inst'][0] if 'inst' in case else 'cal-inst:-']
    t = ['fn:' + case['fn'], 'issuer:' + case['issuer'][0], 'subject:' + case['subject'], 'made:' + impl['made'][0]]
    if impl['made'][0] == 'ok':
        n = len(impl['made'][1]) // 2
        t.append('size:' + ('<253' if n < 253 else '253..259' if n < 260 else '>=260'))
        for b in (253, 65536):
            if b - 6 <= n <= b + 8:
                t.append('size-near-%d:%s' % (b, case['issuer'][0]))
        if impl.get('reserved') and impl.get('sig') is not None and impl['reserved'] * 2 != len(impl['sig']):
            t.append('shrunk')
            if n < 253 <= n + impl['reserved'] - len(impl['sig']) // 2:
                t.append('shrunk-across-253')
        for key in ('t0', 't1') if impl['t0'] is not None else ():
            if impl[key][1:3] in ([12, 29], [12, 30], [12, 31], [1, 1], [1, 2], [1, 3]):
                t.append(key + ':29dec-3jan')
            elif impl[key][2] >= 29:
                t.append(key + ':day>=29')
        if case['fn'] == 'derive':
            t.append('issuer-id:' + case['issuer_id'][0] + ('-escaped' if '%' in case['issuer_id'][1] or '=' in case['issuer_id'][1] else ''))
            t.append('tz:' + ('zone:' + case['zone'] if case.get('zone') else 'seconds' if case.get('tz_s') else
                              'hand-written-fold%d' % case.get('fold', 0) if case.get('wall_zone') else str(case.get('tz'))))
            if case.get('zone'):
                try:
                    st = _start_dt(case)
                    a, b = st.utcoffset(), (st.astimezone(_dt.timezone.utc) + _dt.timedelta(seconds=case['expire'])).astimezone(st.tzinfo).utcoffset()
                    t.append('zone-offset-over-the-period:' + ('same' if a == b else 'grows' if b > a else 'shrinks') +
                             (',start-in-fold' if st.fold else ''))
                except OverflowError:
                    pass
        t.append('kn-form:' + case.get('kn_form', 'list'))
        t.append('prior-certificates-of-the-signer:%d' % case.get('prior', 0))
        t.append('key-form:' + case.get('key_form', 'der'))
        t.append('key-locator:' + (case.get('kl_form', 'list') if case.get('kl') is not None else 'default-text'))
        if case.get('kl_seq'):
            t.append('signer-reconfigured-before-the-call:%s' % ('away-and-back' if case['kl_seq'][0]['kl'] == case['kl'] else 'from-another-locator'))
        if case.get('kl') is not None:
            t.append('key-locator-is:%s,%s' % ('the-key-name' if case['kl'] == case['key_name'] else case.get('kl_kind', 'other'), case['fn']))
        t.append('pub-form:' + case.get('pub_form', 'bytes'))
        if case['fn'] == 'derive' and case['issuer_id'][0] == 'comp':
            t.append('issuer-comp-form:' + case.get('iid_form', 'bytes'))
        t.append('kn-comps:%d' % min(len(case['key_name']), 3))
        k = _gc('KEY')
        t.append('KEY-components-in-key-name:%d%s' % (min(case['key_name'].count(k), 3),
                                                       ',at-4th-from-end' if case['key_name'][-4:-3] == [k] else ''))
        t.append('verify:' + str(impl['verify']))
    for sp in case.get('reenter') or []:
        t.append('reenter:%s:%s' % (sp['at'], ('cert' + (',same-signer' if sp.get('same') else '')) if 'c16' in sp else sp['case']['pkt']))
        t.append('reenter-outer:%s:%s' % (case['issuer'][0], sp['at']))
    for n in impl.get('nested') or []:
        t.append('nested-built:' + (n['impl']['made'][0] if 'impl' in n else n['pkt']))
    return t


def finding_key(case, impl, why):
    import re
    w = re.sub(r'[0-9]+', 'N', why)
    return re.sub(r'[^a-zA-Z]+', '-', w).strip('-').lower()[:80]


def extract(repo):
    from props.c08 import _lean_schema
    from ndn.app_support import security_v2 as sv
    fs = T.class_schema(sv.CertificateV2Value)
    out = ['import NdnModel.Cert',
           '/- GENERATED on every run by harness/props/c16.py from the live CertificateV2Value class.  Do not edit. -/',
           'namespace Ndn.Gen.C16', 'open Ndn.Codec', '',
           f"def certLive : List Schema := [{', '.join(_lean_schema(s) for s in fs)}]", '',
           '/-- the certificate field list the model is written against is the one the source declares now -/',
           'theorem schema_matches : certLive = Ndn.Cert.certFs := rfl', '', 'end Ndn.Gen.C16']
    return '\n'.join(out) + '\n'
