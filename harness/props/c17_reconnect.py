"""C17, extra stream 'rc': one application object over 2-3 connections, and every way a connection can end.

"routes declared before connecting are registered once per connection": whatever happened to the previous connection,
on every connection every route that was declared before that connection opened gets exactly one rib/register
command.  A connection ends
  * 'shutdown'  the application calls app.shutdown() after start-up registration has finished,
  * 'close'     Face.run() returns by itself (EOF / connection reset) after start-up registration has finished,
  * 'abort:X'   Face.run() raises X (ConnectionAbortedError / OSError / TimeoutError) after start-up registration has
                finished; main_loop() lets it through, the harness catches it and calls main_loop() again the way a
                reconnect loop (`except OSError: connect again`) does,
  * 'cut'       the face goes down (Face.run() returns) while start-up registration has sent k of the n commands
                (k = 0 .. n-1; the k-th command is never answered); with VERIF_C17_ABORT_DURING_STARTUP=1 also by
                Face.run() raising at that moment (finding C17-8, see below).
Routes are declared before the first connection, while start-up registration is in progress (after its first command went
out), while a connection is up and idle, and between two connections.

Oracle only (no model line), written from the statement: a connection is judged on the routes declared before it
opened; none of them may be registered twice, and on a connection that stays up (every end but 'cut') none of them may be
skipped.  The Lean side of this stream is `Ev.down` (theorems connection_loss_ends_startup /
routes_once_after_any_end in Props/C17.lean)."""
import asyncio
import os
import vloop

# Face.run() raising WHILE start-up registration is in progress (a 'cut' whose `how` is 'abort:X'), followed by a reconnect
# within the lifetime of the command that was in flight: main_loop() awaits its start-up task only on the orderly path, so
# on /repo the old task is still alive when the next connection opens and goes on registering its remaining routes on
# that connection as well - routes registered twice there (both front-ends; on the legacy front-end the old task can
# instead leave a callback behind that makes the next start-up die with 'Duplicated registration').  Finding C17-8,
# candidate_fixes/C17-8-startup-task-outlives-aborted-connection.*; until it is repaired in /repo these cases are
# generated only with VERIF_C17_ABORT_DURING_STARTUP=1.
ABORT_DURING_STARTUP = os.environ.get('VERIF_C17_ABORT_DURING_STARTUP') == '1'

ABORTS = {'ConnectionAbortedError': ConnectionAbortedError, 'OSError': OSError, 'TimeoutError': TimeoutError}


# how the caller hands a route name to route(), and what it does with that object once route() has returned: the name
# a route was DECLARED with is the one every later connection must register (the objects stay the caller's)
ROUTE_REPRS = ['str', 'list', 'list-grow', 'balist', 'wire-ba', 'tuple', 'iter', 'list-shrink']


def _route_name(uri, how):
    comps = [bytes([8, len(t)]) + t.encode() for t in uri.strip('/').split('/')]
    if how == 'str':
        return uri, lambda: None
    if how == 'list':                # a list of immutable components, item-assigned afterwards
        l = list(comps)

        def f():
            l[-1] = b'\x08\x03zzz'
        return l, f
    if how == 'list-grow':           # the caller builds a longer name from the list it passed
        l = list(comps)
        return l, lambda: l.append(b'\x08\x06status')
    if how == 'list-shrink':
        l = list(comps)
        return l, lambda: l.pop()
    if how == 'balist':              # mutable component buffers, overwritten afterwards
        l = [bytearray(c) for c in comps]

        def f():
            for b in l:
                b[2:] = b'#' * (len(b) - 2)
        return l, f
    if how == 'wire-ba':             # an encoded Name in a reused buffer
        v = b''.join(comps)
        ba = bytearray(bytes([7, len(v)]) + v)

        def f():
            ba[2:] = b'\x08' + bytes([len(ba) - 4]) + b'#' * (len(ba) - 4)
        return ba, f
    if how == 'tuple':
        return tuple(comps), lambda: None
    if how == 'iter':
        return iter(list(comps)), lambda: None
    raise ValueError(how)


def _conn(rng, last, n_known):
    r = rng.random()
    if last or r < 0.25:
        end = rng.choice(['shutdown', 'close'])
    elif r < 0.65:
        end = 'abort:' + rng.choice(['ConnectionAbortedError', 'ConnectionAbortedError', 'OSError', 'TimeoutError'])
    else:
        end = 'cut'
    c = {'end': end, 'during': rng.choice([0, 0, 0, 1]), 'after': rng.choice([0, 0, 1]),
         'between': rng.choice([0, 0, 1, 2]), 'gap_ms': rng.choice([0, 0, 5, 1500])}
    if end == 'cut':
        c['k'] = rng.randrange(max(1, n_known))
        c['after'] = 0
        if ABORT_DURING_STARTUP and c['k'] > 0 and rng.random() < 0.6:
            c['how'] = 'abort:' + rng.choice(['ConnectionAbortedError', 'OSError', 'TimeoutError'])
            c['gap_ms'] = rng.choice([0, 0, 5, 300, 1500])
            c['during'] = 0      # (a registration task spawned by route() that straddles the two connections: not judged)
    return c


def cases(rng, tier):
    n = 40 if tier == 'quick' else 1500
    # the shapes of the report first: abort after start-up / cut after the first of two commands, then two more connections
    for fe in ('v2', 'v1'):
        for end in ('abort:ConnectionAbortedError', 'abort:OSError', 'abort:TimeoutError', 'close', 'shutdown'):
            yield {'mode': 'rc', 'fe': fe, 'before': 2, 'conns': [{'end': end}, {'end': 'shutdown'}, {'end': 'shutdown'}]}
        for k in (0, 1, 2):
            yield {'mode': 'rc', 'fe': fe, 'before': 3,
                   'conns': [{'end': 'cut', 'k': k}, {'end': 'close'}, {'end': 'shutdown'}]}
        if ABORT_DURING_STARTUP:
            for k in (1, 2):
                yield {'mode': 'rc', 'fe': fe, 'before': 3,
                       'conns': [{'end': 'cut', 'k': k, 'how': 'abort:ConnectionAbortedError'}, {'end': 'close'},
                                 {'end': 'shutdown'}]}
    for i in range(n):
        before = rng.choice([0, 1, 2, 2, 3])
        conns, known = [], before
        nc = rng.choice([2, 2, 3])
        for ci in range(nc):
            c = _conn(rng, ci == nc - 1, known)
            if known == 0 and c['end'] == 'cut':
                c = {'end': 'close', 'during': 0, 'after': 1, 'between': 1, 'gap_ms': 0}
            conns.append(c)
            known += c['during'] + c['after'] + c['between']
        c = {'mode': 'rc', 'fe': 'v2' if i % 3 else 'v1', 'before': before, 'conns': conns}
        if i % 2:
            c['reprs'], c['rsalt'] = True, rng.randrange(len(ROUTE_REPRS))
        yield c


def shrink(case):
    conns = case['conns']
    if len(conns) > 2:
        for i in range(len(conns)):
            yield dict(case, conns=conns[:i] + conns[i + 1:])
    if case['before'] > 1:
        yield dict(case, before=case['before'] - 1)
    for i, c in enumerate(conns):
        for key in ('during', 'after', 'between', 'gap_ms'):
            if c.get(key):
                yield dict(case, conns=conns[:i] + [dict(c, **{key: 0})] + conns[i + 1:])
        if c['end'] == 'cut' and c.get('k', 0) > (1 if c.get('how') else 0):
            yield dict(case, conns=conns[:i] + [dict(c, k=c['k'] - 1)] + conns[i + 1:])
        if c['end'] not in ('shutdown', 'cut', 'abort:ConnectionAbortedError') and c['end'].startswith('abort'):
            yield dict(case, conns=conns[:i] + [dict(c, end='abort:ConnectionAbortedError')] + conns[i + 1:])


def run(case):
    from ndn import encoding as enc, utils, appv2, app as appv1
    from ndn.transport.face import Face
    from ndn.transport import nfd_registerer
    from ndn.app_support import nfd_mgmt
    from ndn import security as sec
    from props import c17 as _c17
    loop = vloop.new_loop()
    loop._vt = 7000.0

    class _T:
        time = staticmethod(lambda: loop.time())
    olds = [(utils, 'time', utils.time)]
    utils.time = _T
    sent = []          # (connection number, wire)

    class RcFace(Face):
        def __init__(self):
            super().__init__()
            self.conn = -1
            self.end = None
            self.gone_at_once = False

        async def open(self):
            self.conn += 1
            self.end = asyncio.get_running_loop().create_future()
            self.running = True

        def shutdown(self):
            self.running = False
            if self.end is not None and not self.end.done():
                self.end.set_result('close')

        def finish(self, how):
            if not self.end.done():
                self.end.set_result(how)

        async def run(self):
            if self.gone_at_once:
                # the connection is lost before anything could be sent on it
                self.gone_at_once = False
                self.running = False
                return
            how = await self.end
            self.running = False
            if how.startswith('abort:'):
                raise ABORTS[how[6:]]('scripted: the forwarder went away')

        def send(self, data):
            sent.append((self.conn, bytes(data)))

        def isLocalFace(self):
            return True
    try:
        face = RcFace()
        if case['fe'] == 'v2':
            a = appv2.NDNApp(face=face, registerer=nfd_registerer.NfdRegister())
        else:
            a = appv1.NDNApp(face=face, keychain=sec.KeychainDigest())
        names = []

        def declare(tag):
            nm = f'/rc/{tag}{len(names)}'
            names.append(nm)
            how = ROUTE_REPRS[(len(names) + case.get('rsalt', 0)) % len(ROUTE_REPRS)] if case.get('reprs') else 'str'
            obj, scribble = _route_name(nm, how)
            a.route(obj)(lambda *x, **k: None)
            scribble()        # route() has returned: the caller goes on using ITS objects (they were never the library's)

        def registered(ci):
            regs = []
            for c, w in sent:
                if c != ci:
                    continue
                try:
                    nm, _, _, _ = enc.parse_interest(w)
                    comps = [bytes(x) for x in nm]
                    if len(comps) >= 5 and bytes(enc.Component.get_value(comps[3])) == b'register':
                        cp = nfd_mgmt.ControlParameters.parse(enc.Component.get_value(comps[4])).cp
                        regs.append(enc.Name.to_str(cp.name))
                except Exception:      # noqa
                    pass
            return regs

        content = _c17._make_response(nfd_mgmt, enc, 200, 'OK', {'name': '/rc/x'})

        def answer(w):
            try:
                nm, _, _, _ = enc.parse_interest(w)
            except Exception:      # noqa
                return
            data = enc.make_data(nm, enc.MetaInfo(), content, signer=sec.DigestSha256Signer())
            loop.create_task(face.callback(0x06, bytes(data)))
            loop.settle()

        for _ in range(case['before']):
            declare('b')
        out = []
        answered = 0
        for ci, spec in enumerate(case['conns']):
            judged = list(names)
            end = spec['end']
            cut_at = spec.get('k') if end == 'cut' else None
            face.gone_at_once = (cut_at == 0)
            t = loop.create_task(a.main_loop())
            loop.settle()
            answered = max(answered, sum(1 for c, _ in sent if c < face.conn))
            seen_here = 0
            during_left = spec.get('during', 0)
            cut = False
            for _ in range(400):
                progressed = False
                while answered < len(sent) and not cut:
                    c, w = sent[answered]
                    answered += 1
                    progressed = True
                    if c != face.conn:
                        continue
                    seen_here += 1
                    if during_left and seen_here == 1:
                        for _ in range(during_left):
                            loop.call_now(declare, 'd')      # start-up registration is in progress
                        during_left = 0
                    if cut_at is not None and seen_here == cut_at:
                        cut = True                           # this command is never answered: the face goes down
                        face.finish(spec.get('how', 'close'))
                        loop.settle()
                        break
                    answer(w)
                if cut or t.done():
                    break
                if not progressed:
                    loop.advance(loop.time() + 0.002)
                    if answered >= len(sent):
                        break
            stayed_up = not cut and cut_at != 0 and not t.done()
            if stayed_up and not set(judged) <= set(registered(face.conn)):
                # not every route has been seen yet: stay up for more than a command lifetime, answering what comes
                for _ in range(80):
                    loop.advance(loop.time() + 0.02)
                    while answered < len(sent):
                        c, w = sent[answered]
                        answered += 1
                        if c == face.conn:
                            answer(w)
                    if t.done() or set(judged) <= set(registered(face.conn)):
                        break
                stayed_up = not t.done()
            if stayed_up:
                for _ in range(spec.get('after', 0)):
                    loop.call_now(declare, 'a')              # the connection is up and idle
                for _ in range(50):
                    loop.advance(loop.time() + 0.002)
                    if answered >= len(sent):
                        break
                    while answered < len(sent):
                        c, w = sent[answered]
                        answered += 1
                        if c == face.conn:
                            answer(w)
                if end == 'shutdown':
                    loop.call_now(a.shutdown)
                elif not t.done():
                    face.finish(end)
                loop.settle()
            # let main_loop come to its end (a command that is still pending runs into its lifetime)
            for _ in range(3):
                if t.done():
                    break
                loop.advance(loop.time() + 0.6)
            res = 'pending'
            if t.done():
                if t.cancelled():
                    res = 'cancelled'
                else:
                    ex = t.exception()
                    res = 'returned' if ex is None else type(ex).__name__
            else:
                t.cancel()
                loop.settle()
            out.append({'judged': judged, 'registered': registered(face.conn), 'stayed_up': stayed_up, 'main': res})
            for _ in range(spec.get('between', 0)):
                declare('m')                                 # no connection at all at this moment
            if spec.get('gap_ms'):
                loop.advance(loop.time() + spec['gap_ms'] / 1000.0)
        return {'mode': 'rc', 'names': names, 'conns': out, 'loop_errors': [list(e) for e in loop.errors]}
    finally:
        for o, n, v in olds:
            setattr(o, n, v)
        loop.shutdown()


def _how(spec):
    e = spec['end']
    if e == 'cut':
        return (f"was lost after {spec.get('k', 0)} start-up command(s)" +
                (f", {spec['how'][6:]} raised by Face.run()" if spec.get('how') else ''))
    if e.startswith('abort:'):
        return f'ended with {e[6:]} raised by Face.run()'
    return 'ended in an orderly way'


def oracle(case, impl):
    for ci, c in enumerate(impl['conns']):
        prev = f' (the previous connection {_how(case["conns"][ci - 1])})' if ci else ''
        for nm in c['judged']:
            n = c['registered'].count(nm)
            if n > 1:
                return f'connection {ci}: a route declared before this connection opened was registered {n} times on it{prev}'
            if n == 0 and c['stayed_up']:
                return (f'connection {ci}: a route declared before this connection opened was never registered on it '
                        f'although the connection stayed up{prev}')
    return None


def tags(case, impl):
    t = ['mode:rc', 'fe:' + case['fe']]
    for spec, c in zip(case['conns'], impl['conns']):
        t.append('rc-end:' + spec['end'].split(':')[0] + (':k=%d' % spec['k'] if spec['end'] == 'cut' else ''))
        t.append('rc-main:' + c['main'])
        if spec.get('during'):
            t.append('rc-declared-during-startup')
        if spec.get('between'):
            t.append('rc-declared-between')
    return t
