"""C17 - prefix registration speaks the forwarder management protocol correctly
(src/ndn/transport/nfd_registerer.py, src/ndn/app_support/nfd_mgmt.py, src/ndn/appv2.py, src/ndn/app.py)."""
import ast
import hashlib
import os
import struct

import vloop

PROP = 'C17'
TITLE = 'Prefix registration speaks the forwarder management protocol correctly'
LEAN_TARGETS = ['NdnProofs.Props.C17']
THEOREMS = [
    'Ndn.C17.success_iff_200', 'Ndn.C17.reply_returns', 'Ndn.C17.failure_no_raise', 'Ndn.C17.never_raises',
    'Ndn.C17.one_at_a_time', 'Ndn.C17.one_command_per_call',
    'Ndn.C17.timestamps_strict', 'Ndn.C17.guard_only_strict_without_sign_tick',
    'Ndn.C17.guard_only_counterexample', 'Ndn.C17.no_guard_counterexample',
    # unregister of both front-ends inside the model (and the unserialised legacy unregister of the unchanged tree)
    'Ndn.C17.unregister_takes_the_lock', 'Ndn.C17.nothing_outside_the_lock', 'Ndn.C17.unchanged_legacy_unregister_overlaps',
    'Ndn.C17.routes_conserved', 'Ndn.C17.routes_once_per_connection', 'Ndn.C17.routes_registered_after_replies',
    'Ndn.C17.connection_loss_ends_startup', 'Ndn.C17.routes_once_after_any_end',
    'Ndn.C17.response_roundtrip', 'Ndn.C17.response_keys',
    'Ndn.C17.unchanged_register_raises_without_body', 'Ndn.C17.unchanged_unregister_ignores_status',
    'Ndn.C17.unchanged_routes_lost', 'Ndn.C17.gen_fields', 'Ndn.C17.gen_caught',
    # bytes on the wire (model Ndn.NfdBytes = make_command_v2 / make_command / the v2 command Interest / parse_response)
    'Ndn.C17.gen_schemas', 'Ndn.C17.command_names_prefix', 'Ndn.C17.rib_command_names_prefix',
    'Ndn.C17.command_signed_v2', 'Ndn.C17.response_roundtrip_bytes', 'Ndn.C17.legacy_command_name',
    # the composed model Ndn.NfdBytes.runW: reply bytes -> state machine -> command wires
    'Ndn.C17.emitted_command_accepted', 'Ndn.C17.every_emitted_wire_accepted', 'Ndn.C17.one_wire_per_call',
    'Ndn.C17.wire_timestamps_strict',
    'Ndn.C17.answers200_wire200', 'Ndn.C17.reply_wire_decides', 'Ndn.C17.reply_bytes_never_raise',
    'Ndn.C17.forwarder_answer_decides', 'Ndn.C17.reply_decode_errors_are_caught',
]
PARTIAL = {}
TRUSTED = [
    'C17: the composed model (Ndn.NfdBytes.runW) turns the trace of the registration state machine into command Interest '
    'wires and reply bytes into reply kinds; it is tied to the code by comparing, for every command of every scenario, '
    'the wire the model emits with the wire the real NfdRegister / NDNApp put on the face, byte for byte (the Interest '
    'Nonce and the SignatureNonce / nonce component are inputs read from the real command; the timestamp is computed '
    'by the model from the recorded clock readings), and by handing the model the bytes of the very Data packets the '
    'scripted forwarder sent.  A Nack reaches the model as an event (its link-layer envelope is C10\'s); that a reply '
    'packet is matched to the command in flight is the PIT (C03); a byte string that is not a Data packet is dropped '
    'by the receive loop (C06) and is a no-op in the model',
    'C17: byte-level theorems are about the generic TLV codec and packet models of C08/C01/C02 instantiated with the '
    'schemas generated from nfd_mgmt.py (gen_schemas); codec = tlv_model.py / ndn_format_0_3.py is sampled (there and '
    'in the byte-level stream here); SHA-256 is a parameter H with 32-byte output (the driver runs the Lean SHA-256); '
    'Name.from_str of the plain-text head /localhost|localhop/nfd/<module>/<command> is four generic components '
    '(compared with the real name on every case); a Strategy body without a Name shows as absent in the model',
    'C17: asyncio.Semaphore(1) is modelled as a FIFO hand-over lock (CPython 3.12 semantics); awaiting and task '
    'scheduling are exercised only by the correspondence (virtual-time loop)',
    'C17: the clock enters the model as the advances between consecutive reads (monotone by construction); the '
    'hypothesis of timestamps_strict is that the millisecond clock advances across each 1 ms sleep of the guard loop',
    'C17: the end of a connection is the event `down` of the model (Face.run() returning or raising, start-up registration '
    'finished or cut after k of n commands): the command in flight returns False, the start-up task is gone.  Two '
    'situations are marked `unmodelled` there: calls waiting for the command lock when the connection is lost, and a '
    'connection established while the start-up task of the previous one is still running (Face.run() raised during '
    'start-up and the application reconnects before the command in flight has run into its lifetime; on /repo that '
    'makes the old task register its remaining routes on the new connection as well: finding C17-8, candidate fix '
    'written, exhibited by the stream rc with VERIF_C17_ABORT_DURING_STARTUP=1 and kept out of it otherwise).  '
    'routes_conserved / routes_once_per_connection hold for every state with no start-up task running (any previous '
    'history, any kind of end); the route list is an input of `connect` (what route() has collected); the stream rc '
    '(harness/props/c17_reconnect.py) is oracle-only',
    'C17: the legacy unregister also removes the callback of the prefix from the dispatch table before it queues for '
    'the command lock; that table is C04\'s and is not part of this model.  The unserialised legacy unregister of '
    'the unchanged tree is in the model (Cfg.unregLock = false, theorem unchanged_legacy_unregister_overlaps) but is '
    'not exercised by the correspondence on the repaired /repo (driver front-end v1u, replayed by hand against the '
    'mutant legacy-unregister-no-semaphore)',
]
RULE = ('scenarios on the virtual-time loop with the real NDNApp (v2 with the real NfdRegister, and legacy), an '
        'in-memory face and a scripted forwarder: 0-3 routes declared before connecting, 1-2 connections, per '
        'connection 0-8 concurrent register/unregister calls issued at one clock reading (before or after '
        'auto-registration), each command answered by ControlResponse (status 200/4xx/5xx/absent, with or without '
        'body, valid or broken DigestSha256), undecodable Content, Nack, or silence, after 0-3 ms; clock granularity '
        '1/4/16 ms and 0-2 ms ticks between the guard read, the signed read and the re-read; hardening: up to 16 '
        'concurrent calls, non-local face (/localhop), route() with validator / raw-packet options, status-200 bodies '
        'naming another prefix or present-but-empty, answers arriving 20 ms - 3 s after the command lifetime, the clock '
        'set back 1-4 ms between two commands (oracle only), routes declared while a connection is up and between two '
        'connections; reconnect stream: ONE application object through 2-3 connections, each on a FRESH event loop (what '
        'run_forever() does; stream rc: ONE application object through 2-3 connections on one loop, each ending by '
        'app.shutdown() / Face.run() returning / Face.run() raising ConnectionAbortedError, OSError or TimeoutError out of '
        'main_loop (caught, main_loop() called again) after start-up registration / the face going down when k of the n '
        'start-up commands have been sent (k = 0..n-1), routes declared before the first connection, while start-up '
        'registration is in progress, while a connection is idle and between connections, 0 / 5 / 1500 ms between '
        'connections; with VERIF_C17_ABORT_DURING_STARTUP=1 also Face.run() raising when k of n start-up commands have been '
        'sent, reconnect after 0-1500 ms: finding C17-8, not repaired in /repo), 2-7 concurrent calls on every connection so that the command lock is contended each time, '
        '0-50 ms between connections, connection attempts whose face.open() fails and are retried; plus ControlResponse '
        'values with random status/text/body fields for parse_response; plus a byte-level stream: verb, local/non-local '
        'face, prefix (text prefixes and random typed components, lengths around 253), 0-15 further ControlParameters '
        'keywords (integers at width boundaries, non-ASCII text, strategy names; rarely an integer that does not fit), '
        'Interest parameters, SignatureTime/SignatureNonce/timestamp/nonce at width boundaries (recorded from the real '
        'calls), and a ControlResponse; compared component by component / byte by byte: make_command_v2, make_interest '
        'with DigestSha256Signer(for_interest=True) (wire, final name, signer input, reported ranges, both checkers), '
        'make_command, the response bytes and parse_response of them. In the scenario stream the model is the COMPOSED '
        'model: it receives the bytes of every Data packet the scripted forwarder sends (valid / broken signature, '
        'ControlResponse / garbage / no Content) and its command wires are compared byte for byte with the wires on '
        'the face; plus the stream ds (harness/props/c17_datasets.py, oracle only): HISTORIES of 2-8 management messages of '
        'every kind (ControlResponse through parse_response and through the model, ControlParameters, faces/list, faces/query '
        'filter, rib/list, fib/list, strategy-choice/list, cs/info, status/general, face event notification) written by the '
        'harness\'s own TLV writer (also wider-than-minimal integers) or the library\'s encoder and decoded one after the other '
        'in a forked child (= a fresh process), fields that share a TLV-TYPE number in different messages carrying equal '
        'numbers; every field read right away / after all decodes / in reverse / twice, after repr / == / asdict, while the '
        'caller edits the objects it read before; compared with what was encoded including the Python type (int, the '
        'declared enumeration and member name, the nested message class). non-trivial = at least two commands or a '
        'non-200 reply (byte-level: a keyword besides name or a prefix of two components); distinct = distinct cases')

PREFIXES = ['/a', '/a/b', '/app/x/y', '/8=%00%01/z', '/', '/' + 'k' * 260, '/r1', '/r2/s', '/r3']
UINT_FIELDS = ['face_id', 'origin', 'cost', 'capacity', 'count', 'base_congestion_mark_interval',
               'default_congestion_threshold', 'mtu', 'flags', 'mask', 'expiration_period']
TEXT_FIELDS = ['uri', 'local_uri']
LIFETIME_MS = 1000
CPV_FIELDS = ['name', 'face_id', 'uri', 'local_uri', 'origin', 'cost', 'capacity', 'count',
              'base_congestion_mark_interval', 'default_congestion_threshold', 'mtu', 'flags', 'mask', 'strategy',
              'expiration_period', 'face_persistency']      # = cpvFields of the model (checked by gen_fields)


def _mods():
    from ndn import encoding as enc, utils, security as sec, types
    from ndn.app_support import nfd_mgmt
    from ndn.transport import nfd_registerer
    from ndn.security.signer import sha256_digest_signer
    from ndn.encoding import ndnlp_v2
    return enc, utils, sec, types, nfd_mgmt, nfd_registerer, sha256_digest_signer, ndnlp_v2


# ------------------------------------------------------------------------------------- cases
def _reply(rng):
    r = rng.random()
    delay = rng.choice([0, 0, 0, 1, 1, 2, 3])
    if r < 0.40:
        body = rng.random() < 0.85
        if body and rng.random() < 0.25:
            # status 200 with a body that names another prefix / a present but empty body: still "status 200"
            body = rng.choice(['other', 'other', 'empty'])
        return {'k': 'status', 'code': 200, 'body': body, 'text': rng.choice(['OK', 'OK', 'OK', '', None]),
                'sig': rng.random() < 0.93, 'delay': delay}
    if r < 0.68:
        code = rng.choice([400, 403, 403, 404, 404, 409, 500, 501, 504, 0, 199, 201, 2 ** 32 + 200, None])
        return {'k': 'status', 'code': code, 'body': rng.random() < 0.45,
                'text': rng.choice(['no', 'Unauthorized', '', None]), 'sig': rng.random() < 0.93, 'delay': delay}
    if r < 0.80:
        return {'k': 'nack', 'reason': rng.choice([50, 100, 150, 0, 7]), 'delay': delay}
    if r < 0.87:
        return {'k': 'timeout'}
    if r < 0.90:
        # silence for the whole lifetime, then the answer arrives after all (late by 20 ms .. 3 s)
        return {'k': 'late', 'code': rng.choice([200, 200, 403]), 'after': rng.choice([20, 500, 3000])}
    g = rng.choice([None, '', '010203', '6505', '650166', '66020190', '6503660190ff', '0a0b' * 6,
                    bytes(rng.randrange(256) for _ in range(rng.randint(1, 10))).hex()])
    return {'k': 'garbage', 'hex': g, 'sig': rng.random() < 0.9, 'delay': delay}


def _pr_case(rng):
    def nat():
        return rng.choice([0, 1, 200, 252, 253, 65535, 65536, 2 ** 32 - 1, 2 ** 32, 2 ** 64 - 1, rng.randrange(2 ** 64)])

    def text():
        return ''.join(rng.choice('abcXYZ019:/._- ') for _ in range(rng.choice([0, 1, 3, 12, 40, 300])))

    def name():
        return rng.choice(PREFIXES + ['/localhost/nfd/strategy/best-route/v=5'])
    body = None
    if rng.random() < 0.8:
        body = {}
        for f in ['name'] + UINT_FIELDS + TEXT_FIELDS + ['strategy', 'face_persistency']:
            if rng.random() < 0.35:
                if f in ('name', 'strategy'):
                    body[f] = ['n', name()]
                elif f in TEXT_FIELDS:
                    body[f] = ['t', text()]
                elif f == 'face_persistency':
                    body[f] = ['u', rng.choice([0, 1, 2])]
                else:
                    body[f] = ['u', nat()]
    return {'mode': 'pr', 'code': rng.choice([None, 200, 200, 403, 404, nat()]),
            'text': rng.choice([None, 'OK', text()]), 'body': body}


def _sm_case(rng, big):
    fe = 'v2' if rng.random() < 0.6 else 'v1'
    nroutes = rng.choice([0, 0, 1, 2, 2, 3])
    routes = rng.sample([6, 7, 8], nroutes)
    conns = []
    for _ in range(rng.choice([1, 1, 1, 2])):
        ncalls = rng.choice([0, 1, 1, 2, 3, 4, 6, 8, 11, 16] if big else [0, 1, 2, 3, 5, 8, 12])
        calls = [[rng.choice(['r', 'r', 'u']), rng.randrange(6)] for _ in range(ncalls)]
        conns.append({'calls': calls, 'early': rng.random() < 0.4})
    total = sum(len(c['calls']) for c in conns) + len(routes) * len(conns)
    replies = [_reply(rng) for _ in range(total)]
    gran = rng.choice([1, 1, 1, 1, 1, 4, 16])
    sign = [rng.choice([0, 0, 0, 0, 1, 1, 2]) for _ in range(total)] if rng.random() < 0.5 else []
    post = [rng.choice([0, 0, 0, 1]) for _ in range(total)] if rng.random() < 0.3 else []
    case = {'mode': 'sm', 'fe': fe, 'routes': routes, 'conns': conns, 'replies': replies,
            'clock': {'gran': gran, 'sign': sign, 'post': post}}
    # dimensions added by hardening (absent keys = the old behaviour, so old replays stay valid)
    if rng.random() < 0.15:
        case['local'] = False                   # a non-local face: commands go to /localhop/nfd
    if routes and rng.random() < 0.4:
        # route(name, validator[, need_raw_packet, need_sig_ptrs]) instead of the bare decorator
        case['route_opts'] = [[rng.random() < 0.7, rng.random() < 0.3, rng.random() < 0.3] for _ in routes]
    if gran == 1 and total >= 2 and rng.random() < 0.12:
        # the clock is set back by a few ms between two commands (the guard loop can wait that out)
        case['clock']['back'] = [rng.choice([0, 1, 2, 4]) for _ in range(total)]
    if len(conns) > 1 and rng.random() < 0.5:
        case['fresh_loops'] = True              # every connection on its own event loop, as run_forever() does
    if rng.random() < 0.08:
        rng.choice(conns)['open_fail'] = 1      # a connection attempt whose face.open() fails, then retried
    return _v2_keep_out(case)


# The appv2 registerer (NfdRegister) keeps ONE asyncio.Semaphore for its whole life; a semaphore belongs to the first event
# loop it had to wait on, so on the unchanged tree a second CONTENDED connection on another event loop raises RuntimeError
# (finding C17-6, candidate_fixes/C17-6-v2-semaphore-per-loop.*).  Until that is repaired in /repo, v2 cases on fresh
# loops are generated with at most one contended connection.  Set to True once the lock is created per event loop.
V2_LOCK_PER_LOOP = os.environ.get('VERIF_C17_V2_LOOPS') == '1'     # False on the unchanged tree


def _contended(case, conn):
    return len(conn['calls']) >= 2 or (bool(conn['calls']) and bool(case['routes']) and conn['early'])


def _v2_keep_out(case):
    if case['fe'] != 'v2' or V2_LOCK_PER_LOOP or not case.get('fresh_loops'):
        return case
    seen = False
    for conn in case['conns']:
        if _contended(case, conn):
            if seen:
                conn['calls'] = conn['calls'][:1]
                conn['early'] = False
            seen = True
    return case


def _reconnect_case(rng, fe, k):
    """one application object, two or three connections, each on a fresh event loop, the lock contended on every one"""
    routes = rng.sample([6, 7, 8], rng.choice([0, 0, 1, 2, 3]))
    conns = []
    for ci in range(rng.choice([2, 2, 3])):
        calls = [[rng.choice(['r', 'r', 'u']), rng.randrange(6)] for _ in range(rng.choice([2, 2, 3, 4, 7]))]
        conn = {'calls': calls, 'early': rng.random() < 0.4}
        if ci and rng.random() < 0.5:
            conn['gap_ms'] = rng.choice([1, 2, 50])
        if rng.random() < 0.15:
            conn['open_fail'] = rng.choice([1, 1, 2])
        conns.append(conn)
    total = sum(len(c['calls']) for c in conns) + len(routes) * len(conns)
    # mostly the plain exchange (every command answered 200 at once / after 1 ms), otherwise the usual reply kinds
    if k % 3 == 0:
        replies = []
    elif k % 3 == 1:
        replies = [{'k': 'status', 'code': 200, 'body': True, 'text': 'OK', 'sig': True, 'delay': 1} for _ in range(total)]
    else:
        replies = [_reply(rng) for _ in range(total)]
    case = {'mode': 'sm', 'fe': fe, 'routes': routes, 'conns': conns, 'replies': replies,
            'clock': {'gran': 1, 'sign': [rng.choice([0, 0, 0, 1]) for _ in range(total)] if rng.random() < 0.3 else [],
                      'post': []}, 'fresh_loops': True}
    return _v2_keep_out(case)


def _by_fields(rng):
    def nat():
        return rng.choice([0, 1, 200, 252, 253, 255, 256, 65535, 65536, 2 ** 32 - 1, 2 ** 32, 2 ** 64 - 1,
                           rng.randrange(2 ** 64)])

    def text():
        return ''.join(rng.choice('abcXYZ019:/._- \u00e9') for _ in range(rng.choice([0, 1, 3, 12, 40, 300])))
    import pktcommon as PK
    kw = {}
    for f in UINT_FIELDS + TEXT_FIELDS + ['strategy', 'face_persistency']:
        if rng.random() < 0.25:
            if f == 'strategy':
                kw[f] = ['n', [c.hex() for c in PK.rand_name(rng)[:4]]]
            elif f in TEXT_FIELDS:
                kw[f] = ['t', text()]
            elif f == 'face_persistency':
                kw[f] = ['u', rng.choice([0, 1, 2])]
            else:
                kw[f] = ['u', nat()]
    return kw


def _by_case(rng, tier):
    """byte-level stream: one command (v2 name, v2 Interest, legacy name) and one response"""
    import pktcommon as PK
    from ndn import encoding as enc
    if rng.random() < 0.5:
        prefix = [bytes(c).hex() for c in enc.Name.normalize(rng.choice(PREFIXES))]
    else:
        n = PK.rand_name(rng)
        if sum(len(c) for c in n) > 3000 and (tier == 'quick' or rng.random() < 0.7):
            n = PK.boundary_name(rng, big=False)
        prefix = [c.hex() for c in n]
    kw = _by_fields(rng) if rng.random() < 0.6 else {}
    if rng.random() < 0.04:
        kw['cost'] = ['u', 2 ** 64 + rng.randrange(5)]          # does not fit a UintField
    body = None
    if rng.random() < 0.8:
        body = _by_fields(rng)
        if rng.random() < 0.8:
            body['name'] = ['n', prefix]
    return {'mode': 'by', 'verb': rng.choice(['r', 'r', 'u']), 'local': rng.choice([None, True, True, False]),
            'prefix': prefix, 'kw': kw,
            'param': {'can_be_prefix': rng.random() < 0.2, 'must_be_fresh': rng.random() < 0.3,
                      'nonce': rng.choice([None, 0, rng.getrandbits(32)]),
                      'lifetime': rng.choice([1000, 1000, 1000, None, 4000, 65536]),
                      'hop_limit': rng.choice([None, None, 0, 255])},
            'time': rng.choice([0, 1, 255, 256, 1700000000000, 2 ** 32, 2 ** 64 - 1, rng.randrange(2 ** 44)]),
            'nonce64': rng.choice([0, 255, 65536, 2 ** 64 - 1, rng.getrandbits(64)]),
            'resp': {'code': rng.choice([None, 200, 200, 403, 404, 0, 255, 256, 2 ** 32, 2 ** 64 - 1]),
                     'text': rng.choice([None, 'OK', '', 'no such route \u00e9', 'x' * 300]), 'body': body}}


def cases(rng, tier):
    from props import c17_openwindow as OW, c17_reconnect as RC, c17_datasets as DS
    yield from OW.cases(rng, tier)
    yield from RC.cases(rng, tier)
    # its own generator, seeded from the state of the given one without drawing from it: the histories of decodes do not
    # move the other streams of a seed
    import random
    yield from DS.cases(random.Random(hashlib.sha1(repr(rng.getstate()).encode()).hexdigest()), tier)
    n_sm, n_pr = (260, 200) if tier == 'quick' else (7000, 4000)
    n_by = 160 if tier == 'quick' else 4000
    # a few fixed shapes first: the replies NFD really sends
    for fe in ('v2', 'v1'):
        for op in ('r', 'u'):
            for rep in ({'k': 'status', 'code': 200, 'body': True, 'text': 'OK', 'sig': True, 'delay': 1},
                        {'k': 'status', 'code': 403, 'body': False, 'text': 'no', 'sig': True, 'delay': 1},
                        {'k': 'status', 'code': 404, 'body': True, 'text': 'no', 'sig': True, 'delay': 0},
                        {'k': 'nack', 'reason': 150, 'delay': 0}, {'k': 'timeout'}):
                yield {'mode': 'sm', 'fe': fe, 'routes': [], 'conns': [{'calls': [[op, 1]], 'early': False}],
                       'replies': [rep], 'clock': {'gran': 1, 'sign': [], 'post': []}}
        yield {'mode': 'sm', 'fe': fe, 'routes': [6, 7], 'conns': [{'calls': [], 'early': False}] * 2,
               'replies': [], 'clock': {'gran': 1, 'sign': [], 'post': []}}
        yield {'mode': 'sm', 'fe': fe, 'routes': [], 'conns': [{'calls': [['r', i % 4] for i in range(8)], 'early': False}],
               'replies': [], 'clock': {'gran': 1, 'sign': [1, 0, 0, 1, 0, 0, 0, 0], 'post': []}}
    # one application object over several connections, each on a fresh event loop, the lock contended every time
    for fe in ('v1', 'v2'):
        for nc in (2, 3):
            yield _v2_keep_out({'mode': 'sm', 'fe': fe, 'routes': [6, 7], 'fresh_loops': True,
                                'conns': [{'calls': [['r', 0], ['r', 1], ['u', 2]], 'early': bool(i % 2)} for i in range(nc)],
                                'replies': [], 'clock': {'gran': 1, 'sign': [], 'post': []}})
    for k in range(70 if tier == 'quick' else 2500):
        yield _reconnect_case(rng, 'v1' if k % 2 == 0 else 'v2', k // 2)
    for _ in range(n_sm):
        yield _sm_case(rng, tier != 'quick')
    for _ in range(n_pr):
        yield _pr_case(rng)
    for _ in range(n_by):
        yield _by_case(rng, tier)


def shrink(case):
    if case['mode'] == 'ow':
        return
    if case['mode'] == 'rc':
        from props import c17_reconnect as RC
        yield from RC.shrink(case)
        return
    if case['mode'] == 'ds':
        from props import c17_datasets as DS
        yield from DS.shrink(case)
        return
    if case['mode'] == 'by':
        for k in sorted(case['kw']):
            kw = dict(case['kw'])
            del kw[k]
            yield dict(case, kw=kw)
        if len(case['prefix']) > 1:
            yield dict(case, prefix=case['prefix'][:1])
            yield dict(case, prefix=case['prefix'][1:])
        r = case['resp']
        if r['body'] is not None:
            for k in sorted(r['body']):
                b = dict(r['body'])
                del b[k]
                yield dict(case, resp=dict(r, body=b))
            yield dict(case, resp=dict(r, body=None))
        if r['text'] not in (None, 'OK'):
            yield dict(case, resp=dict(r, text='OK'))
        if case['local'] is not None:
            yield dict(case, local=None)
        dflt = {'can_be_prefix': False, 'must_be_fresh': False, 'nonce': 1, 'lifetime': 1000, 'hop_limit': None}
        if case['param'] != dflt:
            yield dict(case, param=dflt)
        return
    if case['mode'] == 'pr':
        if case['body']:
            for k in sorted(case['body']):
                b = dict(case['body'])
                del b[k]
                yield dict(case, body=b)
        if case['text'] not in (None, ''):
            yield dict(case, text='')
        return
    conns = case['conns']
    if len(conns) > 1:
        for i in range(len(conns)):
            yield dict(case, conns=conns[:i] + conns[i + 1:])
    for i, r in enumerate(case['routes']):
        yield dict(case, routes=case['routes'][:i] + case['routes'][i + 1:])
    for ci, c in enumerate(conns):
        for j in range(len(c['calls'])):
            c2 = dict(c, calls=c['calls'][:j] + c['calls'][j + 1:])
            yield dict(case, conns=conns[:ci] + [c2] + conns[ci + 1:])
        if c['early']:
            yield dict(case, conns=conns[:ci] + [dict(c, early=False)] + conns[ci + 1:])
        for key in ('open_fail', 'gap_ms'):
            if c.get(key):
                yield dict(case, conns=conns[:ci] + [{k: v for k, v in c.items() if k != key}] + conns[ci + 1:])
    reps = case['replies']
    for i in range(len(reps)):
        yield dict(case, replies=reps[:i] + reps[i + 1:])
    ok = {'k': 'status', 'code': 200, 'body': True, 'text': 'OK', 'sig': True, 'delay': 0}
    for i, r in enumerate(reps):
        if r != ok:
            if r['k'] == 'status':
                for r2 in (dict(r, delay=0), dict(r, sig=True), dict(r, text='no'), dict(r, body=bool(r['body'])),
                           dict(r, body=True)):
                    if r2 != r:
                        yield dict(case, replies=reps[:i] + [r2] + reps[i + 1:])
            if r['k'] == 'garbage':
                r2 = dict(r, hex='010203', sig=True, delay=0)
                if r2 != r:
                    yield dict(case, replies=reps[:i] + [r2] + reps[i + 1:])
            yield dict(case, replies=reps[:i] + [ok] + reps[i + 1:])
    ck = case['clock']
    for key in ('local', 'route_opts', 'fresh_loops'):
        if key in case:
            yield {k: v for k, v in case.items() if k != key}
    if ck.get('back'):
        yield dict(case, clock={k: v for k, v in ck.items() if k != 'back'})
    if ck['gran'] != 1:
        yield dict(case, clock=dict(ck, gran=1))
    for key in ('post', 'sign'):
        if ck[key]:
            yield dict(case, clock=dict(ck, **{key: []}))
            for i, v in enumerate(ck[key]):
                if v:
                    yield dict(case, clock=dict(ck, **{key: ck[key][:i] + [0] + ck[key][i + 1:]}))
            if ck[key][-1] == 0:
                yield dict(case, clock=dict(ck, **{key: ck[key][:-1]}))
    for ci, c in enumerate(conns):
        for j, (op, p) in enumerate(c['calls']):
            if p != 0:
                c2 = dict(c, calls=c['calls'][:j] + [[op, 0]] + c['calls'][j + 1:])
                yield dict(case, conns=conns[:ci] + [c2] + conns[ci + 1:])


# -------------------------------------------------------------------------------- implementation
class _Clock:
    """millisecond clock = virtual loop time + scripted ticks, floored to the granularity; records the reads made
    by the registration code: label 'g' (registerer / front-end), 's' (the read that is signed)"""

    def __init__(self, loop, spec):
        self.loop, self.gran = loop, spec['gran']
        self.sign, self.post = list(spec['sign']), list(spec['post'])
        self.back = list(spec.get('back') or [])
        self.off = 0
        self.reads = []
        self.nsign = self.npost = self.nback = 0
        self.after_post = False

    def ms(self):
        return (round(self.loop.time() * 1000) + self.off) // self.gran * self.gran

    def time(self):
        return (self.ms() + 0.5) / 1000.0

    def read(self, label):
        if label == 's':
            if self.nsign < len(self.sign):
                self.off += self.sign[self.nsign]
            self.nsign += 1
        elif self.reads and self.reads[-1][0] == 's':
            if self.npost < len(self.post):
                self.off += self.post[self.npost]
            self.npost += 1
            self.after_post = True
        elif self.after_post:
            # the first read of the next command's guard: the clock may have been set back meanwhile
            self.after_post = False
            if self.nback < len(self.back):
                self.off -= self.back[self.nback]
            self.nback += 1
        v = self.ms()
        self.reads.append((label, v))
        return v


class _LoopRef:
    """the event loop in use: every closure of the scenario talks to this; `switch()` ends the current loop the way
    asyncio.run does (remaining tasks cancelled, loop closed) and continues on a new one at the same clock reading
    (+ gap)"""

    def __init__(self, loop):
        object.__setattr__(self, '_cur', loop)

    def __getattr__(self, k):
        return getattr(object.__getattribute__(self, '_cur'), k)

    def __setattr__(self, k, v):
        setattr(object.__getattribute__(self, '_cur'), k, v)

    def switch(self, gap=0.0):
        old = object.__getattribute__(self, '_cur')
        t, errs = old.time(), old.errors
        old.shutdown()
        new = vloop.new_loop()
        new._vt = t + gap
        new.errors = errs
        object.__setattr__(self, '_cur', new)


def _drive(coro):
    """run a coroutine that never really waits (the library's digest checkers)"""
    try:
        coro.send(None)
    except StopIteration as e:
        return e.value
    coro.close()
    raise RuntimeError('checker awaited')


def _decode_command(fe, wire, prefix_names, local=True):
    """decode one emitted command Interest with the library's own decoders; returns
    {verb, pfx (index or None), ts, fmt (None or what is wrong with the format)}"""
    enc, utils, sec, types, nfd_mgmt, *_ = _mods()
    out = {'verb': None, 'pfx': None, 'ts': None, 'fmt': None}
    try:
        name, param, app_param, sig = enc.parse_interest(wire)
    except Exception as e:     # noqa
        out['fmt'] = 'not an Interest: ' + type(e).__name__
        return out, None
    try:
        head = enc.Name.to_str(name[:3])
        verb = bytes(enc.Component.get_value(name[3])).decode()
        out['verb'] = {'register': 'r', 'unregister': 'u'}.get(verb)
        if head != ('/localhost/nfd/rib' if local else '/localhop/nfd/rib') or out['verb'] is None:
            out['fmt'] = 'not a rib register/unregister command name'
            return out, name
        cp = nfd_mgmt.ControlParameters.parse(enc.Component.get_value(name[4]))
        if cp.cp is None or cp.cp.name is None:
            out['fmt'] = 'ControlParameters carry no Name'
            return out, name
        pn = enc.Name.to_bytes(cp.cp.name)
        for i, q in enumerate(prefix_names):
            if bytes(pn) == q:
                out['pfx'] = i
        if param.lifetime != LIFETIME_MS:
            out['lifetime'] = param.lifetime
        out['n32'] = param.nonce
        if fe == 'v2':
            if len(name) != 6 or enc.Component.get_type(name[5]) != enc.Component.TYPE_PARAMETERS_SHA256:
                out['fmt'] = 'v2 command is not <prefix>/<verb>/<params>/<params-sha256>'
            elif sig.signature_info is None or sig.signature_info.signature_type != enc.SignatureType.DIGEST_SHA256:
                out['fmt'] = 'v2 command is not a DigestSha256 signed Interest'
            elif sig.signature_info.signature_time is None or sig.signature_info.signature_nonce is None:
                out['fmt'] = 'signed Interest lacks SignatureTime/SignatureNonce'
            else:
                out['ts'] = sig.signature_info.signature_time
                out['n64'] = sig.signature_info.signature_nonce
                h = hashlib.sha256()
                for blk in sig.digest_covered_part or []:
                    h.update(blk)
                h2 = hashlib.sha256()
                for blk in sig.signature_covered_part or []:
                    h2.update(blk)
                if not sig.digest_covered_part or h.digest() != bytes(sig.digest_value_buf or b''):
                    out['fmt'] = 'ParametersSha256Digest is not the digest of the parameters'
                elif not _drive(sec.params_sha256_checker(name, sig)):
                    out['fmt'] = 'params_sha256_checker rejects the command'
                elif not sig.signature_covered_part or h2.digest() != bytes(sig.signature_value_buf or b''):
                    out['fmt'] = 'InterestSignatureValue is not the SHA-256 of the signed portion'
                elif not _drive(sec.sha256_digest_checker(name, sig)):
                    out['fmt'] = 'sha256_digest_checker rejects the command'
        else:
            if len(name) != 9:
                out['fmt'] = 'legacy command name does not have 9 components'
                return out, name
            tsb, nonce = bytes(enc.Component.get_value(name[5])), bytes(enc.Component.get_value(name[6]))
            if len(tsb) != 8 or len(nonce) != 8:
                out['fmt'] = 'timestamp/nonce components are not 8 bytes'
                return out, name
            out['ts'] = struct.unpack('!Q', tsb)[0]
            out['n64'] = struct.unpack('!Q', nonce)[0]
            si = enc.Component.get_value(name[7])
            sv = bytes(enc.Component.get_value(name[8]))
            si_val = enc.parse_and_check_tl(memoryview(bytes(si)), enc.TypeNumber.SIGNATURE_INFO)
            info = enc.SignatureInfo.parse(si_val)
            if info.signature_type != enc.SignatureType.DIGEST_SHA256:
                out['fmt'] = 'legacy command SignatureInfo is not DigestSha256'
            else:
                h = hashlib.sha256()
                for c in name[:8]:
                    h.update(bytes(c))
                if sv[:2] != bytes([enc.TypeNumber.SIGNATURE_VALUE, 32]) or sv[2:] != h.digest():
                    out['fmt'] = 'legacy command SignatureValue is not the SHA-256 of the preceding components'
    except Exception as e:     # noqa
        out['fmt'] = 'command does not decode: ' + type(e).__name__
    return out, name


def _make_response(nfd_mgmt, enc, code, text, body):
    cr = nfd_mgmt.ControlResponse()
    cr.status_code = code
    cr.status_text = text
    if body is not None:
        cr.body = nfd_mgmt.ControlParametersValue()
        for k, v in body.items():
            if k == 'strategy':
                cr.body.strategy = nfd_mgmt.Strategy()
                cr.body.strategy.name = v
            else:
                setattr(cr.body, k, v)
    inner = bytes(cr.encode())
    buf = bytearray(1 + enc.get_tl_num_size(len(inner)))
    buf[0] = 0x65
    enc.write_tl_num(len(inner), buf, 1)
    return bytes(buf) + inner


def _classify_content(nfd_mgmt, enc, content):
    """what the library's decoder makes of a reply Content: ['s', code, body present] or ['g']"""
    try:
        v = enc.parse_and_check_tl(memoryview(content), 0x65)
        cr = nfd_mgmt.ControlResponse.parse(v)
        return ['s', cr.status_code, cr.body is not None]
    except Exception:     # noqa
        return ['g']


def _run_pr(case):
    enc, utils, sec, types, nfd_mgmt, *_ = _mods()
    body = None
    if case['body'] is not None:
        body = {k: v[1] for k, v in case['body'].items()}
    try:
        wire = _make_response(nfd_mgmt, enc, case['code'], case['text'], body)
    except Exception as e:    # noqa - encoding is C08's business
        return {'mode': 'pr', 'encode_error': type(e).__name__}
    try:
        d = nfd_mgmt.parse_response(wire)
    except Exception as e:    # noqa
        return {'mode': 'pr', 'raised': type(e).__name__}
    out = []
    for k, v in d.items():
        if v is None:
            c = '~'
        elif hasattr(v, 'name') and k == 'strategy':
            c = 'n' + '|'.join(bytes(x).hex() for x in v.name)
        elif isinstance(v, list):
            c = 'n' + '|'.join(bytes(x).hex() for x in v)
        elif isinstance(v, str):
            c = 't' + (v.encode().hex() or '-')
        elif isinstance(v, (bytes, bytearray)):
            c = 't' + (bytes(v).hex() or '-')
        elif hasattr(v, 'value'):
            c = 'u%d' % v.value
        else:
            c = 'u%d' % v
        out.append([k, c])
    return {'mode': 'pr', 'dict': out}


def _kw_py(kw):
    out = {}
    for k, v in kw.items():
        out[k] = [bytes.fromhex(c) for c in v[1]] if v[0] == 'n' else v[1]
    return out


def _dict_obs(d):
    out = []
    for k, v in d.items():
        if v is None:
            c = '~'
        elif hasattr(v, 'name') and k == 'strategy':
            c = 'n' + '|'.join(bytes(x).hex() for x in v.name)
        elif isinstance(v, list):
            c = 'n' + '|'.join(bytes(x).hex() for x in v)
        elif isinstance(v, str):
            c = 't' + (v.encode().hex() or '-')
        elif isinstance(v, (bytes, bytearray)):
            c = 't' + (bytes(v).hex() or '-')
        elif hasattr(v, 'value'):
            c = 'u%d' % v.value
        else:
            c = 'u%d' % v
        out.append([k, c])
    return out


def _run_by(case):
    """make_command_v2 / make_interest with the DigestSha256 signer / make_command / parse_response on the real
    library; SignatureTime, SignatureNonce, timestamp and nonce are what the real calls used (recorded)"""
    import pktcommon as PK
    enc, utils, sec, types, nfd_mgmt, nfd_registerer, sig_mod, ndnlp_v2 = _mods()
    verb = {'r': 'register', 'u': 'unregister'}[case['verb']]
    prefix = [bytes.fromhex(c) for c in case['prefix']]
    kw = _kw_py(case['kw'])
    face = None
    if case['local'] is not None:
        class _F:
            def isLocalFace(self, v=case['local']):
                return v
        face = _F()
    saved = []
    for mod in (sig_mod, nfd_mgmt):
        for attr, val in (('timestamp', case['time']), ('gen_nonce_64', case['nonce64'])):
            if hasattr(mod, attr):
                saved.append((mod, attr, getattr(mod, attr)))
                setattr(mod, attr, (lambda v=val: v))
    out = {'mode': 'by'}
    try:
        try:
            name = nfd_mgmt.make_command_v2('rib', verb, face, name=prefix, **kw)
            out['name'] = ['ok', [bytes(c).hex() for c in name]]
        except Exception as e:    # noqa
            out['name'] = ['err', PK.exc_name(e)]
            name = None
        if name is not None:
            p = case['param']
            rec = PK.Recorder(sec.DigestSha256Signer(for_interest=True))
            try:
                ip = enc.InterestParam(can_be_prefix=p['can_be_prefix'], must_be_fresh=p['must_be_fresh'],
                                       nonce=p['nonce'], lifetime=p['lifetime'], hop_limit=p['hop_limit'])
                wire, fn = enc.make_interest(name, ip, b'', signer=rec, need_final_name=True)
                wire = bytes(wire)
                si = rec.si
                out['interest'] = {'made': ['ok', wire.hex()], 'final_name': [bytes(c).hex() for c in fn],
                                   'covered': b''.join(rec.covered).hex(),
                                   'si': [si.signature_type, si.key_locator is None, si.signature_nonce,
                                          si.signature_time, si.signature_seq_num],
                                   'parsed': PK.parse_packet('interest', wire)}
                try:
                    iname, _ip, _ap, sp = enc.parse_interest(wire)
                    out['interest']['checkers'] = [bool(_drive(sec.params_sha256_checker(iname, sp))),
                                                   bool(_drive(sec.sha256_digest_checker(iname, sp)))]
                    out['interest']['decoded'] = _decode_command('v2', wire, [bytes(enc.Name.to_bytes(prefix))], case['local'] is not False)[0]
                except Exception as e:    # noqa
                    out['interest']['checkers'] = ['err', PK.exc_name(e)]
            except Exception as e:    # noqa
                out['interest'] = {'made': ['err', PK.exc_name(e)]}
            try:
                ln = nfd_mgmt.make_command('rib', verb, face, name=prefix, **kw)
                comps = [bytes(c) for c in ln]
                out['legacy'] = ['ok', [c.hex() for c in comps]]
                if len(comps) == 9:
                    tsb, nb = bytes(enc.Component.get_value(comps[5])), bytes(enc.Component.get_value(comps[6]))
                    if len(tsb) == 8 and len(nb) == 8:
                        out['legacy_ts'] = [struct.unpack('!Q', tsb)[0], struct.unpack('!Q', nb)[0]]
                    lw = bytes(enc.make_interest(ln, enc.InterestParam(lifetime=LIFETIME_MS)))
                    out['legacy_decoded'] = _decode_command('v1', lw, [bytes(enc.Name.to_bytes(prefix))], case['local'] is not False)[0]
            except Exception as e:    # noqa
                out['legacy'] = ['err', PK.exc_name(e)]
    finally:
        for mod, attr, val in saved:
            setattr(mod, attr, val)
    r = case['resp']
    body = None if r['body'] is None else _kw_py(r['body'])
    try:
        rw = _make_response(nfd_mgmt, enc, r['code'], r['text'], body)
        out['resp_wire'] = ['ok', rw.hex()]
        try:
            out['resp_dict'] = ['ok', _dict_obs(nfd_mgmt.parse_response(rw))]
        except Exception as e:    # noqa
            out['resp_dict'] = ['err', PK.exc_name(e)]
    except Exception as e:    # noqa
        out['resp_wire'] = ['err', PK.exc_name(e)]
    return out


def run_impl(case):
    if case['mode'] == 'ow':
        from props import c17_openwindow as OW
        return OW.run(case)
    if case['mode'] == 'rc':
        from props import c17_reconnect as RC
        return RC.run(case)
    if case['mode'] == 'ds':
        from props import c17_datasets as DS
        return DS.run(case)
    if case['mode'] == 'pr':
        return _run_pr(case)
    if case['mode'] == 'by':
        return _run_by(case)
    enc, utils, sec, types, nfd_mgmt, nfd_registerer, sig_mod, ndnlp_v2 = _mods()
    import apphelp
    fe = case['fe']
    loop = _LoopRef(vloop.new_loop())
    loop._vt = 1000.0
    clock = _Clock(loop, case['clock'])
    t0 = clock.ms()
    prefix_names = [bytes(enc.Name.to_bytes(p)) for p in PREFIXES]
    log = []            # ('C', cmd index) | ('call', id, op, pfx) | ('ret', id, result)
    cmds = []           # decoded commands

    class _T:
        time = staticmethod(clock.time)

    class _RegUtils:
        timestamp = staticmethod(lambda: clock.read('g'))

        def __getattr__(self, k):
            return getattr(utils, k)

    from ndn import app as appv1, appv2
    saved = [(utils, 'time', utils.time), (nfd_registerer, 'utils', nfd_registerer.utils),
             (sig_mod, 'timestamp', sig_mod.timestamp), (nfd_mgmt, 'timestamp', nfd_mgmt.timestamp)]
    if hasattr(appv1, 'timestamp'):
        saved.append((appv1, 'timestamp', appv1.timestamp))
    utils.time = _T
    nfd_registerer.utils = _RegUtils()
    sig_mod.timestamp = lambda: clock.read('s')
    nfd_mgmt.timestamp = lambda: clock.read('s')
    if hasattr(appv1, 'timestamp'):
        appv1.timestamp = lambda: clock.read('g')

    MemFace = apphelp.make_face_class()

    is_local = case.get('local', True)
    # the front-end derives the waiting time from two clock readings: it can end early by one clock step
    slack = 5 + case['clock']['gran']

    class Face(MemFace):
        def __init__(self):
            super().__init__()
            self.running = False
            self.fail_open = False

        async def open(self):
            if self.fail_open:
                self.fail_open = False
                raise ConnectionRefusedError('scripted')
            self.running = True

        def isLocalFace(self):
            return is_local

        def send(self, data):
            wire = bytes(data)
            self.sent.append(wire)
            d, name = _decode_command(fe, wire, prefix_names, is_local)
            d['at'] = round(loop.time() * 1000)
            d['wire'], d['name'] = wire, name
            d['outstanding'] = sum(1 for c in cmds if not c.get('closed')
                                   and not ('deadline' in c and c['deadline'] - slack <= d['at']))
            cmds.append(d)
            log.append(['C', len(cmds) - 1])

    res = {'mode': 'sm', 'stuck': False}
    try:
        face = Face()
        if fe == 'v2':
            app = appv2.NDNApp(face=face, registerer=nfd_registerer.NfdRegister())
        else:
            from ndn.security import KeychainDigest
            app = appv1.NDNApp(face=face, keychain=KeychainDigest())
        ncall = [0]

        def wrap(opname, short):
            orig = getattr(app, opname)

            async def w(name, *a, **k):
                cid = ncall[0]
                ncall[0] += 1
                pn = bytes(enc.Name.to_bytes(name))
                log.append(['call', cid, short, prefix_names.index(pn) if pn in prefix_names else None])
                try:
                    r = await orig(name, *a, **k)
                except BaseException as e:      # noqa
                    log.append(['ret', cid, '!' + type(e).__name__])
                    raise
                log.append(['ret', cid, r if isinstance(r, bool) else repr(r)])
                return r
            setattr(app, opname, w)
        wrap('register', 'r')
        wrap('unregister', 'u')

        async def _pass(*a, **k):
            return types.ValidResult.PASS
        for ri, p in enumerate(case['routes']):
            opts = case['route_opts'][ri] if 'route_opts' in case else None
            if opts is None:
                app.route(PREFIXES[p])(lambda *a, **k: None)
            elif fe == 'v2':
                app.route(PREFIXES[p], validator=_pass if opts[0] else None)(lambda *a, **k: None)
            else:
                app.route(PREFIXES[p], validator=_pass if opts[0] else None, need_raw_packet=opts[1],
                          need_sig_ptrs=opts[2])(lambda *a, **k: None)

        events = []        # what happened, in the model's vocabulary
        ev_cmd = []        # for every event: the index of the command it answers (None for calls / connections)

        def ev(e, ci=None):
            events.append(e)
            ev_cmd.append(ci)
        causes = {}        # call id -> list of reply kinds that can have ended it
        replies = list(case['replies'])
        default = {'k': 'status', 'code': 200, 'body': True, 'text': 'OK', 'sig': True, 'delay': 0}
        pending = []       # [due ms, cmd index, spec]
        late_q = []        # [due ms, cmd index, spec]: answers that arrive after the command's lifetime is over
        handled = [0]
        seen_log = [0]

        def note_rets(kinds):
            for e in log[seen_log[0]:]:
                if e[0] == 'ret':
                    causes[e[1]] = kinds
            seen_log[0] = len(log)

        def assign():
            while handled[0] < len(cmds):
                i = handled[0]
                handled[0] += 1
                spec = replies.pop(0) if replies else dict(default)
                cmds[i]['spec'] = spec
                if spec['k'] in ('timeout', 'late') or cmds[i]['name'] is None:
                    life = cmds[i].get('lifetime') or LIFETIME_MS      # the InterestLifetime the command carries
                    cmds[i]['deadline'] = cmds[i]['at'] + life
                    if spec['k'] == 'late' and cmds[i]['name'] is not None:
                        late_q.append([cmds[i]['at'] + life + spec['after'], i, spec])
                else:
                    pending.append([cmds[i]['at'] + spec['delay'], i, spec])

        def deliver(i, spec):
            c = cmds[i]
            if spec['k'] == 'nack':
                wire = bytes(ndnlp_v2.make_network_nack(c['wire'], spec['reason']))
                kind, typ = ['n'], 0x64
            else:
                if spec['k'] == 'status':
                    bp = c['pfx'] or 0
                    if spec['body'] == 'other':
                        bp = (bp + 1) % len(PREFIXES)
                    content = _make_response(nfd_mgmt, enc, spec['code'], spec['text'],
                                             {} if spec['body'] == 'empty' else {'name': PREFIXES[bp]} if spec['body'] else None)
                else:
                    content = None if spec['hex'] is None else bytes.fromhex(spec['hex'])
                wire = bytearray(enc.make_data(c['name'], enc.MetaInfo(), content, signer=sec.DigestSha256Signer()))
                if not spec['sig']:
                    wire[-1] ^= 0x01
                wire = bytes(wire)
                kind = _classify_content(nfd_mgmt, enc, content) + [spec['sig']]
                typ = 0x06
            c['closed'] = True
            c['reply'] = kind
            # the model is handed the bytes of the Data packet itself (a Nack stays an event: its envelope is C10's)
            ev(['k'] + kind if typ == 0x64 else ['d', wire.hex()] + kind, i)
            note_rets(None)
            loop.create_task(face.callback(typ, wire))
            loop.settle()
            note_rets([kind])

        def deliver_late(i, spec):
            # the answer to a command whose lifetime ended some time ago: nobody is waiting for it any more
            c = cmds[i]
            content = _make_response(nfd_mgmt, enc, spec['code'], 'OK', {'name': PREFIXES[c['pfx'] or 0]})
            wire = bytes(enc.make_data(c['name'], enc.MetaInfo(), content, signer=sec.DigestSha256Signer()))
            c['late_delivered'] = True
            note_rets(None)
            loop.create_task(face.callback(0x06, wire))
            loop.settle()
            note_rets([['late']])

        def tasks_done(ts):
            return all(t.done() for t in ts)

        def pump(ts, limit=600):
            for _ in range(limit):
                loop.settle()
                assign()
                now = round(loop.time() * 1000)
                # commands whose lifetime is over
                over = [c for c in cmds if not c.get('closed') and 'deadline' in c and c['deadline'] <= now]
                for c in over:
                    c['closed'] = True
                    c['reply'] = ['t']
                    ev(['k', 't'], cmds.index(c))
                if over:
                    note_rets([['t']])
                    continue
                if any(e[0] == 'ret' for e in log[seen_log[0]:]):
                    # somebody returned although nothing was delivered: a lifetime that ended a little early
                    # (the clock ticked between the two reads the front-end derives it from), or a real defect
                    late = [c for c in cmds if not c.get('closed') and 'deadline' in c and c['deadline'] - slack <= now]
                    for c in late:
                        c['closed'] = True
                        c['reply'] = ['t']
                        ev(['k', 't'], cmds.index(c))
                    note_rets([['t']] if late else None)
                    continue
                due = sorted(p for p in pending if p[0] <= now)
                if due:
                    pending.remove(due[0])
                    deliver(due[0][1], due[0][2])
                    continue
                due = sorted(p for p in late_q if p[0] <= now and cmds[p[1]].get('closed'))
                if due:
                    late_q.remove(due[0])
                    deliver_late(due[0][1], due[0][2])
                    continue
                nt = loop._next_timer()
                if tasks_done(ts) and not pending and not late_q and all(c.get('closed') for c in cmds):
                    if nt is not None and nt <= loop.time() + 0.05:
                        loop.advance(nt)      # somebody sleeps in the guard loop
                        continue
                    return True
                nxt = [p[0] / 1000.0 for p in pending + late_q] + [c['deadline'] / 1000.0 for c in cmds
                                                                 if not c.get('closed') and 'deadline' in c]
                if nt is not None and nt < loop.time() + 5:
                    nxt.append(nt)
                if not nxt:
                    return False
                loop.advance(max(min(nxt), loop.time()))
            return False

        dummy = (lambda *a, **k: None)
        user_tasks = []
        conn_marks = []
        fresh = bool(case.get('fresh_loops'))
        for ci, conn in enumerate(case['conns']):
            if ci:
                if fresh:
                    loop.switch(conn.get('gap_ms', 0) / 1000.0)
                    note_rets([['x']])
                elif conn.get('gap_ms'):
                    loop.advance(loop.time() + conn['gap_ms'] / 1000.0)
            for _ in range(conn.get('open_fail', 0)):
                # a connection attempt that fails in face.open(): main_loop raises, nothing is connected
                face.fail_open = True
                att = loop.create_task(app.main_loop())
                loop.settle()
                try:
                    exc = att.exception() if att.done() and not att.cancelled() else 'pending'
                except BaseException as e:    # noqa
                    exc = e
                res.setdefault('failed_open', []).append(exc if isinstance(exc, str) else type(exc).__name__)
                if not att.done():
                    att.cancel()
                    loop.settle()
                if fresh:
                    loop.switch(0.001)
            conn_marks.append(len(cmds))
            main = loop.create_task(app.main_loop())
            ev(['o'] + list(case['routes']))
            log.append(['K'])
            loop.settle()

            def issue():
                ts = []
                for op, p in conn['calls']:
                    name = PREFIXES[p]
                    if op == 'r':
                        coro = app.register(name) if fe == 'v2' else app.register(name, None)
                    elif fe == 'v1':
                        async def un(name=name):
                            nn = enc.Name.normalize(name)
                            # with and without a callback to remove (register(name, None) installs none; fixed in
                            # /repo: unregister no longer raises KeyError then)
                            if nn not in app._prefix_tree and (len(events) + p) % 2:
                                app.set_interest_filter(nn, dummy)
                            return await app.unregister(name)
                        coro = un()
                    else:
                        coro = app.unregister(name)
                    ev(['c', op, p])
                    ts.append(loop.create_task(coro))
                loop.settle()
                return ts
            ok = True
            if not conn['early']:
                ok = pump([])
                # the starting task has finished when no command is open and nothing is queued
            ts = issue()
            user_tasks.extend(ts)
            ok = pump(ts) and ok
            if not ok:
                res['stuck'] = True
            main.cancel()
            loop.settle()
            note_rets([['x']])
            try:
                main_exc = main.exception() if main.done() and not main.cancelled() else None
            except BaseException as e:    # noqa
                main_exc = e
            res.setdefault('main', []).append(type(main_exc).__name__ if main_exc else None)
            for t in ts:
                if t.done() and not t.cancelled():
                    t.exception()     # mark retrieved
        res.update({
            't0': t0, 'events': events, 'ev_cmd': ev_cmd, 'log': log, 'conn_marks': conn_marks,
            'cmds': [dict({k: c.get(k) for k in ('verb', 'pfx', 'ts', 'fmt', 'at', 'outstanding', 'reply', 'lifetime',
                                                 'late_delivered', 'n32', 'n64')}, wire=c['wire'].hex())
                     for c in cmds],
            'local': is_local, 'fe': fe,
            'causes': [[k, v] for k, v in sorted(causes.items())],
            'reads': [list(r) for r in clock.reads],
            'last': getattr(app.registerer if fe == 'v2' else app, '_last_command_timestamp', None),
            'loop_errors': [list(e) for e in loop.errors],
        })
        return res
    finally:
        for mod, attr, val in saved:
            setattr(mod, attr, val)
        loop.shutdown()


# ------------------------------------------------------------------------------------- model
def _streams(impl):
    """advances between consecutive reads, split by the role of the read (repaired control flow:
    first guard read, reads after a sleep, the signed read, the re-read)"""
    ticks, sleeps, signs, posts = [], [], [], []
    prev, role = impl['t0'], None
    for label, v in impl['reads']:
        inc = v - prev
        prev = v
        if inc < 0:
            return None
        if label == 's':
            role = 'sign'
            signs.append(inc)
        elif role == 'sign':
            role = 'post'
            posts.append(inc)
        elif role in ('tick', 'sleep'):
            role = 'sleep'
            sleeps.append(inc)
        else:
            role = 'tick'
            ticks.append(inc)
    return ticks, sleeps, signs, posts


def _nl(l):
    return ','.join(str(x) for x in l) if l else '.'


# For replaying the legacy front-end of an OLDER tree against its configuration of the model (the checks run the
# repaired configuration): VERIF_C17_LEGACY_CFG=v1p (before C17-5: unregister outside the command lock, no timestamp
# guard; response fixes in) or v1u (the unchanged tree).  The line is the state machine alone (`sm`), reply kinds
# instead of reply bytes; the answer to a command that is in flight outside the lock is addressed by its position
# among those commands (`f:<i>:…`).
LEGACY_CFG = os.environ.get('VERIF_C17_LEGACY_CFG')


def _sm_line_cfg(impl, st, cfg):
    toks, free, nu = [], [], 0
    unreg = [i for i, c in enumerate(impl['cmds']) if c['verb'] == 'u']
    for e, ci in zip(impl['events'], impl['ev_cmd']):
        if e[0] == 'o':
            toks.append('o:' + '|'.join(str(p) for p in e[1:]))
            continue
        if e[0] == 'c':
            toks.append(f'c:{e[1]}:{e[2]}')
            if e[1] == 'u' and nu < len(unreg):
                free.append(unreg[nu])
                nu += 1
            continue
        kind = e[2:] if e[0] == 'd' else e[1:]
        if kind[0] == 's':
            t = f"s:{'~' if kind[1] is None else kind[1]}:{int(kind[2])}:{int(kind[3])}"
        elif kind[0] == 'g':
            t = f'g:{int(kind[1])}'
        else:
            t = kind[0]
        if ci in free:
            toks.append(f'f:{free.index(ci)}:{t}')
            free.remove(ci)
        else:
            toks.append('k:' + t)
    return f"C17 sm {cfg} {impl['t0']} {_nl(st[0])} {_nl(st[1])} {_nl(st[2])} {_nl(st[3])} {';'.join(toks) or '.'}"


def _cpv_text(fields):
    """the sixteen ControlParametersValue values in the text format of the codec driver"""
    import tlvschema as T
    vals = []
    for k in CPV_FIELDS:
        v = fields.get(k)
        if v is None:
            vals.append(None)
        elif v[0] == 'u':
            vals.append(('u', v[1]))
        elif v[0] == 't':
            vals.append(('y', v[1].encode()))
        elif k == 'strategy':
            vals.append(('m', [('n', [bytes.fromhex(c) for c in v[1]])]))
        else:
            vals.append(('n', [bytes.fromhex(c) for c in v[1]]))
    return T.values_text(vals)


def _by_line(case, impl):
    import tlvschema as T
    loc = 'h' if case['local'] is False else 'l'
    verb = {'r': b'register', 'u': b'unregister'}[case['verb']].hex()
    cpv = _cpv_text(dict(case['kw'], name=['n', case['prefix']]))
    qs = [f'cn {loc} {b"rib".hex()} {verb} {cpv}']
    if impl['name'][0] == 'ok':
        p = case['param']
        mid = [('b',) if p['can_be_prefix'] else None, ('b',) if p['must_be_fresh'] else None, None,
               None if p['nonce'] is None else ('u', p['nonce']), None if p['lifetime'] is None else ('u', p['lifetime']),
               None if p['hop_limit'] is None else ('u', p['hop_limit'])]
        si = impl.get('interest', {}).get('si')
        t, n = (si[3], si[2]) if si and si[2] is not None and si[3] is not None else (case['time'], case['nonce64'])
        qs.append(f"ci {','.join(impl['name'][1])} {T.values_text(mid)} {t} {n}")
        ts, nn = impl.get('legacy_ts', [case['time'], case['nonce64']])
        qs.append(f'lc {loc} {b"rib".hex()} {verb} {cpv} {ts} {nn}')
    r = case['resp']
    code = '~' if r['code'] is None else str(r['code'])
    text = '~' if r['text'] is None else (r['text'].encode().hex() or '-')
    qs.append(f"pre {code} {text} {'~' if r['body'] is None else _cpv_text(r['body'])}")
    if impl['resp_wire'][0] == 'ok':
        qs.append(f"prb {impl['resp_wire'][1]}")
    return 'C17 ' + ' ;; '.join(qs)


def model_line(case, impl):
    if case['mode'] in ('ow', 'rc', 'ds'):
        return None
    if case['mode'] == 'by':
        return _by_line(case, impl)
    if case['mode'] == 'pr':
        if 'encode_error' in impl:
            return None

        def val(v):
            if v[0] == 'u':
                return 'u%d' % v[1]
            if v[0] == 't':
                return 't' + (v[1].encode().hex() or '-')
            from ndn import encoding as enc
            return 'n' + '|'.join(bytes(c).hex() for c in enc.Name.normalize(v[1]))
        body = case['body']
        b = '~' if body is None else (','.join(f'{k}={val(v)}' for k, v in body.items()) or '.')
        code = '~' if case['code'] is None else str(case['code'])
        text = '~' if case['text'] is None else (case['text'].encode().hex() or '-')
        return f'C17 pr {code} {text} {b}'
    st = _streams(impl)
    if st is None:
        return None
    if case['fe'] == 'v1' and LEGACY_CFG:
        return _sm_line_cfg(impl, st, LEGACY_CFG)
    # the composed model: it is handed the reply BYTES and answers with the command BYTES.  The random numbers of the
    # k-th command (Interest Nonce, SignatureNonce / nonce component) are inputs, read from the command the real run
    # sent; the timestamp is not: the model computes it from the clock readings.
    from ndn import encoding as enc
    toks = []
    for e in impl['events']:
        if e[0] == 'o':
            toks.append('o:' + '|'.join(str(p) for p in e[1:]))
        elif e[0] == 'c':
            toks.append(f'c:{e[1]}:{e[2]}')
        elif e[0] == 'd':
            toks.append('d:' + (e[1] or '-'))
        else:
            toks.append('k:' + e[1])
    fe = 'v2' if case['fe'] == 'v2' else 'v1'
    pfx = '|'.join(','.join(bytes(c).hex() for c in enc.Name.normalize(p)) or '.' for p in PREFIXES)
    n32 = [c.get('n32') or 0 for c in impl['cmds']]
    n64 = [c.get('n64') or 0 for c in impl['cmds']]
    return (f"C17 smw {fe} {'l' if impl.get('local', True) else 'h'} {impl['t0']} {_nl(st[0])} {_nl(st[1])} {_nl(st[2])} "
            f"{_nl(st[3])} {pfx} {_nl(n32)} {_nl(n64)} {';'.join(toks) or '.'}")


def _hexlist(x):
    return [] if x == '.' else ['' if c == '-' else c for c in x.split(',')]


def _by_model_obs(answer, case, impl):
    parts = answer.split(' ;; ')
    it = iter(parts)

    def name_res(a):
        if a.startswith('err '):
            return ['err', a[4:]]
        assert a.startswith('ok '), a
        return ['ok', _hexlist(a[3:])]
    out = {'name': name_res(next(it))}
    if impl['name'][0] == 'ok':
        a = next(it)
        if a.startswith('err '):
            out['interest'] = {'made': ['err', a[4:]]}
        else:
            left, right = a.split(' | ')
            d = dict(t.split('=', 1) for t in left.split()[1:])
            io = {'made': ['ok', '' if d['W'] == '-' else d['W']], 'final_name': _hexlist(d['N']),
                  'covered': '' if d['C'] == '-' else d['C']}
            rt = right.split()
            if rt[0] == 'ok':
                e = dict(t.split('=', 1) for t in rt[1:])
                io.update({'SC': _hexlist(e['SC']), 'SV': None if e['SV'] == '~' else e['SV'], 'DC': _hexlist(e['DC']),
                           'DV': None if e['DV'] == '~' else e['DV'], 'checkers': [e['PC'] == '1', e['VS'] == '1']})
            else:
                io['parse_err'] = rt[1]
            out['interest'] = io
        out['legacy'] = name_res(next(it))
    a = next(it)
    out['resp_wire'] = ['err', a[4:]] if a.startswith('err ') else ['ok', a[3:]]
    if impl['resp_wire'][0] == 'ok':
        a = next(it)
        out['resp_dict'] = ['err', a[4:]] if a.startswith('err ') else ['ok', [kv.split('=') for kv in a[3:].split(',')]]
    return out


def _by_impl_obs(impl):
    out = {'name': impl['name']}
    if impl['name'][0] == 'ok':
        i = impl['interest']
        if i['made'][0] == 'err':
            out['interest'] = {'made': i['made']}
        else:
            io = {'made': i['made'], 'final_name': i['final_name'], 'covered': i['covered']}
            p = i['parsed']
            if p['res'] == 'ok':
                io.update({'SC': p['SC'], 'SV': p['SV'], 'DC': p['DC'], 'DV': p['DV'], 'checkers': i.get('checkers')})
            else:
                io['parse_err'] = p['err']
            out['interest'] = io
        out['legacy'] = impl['legacy']
    out['resp_wire'] = impl['resp_wire']
    if impl['resp_wire'][0] == 'ok':
        out['resp_dict'] = impl['resp_dict']
    return out


def model_obs(answer, case, impl):
    if case['mode'] == 'by':
        return _by_model_obs(answer, case, impl)
    if case['mode'] == 'pr':
        if answer.startswith('err '):
            return {'raised': answer[4:]}
        assert answer.startswith('ok '), answer
        return {'dict': [kv.split('=') for kv in answer[3:].split(',')]}
    assert answer.startswith('ok'), answer
    body, tail = answer[2:].rsplit('#', 1)
    used = [int(x) for x in tail.split(',')]
    trace = []
    for tok in body.split():
        if tok[0] == 'C':
            head, ts = tok.split('@')
            _, verb, pfx, _ = head.split(':')
            ts, wire = (ts.split('=') + [None])[:2]
            trace.append(['C', verb, int(pfx), int(ts), '' if wire == '-' else wire])
        elif tok[0] == 'R':
            cid, r = tok[1:].split('=')
            trace.append(['R', int(cid), {'T': True, 'F': False}.get(r, r)])
        else:
            trace.append([tok])
    st = _streams(impl)
    if case['fe'] == 'v1' and LEGACY_CFG:
        # the state machine alone: no wires to compare; `_last_command_timestamp` is not kept by these trees
        return {'trace': [t[:4] if t[0] == 'C' else t for t in trace], 'reads_used': used[:4] == [len(x) for x in st]}
    return {'trace': trace, 'reads_used': used[:4] == [len(x) for x in st], 'last': used[4]}


def impl_obs(impl):
    if impl['mode'] == 'sm' and LEGACY_CFG and impl.get('fe') == 'v1':
        trace = []
        for e in impl['log']:
            if e[0] == 'C':
                c = impl['cmds'][e[1]]
                trace.append(['C', c['verb'], c['pfx'], c['ts']])
            elif e[0] == 'ret':
                trace.append(['R', e[1], e[2]])
            elif e[0] == 'K':
                trace.append(['K'])
        return {'trace': trace, 'reads_used': True}
    if impl['mode'] == 'by':
        return _by_impl_obs(impl)
    if impl['mode'] == 'pr':
        if 'raised' in impl:
            return {'raised': impl['raised']}
        return {'dict': impl.get('dict')}
    trace = []
    for e in impl['log']:
        if e[0] == 'C':
            c = impl['cmds'][e[1]]
            trace.append(['C', c['verb'], c['pfx'], c['ts'], c['wire']])
        elif e[0] == 'ret':
            trace.append(['R', e[1], e[2]])
        elif e[0] == 'K':
            trace.append(['K'])
    return {'trace': trace, 'reads_used': True, 'last': impl['last']}


# ------------------------------------------------------------------------------------- oracle
def _answers_200(fe, kind):
    """the forwarder answered with status 200 (on the front-end that validates replies: in a Data packet whose
    signature verifies)"""
    return kind[0] == 's' and kind[1] == 200 and (fe == 'v2' or kind[3])


def _kind_text(kind):
    if kind[0] == 's':
        return f"status {kind[1]} {'with' if kind[2] else 'without'} body" + ('' if kind[3] else ', broken signature')
    return {'n': 'Nack', 't': 'timeout', 'x': 'shutdown', 'g': 'undecodable response'}[kind[0]]


def _resp_oracle(code, text, body, pairs):
    """decoding a management response returns the fields that were encoded"""
    from ndn import encoding as enc
    d = dict((k, v) for k, v in pairs)
    exp = {'status_code': '~' if code is None else 'u%d' % code,
           'status_text': '~' if text is None else 't' + (text.encode().hex() or '-')}
    for k, v in (body or {}).items():
        if v[0] == 'u':
            exp[k] = 'u%d' % v[1]
        elif v[0] == 't':
            exp[k] = 't' + (v[1].encode().hex() or '-')
        elif isinstance(v[1], list):
            exp[k] = 'n' + '|'.join(v[1])
        else:
            exp[k] = 'n' + '|'.join(bytes(c).hex() for c in enc.Name.normalize(v[1]))
    for k, v in exp.items():
        if d.get(k) != v:
            return f'decoded field {k} = {d.get(k)} but {v} was encoded'
    for k, v in d.items():
        if k not in exp and v != '~':
            return f'decoded field {k} = {v} was never encoded'
    return None


def _by_oracle(case, impl):
    """one command of each format built for (verb, prefix): names the prefix, correctly signed; and one response"""
    fits = all(v[0] != 'u' or v[1] < 2 ** 64 for v in case['kw'].values())
    if impl['name'][0] == 'err':
        if fits:
            return f"building the command name raised {impl['name'][1]}"
    else:
        i = impl['interest']
        if i['made'][0] == 'err':
            return f"signing the command Interest raised {i['made'][1]}"
        for what, d in (('v2', i.get('decoded')), ('legacy', impl.get('legacy_decoded'))):
            if d is None:
                return f'{what} command could not be built or decoded: {impl.get("legacy") if what == "legacy" else i.get("checkers")}'
            if d['fmt']:
                return f'{what} command: {d["fmt"]}'
            if d['verb'] != case['verb']:
                return f'{what} command carries verb {d["verb"]}, requested {case["verb"]}'
            if d['pfx'] != 0:
                return f'{what} command: control parameters do not name the requested prefix'
        if i.get('checkers') != [True, True]:
            return f'the library\'s own digest/signature checkers do not accept the v2 command: {i.get("checkers")}'
    r = case['resp']
    if impl['resp_wire'][0] == 'ok':
        if impl['resp_dict'][0] == 'err':
            return (f"decoding a management response {'without body ' if r['body'] is None else ''}"
                    f"raised {impl['resp_dict'][1]}")
        return _resp_oracle(r['code'], r['text'], r['body'], impl['resp_dict'][1])
    return None


def oracle(case, impl):
    if case['mode'] == 'ow':
        from props import c17_openwindow as OW
        return OW.oracle(case, impl)
    if case['mode'] == 'rc':
        from props import c17_reconnect as RC
        return RC.oracle(case, impl)
    if case['mode'] == 'ds':
        from props import c17_datasets as DS
        return DS.oracle(case, impl)
    """the property statement, evaluated on the implementation's observable behaviour only"""
    if case['mode'] == 'pr':
        if 'encode_error' in impl:
            return None
        if 'raised' in impl:
            return f"decoding a management response {'without body ' if case['body'] is None else ''}raised {impl['raised']}"
        return _resp_oracle(case['code'], case['text'], case['body'], impl['dict'])
    if case['mode'] == 'by':
        return _by_oracle(case, impl)
    fe = case['fe']
    cmds, log = impl['cmds'], impl['log']
    calls = {e[1]: e for e in log if e[0] == 'call'}
    rets = {e[1]: e[2] for e in log if e[0] == 'ret'}
    causes = {k: v for k, v in impl['causes']}
    # 1. every command is a well-formed, correctly signed command of the front-end in use
    for i, c in enumerate(cmds):
        if c['fmt']:
            return f'command {i}: {c["fmt"]}'
        if c['pfx'] is None:
            return f'command {i}: control parameters do not name a requested prefix'
    # 2. success iff status 200; failures do not raise
    for cid, kinds in causes.items():
        r = rets.get(cid)
        op = 'register' if calls[cid][2] == 'r' else 'unregister'
        if kinds is None:
            return f'{op} returned {r} before the forwarder answered'
        kind = kinds[0]
        if kind[0] == 'x':
            continue
        if kind[0] == 'late':
            return (f'{op} returned {r} when an answer arrived that belongs to a command whose lifetime had ended '
                    f'(each call has exactly one command and is decided by the answer to that command)')
        want = _answers_200(fe, kind)
        if kind[0] == 'g':
            if r is True:
                return f'{op} reported success although the forwarder answered with an {_kind_text(kind)}'
            continue
        if isinstance(r, str) and r.startswith('!'):
            return f'{op} raised {r[1:]} when the forwarder answered with {_kind_text(kind)}'
        if kind[0] == 's' and kind[1] == 200 and not kind[3] and isinstance(r, bool):
            continue      # status 200 in a Data that does not verify: success or validation failure, both allowed
        if r is not want:
            return f'{op} returned {r} when the forwarder answered with {_kind_text(kind)}'
    # 3. exactly one command per requested operation, naming its prefix; routes once per connection
    marks = impl['conn_marks'] + [len(cmds)]
    for ci in range(len(impl['conn_marks'])):
        sent = sorted([c['verb'], c['pfx']] for c in cmds[marks[ci]:marks[ci + 1]])
        want = sorted([[op, p] for op, p in case['conns'][ci]['calls']] + [['r', p] for p in case['routes']])
        for p in case['routes']:
            n = sent.count(['r', p])
            if n != 1:
                return (f'connection {ci}: a route declared before connecting was '
                        f'{"never registered" if n == 0 else "registered more than once"} on this connection')
        if sent != want:
            return f'connection {ci}: commands sent {sent} are not one command per requested operation {want}'
    for cid in calls:
        if cid not in rets and not impl['stuck']:
            return f'call {cid} never returned'
    # 4. one at a time
    for i, c in enumerate(cmds):
        if c['outstanding']:
            return f'command {i} was sent while {c["outstanding"]} earlier command(s) were still unanswered'
    # 5. strictly increasing timestamps (clock hypothesis: the clock advances across a 1 ms sleep)
    if case['clock']['gran'] == 1:
        for i in range(1, len(cmds)):
            if not cmds[i - 1]['ts'] < cmds[i]['ts']:
                return (f'command {i} carries timestamp {cmds[i]["ts"] - impl["t0"]} (ms after start) and command {i - 1} '
                        f'carries {cmds[i - 1]["ts"] - impl["t0"]}: not strictly increasing')
    if impl['stuck']:
        return 'the scenario did not come to rest'
    return None


def nontrivial(case, impl):
    if case['mode'] in ('ow', 'rc'):
        return True
    if case['mode'] == 'ds':
        from props import c17_datasets as DS
        return DS.nontrivial(case, impl)
    if case['mode'] == 'by':
        return bool(case['kw']) or len(case['prefix']) >= 2
    if case['mode'] == 'pr':
        return bool(case['body'])
    return len(impl['cmds']) >= 2 or any(c.get('reply') and not (c['reply'][0] == 's' and c['reply'][1] == 200)
                                         for c in impl['cmds'])


def tags(case, impl):
    if case['mode'] == 'ow':
        return ['mode:ow', 'fe:' + case['fe']]
    if case['mode'] == 'rc':
        from props import c17_reconnect as RC
        return RC.tags(case, impl)
    if case['mode'] == 'ds':
        from props import c17_datasets as DS
        return DS.tags(case, impl)
    if case['mode'] == 'by':
        t = ['by', 'by-kw:%d' % len(case['kw']), 'by-local:%s' % case['local'], 'by-comps:%d' % min(len(case['prefix']), 5),
             'by-name-' + impl['name'][0], 'by-resp-' + impl['resp_wire'][0],
             'by-resp-body-absent' if case['resp']['body'] is None else 'by-resp-fields:%d' % len(case['resp']['body'])]
        if sum(len(c) for c in case['prefix']) // 2 >= 200:
            t.append('by-long-prefix')
        return t
    if case['mode'] == 'pr':
        return ['pr', 'pr-body-absent' if case['body'] is None else 'pr-fields:%d' % len(case['body'])]
    t = ['sm-' + case['fe'], 'cmds:%d' % min(len(impl['cmds']), 9), 'gran:%d' % case['clock']['gran']]
    for c in impl['cmds']:
        r = c.get('reply')
        if r:
            t.append('reply:' + (r[0] if r[0] != 's' else ('s200' if r[1] == 200 else 's-other') +
                                 ('' if r[2] else '-nobody') + ('' if r[3] else '-badsig')))
    for e in impl['log']:
        if e[0] == 'ret':
            t.append('ret:' + str(e[2]))
    st = _streams(impl)
    if st and st[1]:
        t.append('guard-slept')
    if st and any(st[2]):
        t.append('tick-before-sign')
    for m in impl.get('main', []):
        if m:
            t.append('main_loop-raised:' + m)
    if case.get('local') is False:
        t.append('non-local-face')
    if 'route_opts' in case:
        t.append('route-with-validator/options')
    if any(case['clock'].get('back') or []):
        t.append('clock-set-back')
        if st is None:
            t.append('clock-set-back-observed')
    for c in impl['cmds']:
        if c.get('late_delivered'):
            t.append('answer-after-lifetime')
    if any(r.get('body') == 'other' for r in case['replies']):
        t.append('body-names-other-prefix')
    if any(r.get('body') == 'empty' for r in case['replies']):
        t.append('body-present-but-empty')
    for c in case['conns']:
        t.append('calls:%d%s' % (len(c['calls']), '-early' if c['early'] and c['calls'] else ''))
    if len(case['conns']) > 1:
        t.append('conns:%d%s' % (len(case['conns']), '-fresh-loops' if case.get('fresh_loops') else ''))
        if case.get('fresh_loops'):
            t.append('%s-contended-connections:%d' % (case['fe'], sum(1 for c in case['conns'] if _contended(case, c))))
    for x in impl.get('failed_open', []):
        t.append('open-failed:' + str(x))
    return t


def finding_key(case, impl, why):
    if case['mode'] == 'ds':
        from props import c17_datasets as DS
        return DS.finding_key(case, impl, why)
    if case['mode'] == 'ow':
        import re
        return 'ow-' + re.sub(r'[^a-z]+', '-', re.sub(r'connection \d+', 'connection', why).lower())[:70]
    if case['mode'] == 'rc':
        import re
        return ('rc-' + case['fe'] + '-' + re.sub(r'[^a-z]+', '-', re.sub(r'\(.*|connection \d+:?|\d+ times', '', why).lower()).strip('-'))[:80]
    import re
    if case['mode'] == 'by':
        if 'raised' in why and 'response without body' in why:
            return 'parse-response-raises-without-body'
        return 'bytes-' + re.sub(r'[^a-zA-Z]+', '-', re.sub(r'=.*|\[.*', '', why)).strip('-').lower()[:60]
    if case['mode'] == 'pr':
        if 'raised' in why and case['body'] is None:
            return 'parse-response-raises-without-body'
        return 'parse-response-' + re.sub(r'[^a-zA-Z]+', '-', re.sub(r'=.*', '', why)).strip('-').lower()[:50]
    fe = 'legacy-' if case['fe'] == 'v1' else 'v2-'
    for pat, slug in ((r'raised \w+ when .* without body', 'raises-on-response-without-body'),
                      (r'unregister (returned True|reported success)', 'unregister-ignores-status'),
                      (r'never registered', 'route-never-registered'),
                      (r'registered more than once', 'route-registered-twice'),
                      (r'not strictly increasing', 'timestamps-not-strictly-increasing'),
                      (r'still unanswered', 'commands-in-flight-concurrently')):
        if re.search(pat, why):
            return fe + slug
    w = re.sub(r'(command|call|connection) \d+:?', r'\1', why)
    w = re.sub(r'\[.*?\]\]?|\d+', '', w)
    w = re.sub(r'[^a-zA-Z]+', '-', w).strip('-').lower()
    return (fe + w)[:80]


# ------------------------------------------------------------------------------------- tables
def extract(repo):
    """lean/NdnGen/C17.lean: field names of ControlParametersValue / ControlResponse (live classes) and the exception
    classes named in the except clauses of the four registration functions (ast)"""
    from lib import setup_repo_path
    setup_repo_path()
    from ndn.app_support import nfd_mgmt

    def names(cls):
        return [f.name for f in cls._encoded_fields]

    def caught(path, cls, fn):
        tree = ast.parse(open(os.path.join(repo, 'src', 'ndn', path)).read())
        out = []
        for c in ast.walk(tree):
            if isinstance(c, ast.ClassDef) and c.name == cls:
                for f in c.body:
                    if isinstance(f, ast.AsyncFunctionDef) and f.name == fn:
                        for h in ast.walk(f):
                            if isinstance(h, ast.ExceptHandler) and h.type is not None:
                                elts = h.type.elts if isinstance(h.type, ast.Tuple) else [h.type]
                                for e in elts:
                                    out.append(e.attr if isinstance(e, ast.Attribute) else getattr(e, 'id', '?'))
        return out

    def sl(l):
        return '[' + ', '.join('"%s"' % x for x in l) + ']'

    def module_tuple(path, var):
        """the class names in a module-level `VAR = (A, b.C, ...)`"""
        tree = ast.parse(open(os.path.join(repo, 'src', 'ndn', path)).read())
        for n in tree.body:
            if isinstance(n, ast.Assign) and any(isinstance(t, ast.Name) and t.id == var for t in n.targets):
                elts = n.value.elts if isinstance(n.value, ast.Tuple) else [n.value]
                return [e.attr if isinstance(e, ast.Attribute) else getattr(e, 'id', '?') for e in elts]
        return []
    rows = [('NfdRegister.register', caught('transport/nfd_registerer.py', 'NfdRegister', 'register')),
            ('NfdRegister.unregister', caught('transport/nfd_registerer.py', 'NfdRegister', 'unregister')),
            ('app.register', caught('app.py', 'NDNApp', 'register')),
            ('app.unregister', caught('app.py', 'NDNApp', 'unregister'))]
    import tlvschema as T
    from props.c08 import _lean_schema

    def live(cls):
        return '[' + ', '.join(_lean_schema(x) for x in T.class_schema(cls)) + ']'
    return ('import NdnModel.CodecWF\n'
            '/-! GENERATED by harness/props/c17.py extract() from ndn/app_support/nfd_mgmt.py (live classes) and the\n'
            '    except clauses of the registration functions (ast).  Do not edit. -/\n'
            'namespace Ndn.Gen.C17\nopen Ndn.Codec\n\n'
            f'def controlParametersValueFields : List String :=\n  {sl(names(nfd_mgmt.ControlParametersValue))}\n\n'
            f'def controlResponseFields : List String :=\n  {sl(names(nfd_mgmt.ControlResponse))}\n\n'
            'def caught : List (String × List String) :=\n  [' +
            ',\n   '.join(f'("{n}", {sl(c)})' for n, c in rows) + ']\n\n'
            '/-- the classes in `MALFORMED_RESPONSE` of nfd_registerer.py (what `NfdRegister` catches around '
            '`parse_response`) -/\n'
            f"def malformedResponse : List String :=\n  {sl(module_tuple('transport/nfd_registerer.py', 'MALFORMED_RESPONSE'))}\n\n"
            '/-- `_encoded_fields` of the live model classes, as schemas of the generic TLV codec -/\n'
            f'def controlParametersValueLive : List Schema :=\n  {live(nfd_mgmt.ControlParametersValue)}\n\n'
            f'def controlParametersLive : List Schema :=\n  {live(nfd_mgmt.ControlParameters)}\n\n'
            f'def controlResponseLive : List Schema :=\n  {live(nfd_mgmt.ControlResponse)}\n\n'
            'end Ndn.Gen.C17\n')


LEVEL_TEXT = ('Lean 4 theorems over a hand-written model of NfdRegister.register/unregister, the legacy '
              'NDNApp.register/unregister and starting_task auto-registration as one state machine (FIFO semaphore, '
              '_last_command_timestamp guard loop, clock as advances between reads, reply kinds), for every event '
              'history and every clock: success iff status 200, failures never raise, one command in flight, strictly '
              'increasing signed timestamps under the clock hypothesis, routes registered once per connection, '
              'parse_response returns the decoded fields; the defects of the unchanged tree are theorems about the '
              'unrepaired configurations. Byte level (composed from the C08 round trip and the C01/C02 packet theorems '
              'over the schemas generated from nfd_mgmt.py), for every prefix, field values, Interest parameters, '
              'SignatureTime/Nonce and every 32-byte hash H: the ControlParameters component of the make_command_v2 name '
              'decodes to exactly the requested prefix and fields; the v2 command Interest is made, parses back to the '
              'command name + ParametersSha256Digest, and passes the parameters-digest and DigestSha256 checks on the '
              'ranges the parser reports; the legacy make_command name is the v2 name + timestamp + nonce + SignatureInfo '
              '+ SignatureValue = H(preceding components); parse_response of the encoded ControlResponse returns the '
              'encoded fields and agrees with the record-level model. Composed (runW: reply bytes -> reply kinds -> state '
              'machine -> command wires), for every history and both front-ends: every wire on the face is produced '
              'without error and a forwarder decoding it (C07 packet decoder, C08 ControlParameters decoder) finds the '
              'requested verb, exactly the requested prefix, valid parameters digest, signature = H(signed portion) and '
              'the signed timestamp; the timestamps read back from the wires are strictly increasing; for EVERY byte '
              'string arriving as the answer the call in flight either is unaffected (not a Data packet) or returns, '
              'normally, True iff the bytes say status 200 (in a Data whose digest verifies, on the legacy front-end); '
              'the forwarder\'s encoded status decides the result end to end; every exception class parse_response can '
              'raise on any bytes is in the except tuples generated from the source. unregister of both front-ends '
              'takes the command lock like register (nothing is ever in flight outside it); the unserialised legacy '
              'unregister of the unchanged tree is a configuration of the model with its counterexample. The model is tied to the code on every run by differential execution against '
              'the real NDNApp/NfdRegister on a virtual-time loop with a scripted forwarder, and by the oracle which '
              'decodes every emitted command Interest and checks names, digest and signature.')
LEVEL_NOTE = ('Proof is about the model; model=code is sampled (differential testing), not proved. Command/response bytes '
              'are proved for the composed model (state machine + generic codec + packet model, hash as a parameter); '
              'that the real front-ends emit exactly those bytes and take the reply bytes the same way is compared '
              'byte for byte on every scenario.')
TECHNIQUE = 'Lean 4 proof (invariants over event histories, refinement of a FIFO lock) + model/implementation correspondence check'
DESIGN_REF = 'DESIGN.md section 7, C17; finding F13'
