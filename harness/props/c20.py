"""C20 — client configuration resolution (src/ndn/client_conf.py, platform/linux.py, platform/general.py).

The real functions run against a *virtual* environment: the `os` name seen by `ndn.client_conf` and
`ndn.platform.linux` (osx / windows when the case selects that branch) is replaced by a proxy whose `path.exists` /
`path.expanduser` / `path.expandvars` / `environ` answer from the case, and `open` (module global of client_conf) serves the case's configuration files.  Nothing of the user's real
configuration, home directory or environment is read or written."""
import io, os, posixpath, ntpath, re, importlib

PROP = 'C20'
TITLE = 'Client configuration resolves with environment over file over platform default'
LEAN_TARGETS = ['NdnProofs.Props.C20']
THEOREMS = [
    'Ndn.C20.precedence_transport', 'Ndn.C20.precedence_pib', 'Ndn.C20.precedence_tpm',
    'Ndn.C20.location_existing_as_given', 'Ndn.C20.location_relative_to_conf', 'Ndn.C20.location_fallback',
    'Ndn.C20.face_of_uri', 'Ndn.C20.face_of_unix_uri', 'Ndn.C20.unknown_scheme_error',
    'Ndn.C20.unknown_scheme_uri_error', 'Ndn.C20.platform_table_sane', 'Ndn.C20.precedence_on_platform',
    'Ndn.C20.conf_value_is_first_assignment', 'Ndn.C20.conf_errors',
]
PARTIAL = {}
TRUSTED = [
    'C20: the file system is a predicate on the literal strings passed to os.path.exists, fixed during one call; '
    'os.path.expandvars is the identity on candidate paths (home directories contain no $); os.path.expanduser / expandvars '
    'are reproduced by the harness over the environment and password database of the case (CPython posixpath semantics: HOME '
    'when present, also when empty, else pw_dir); the model takes the resulting home directory as an input',
    'C20: configparser is modelled (parseConf) as ConfigParser(interpolation=None).read_string("[DEFAULT]\\n" + text) on '
    'ASCII text: full-line #/; comments, blank lines, section headers, = and : delimiters, continuation lines, '
    'lower-cased option names, strict duplicate detection, ParsingError for lines that are neither; the split of the '
    'text into physical lines (universal newlines of open(), str.splitlines-free iteration of StringIO) and '
    'non-ASCII text (Unicode whitespace, str.lower) are CPython',
    'C20: urllib.parse.urlsplit is modelled on printable ASCII without whitespace; validity of a bracketed IPv6 / '
    'IPvFuture literal (urllib.parse._check_bracketed_host -> ipaddress) enters the model as a boolean',
    'C20: posixpath.join / dirname as modelled (correspondence runs the real ones)',
    'C20 store stream: the stores are written by the library itself (KeychainSqlite3.initialize, TpmFile.save_key) into a plainly '
    'named directory once per run and copied from there; one identity row is inserted with sqlite3 directly; no system-wide '
    'client.conf exists on the machine (else cases without a user file are not judged); HOME is always set in this stream; '
    'the directory a path string denotes is what os.path.realpath of the harness process says before the library runs (the '
    'scratch file system supports symbolic links; a layout it cannot hold is skipped)',
]
RULE = ('three streams: (conf) product of presence/absence and values of NDN_CLIENT_TRANSPORT/PIB/TPM x 0..3 existing '
        'candidate files (comments, blank lines, missing keys, upper-case keys, = and : delimiters, rarely a repeated key; '
        'one file in five has further shapes of the INI grammar: indented comments, whitespace-only lines, values continued '
        'on indented lines with blank/comment lines in between, empty values, ; and # inside values, names with inner '
        'blanks, [section] headers that hide their options, a second [DEFAULT], an indented first line, tabs; and a '
        'malformed share: lines without delimiter, empty names, options repeated case-insensitively or only across '
        'sections, repeated sections, [] and unclosed headers) '
        'x store values scheme / scheme:loc / scheme:loc:extra with loc absolute or relative, existing as given, existing '
        'relative to the configuration file, or missing, with and without an existing platform default location and with '
        'both NFD socket paths present/absent, x HOME set / absent (home directory from the password database) / empty, '
        "x store and transport values containing '$HOME', '${HOME}', '~' (literal text), x one case in eight on the macOS branch "
        'of the platform helpers (general.py dispatch with sys.platform = darwin; oracle only, judged against the documented '
        'macOS table); (face) URIs scheme://[user@]host[:port][/path] over all supported schemes in '
        'mixed case, unsupported schemes, names / IPv4 / bracketed IPv6 (valid, invalid, unbalanced), ports absent, empty, '
        '0, 1..65535, 65536+, zero-padded, non-numeric, unix URIs with 0-3 slashes, query, fragment, plus random ASCII '
        'strings; (kc) pib/tpm strings with supported, off-platform and unknown schemes, with and without colon; (parse) '
        'the configuration-file reader alone: texts of 0-9 lines drawn from the shapes above and from random strings over '
        '" \\t=:#;[]aAbk%\\x0c", LF/CRLF/CR, with and without final newline - the model must return the same DEFAULT dict '
        '(names, values, order) or the same exception class as ConfigParser(interpolation=None).read_string. '
        'targeted streams: empty-string environment variables, no / only a later / every candidate file, a first file lacking a '
        'key a later one has, values containing = # ; :, CRLF and unterminated files, unix://<absolute path> URIs, all '
        'scheme x host x port corners; the platform defaults themselves are judged against the documented Linux table. '
        '(store; oracle only, on a real scratch directory - /dev/shm when there is one - with HOME, NDN_CLIENT_* and the working '
        'directory really set and nothing of the library patched) the configured stores are built for real: every file name '
        '(components of HOME = the directory of client.conf, of absolute / file-relative / working-directory-relative pib and tpm '
        'locations from the file and from the environment) is drawn from plain pieces mixed with pieces that mean something to '
        'some parser: %HH (valid, invalid, %2F, %00), bare % and %%, ? and ?k=v, #, blanks and tab, ~, $ / $$ / $(..), = ; & + , @ ! '
        'quotes, brackets, braces, glob patterns ([a], *.db, {a,b}), format templates (%s, %(x)s, {0}), backslash escapes, regex '
        'text, non-ASCII in both normal forms, case-folding specials, trailing dots, : (HOME only); each pib location holds a '
        'PIB with its own identity, each tpm location its own key file, and look-alike stores are placed under the names a careless '
        'reading of the configured name gives (URI-decoded, cut at ? # ; or blank, stripped, lower-cased, NFC/NFD, quotes '
        'dropped, bracket class collapsed). Judged: the strings of read_client_conf as above, and behind them that '
        'default_keychain opens (no exception for an existing well-formed store), that the keychain lists exactly the identity '
        'put into the store the statement names, that its key store sees exactly the key put into the named key store, that a '
        'key saved through it lands inside that directory, and that opening changed no file outside the named store. '
        '(store, file-system shape) the same observation over layouts with SYMBOLIC LINKS and non-normalised spellings: HOME, '
        '~/.ndn, client.conf itself (a link to a file kept elsewhere), the working directory, every pib / tpm location and the '
        "store's own files may be reached through links - to directories and to files, absolute and relative targets, chains, "
        "dangling and self-referring ones, a link as the store itself - with '.', '..', 'dir/..', doubled and trailing slashes "
        "before and after the links (a random walk towards the real directory with detours; one detour in two ends BESIDE the "
        "way so that '..' follows a link), and in one case in three the working directory changes between read_client_conf, "
        'default_keychain and the first use of the store. Which directory a configured string denotes is measured with the '
        'operating system (realpath) before the library runs; look-alike stores stand where a textual clean-up of the spelling '
        "(normpath / abspath), a '..' taken against the link instead of its target, the logical working directory or the "
        "real place of a linked client.conf would lead. With a changed working directory only absolute names and names "
        'relative to the configuration file are judged. '
        'Behind VERIF_C20_DOLLAR=1 (not in the default stream: fails on the unchanged library, see the report) HOME itself '
        'holds the text $HOME / ${HOME} / $NDN_CLIENT_PIB. '
        'non-trivial = store: a keychain was opened and listed an identity; conf: a result was returned and at least one of environment/file contributed; face: a face was '
        'returned; kc: a keychain was constructed')

ENVKEYS = ['transport', 'pib', 'tpm']


# ------------------------------------------------------------------------------ virtual environment
class _Proxy:
    def __init__(self, real, over):
        self.__dict__['_real'] = real
        self.__dict__['_over'] = over

    def __getattr__(self, n):
        o = self.__dict__['_over']
        if n in o:
            return o[n]
        return getattr(self.__dict__['_real'], n)


_VAR_POSIX = re.compile(r'\$(\w+|\{[^}]*\})', re.ASCII)
_VAR_NT = re.compile(r'%([^%]*)%|\$(\w+|\{[^}]*\})', re.ASCII)


class Virt:
    """context manager: ndn.client_conf and the platform module in force see a virtual os / open.

    home_env: 'set' (HOME = home), 'unset' (HOME absent; the password database names `home`), 'empty' (HOME = '').
    platform: 'linux' | 'darwin' | 'win32' - for the last two the `sys` seen by ndn.platform.general reports that
    platform and the Platform singleton is rebuilt for the time of the block (the modules ndn.platform.osx / windows are
    imported under the real sys.platform, so their native-library imports are skipped); win32 sees ntpath.
    extra_env: further environment variables (win32 profile variables, variables a '$' in a value could name)."""

    def __init__(self, home, exists, files, env, expanduser=None, home_env='set', platform='linux', extra_env=None):
        self.home, self.exists, self.files = home, set(exists) | set(files), dict(files)
        self.platform = platform
        self.environ = {}
        if home_env == 'set':
            self.environ['HOME'] = home
        elif home_env == 'empty':
            self.environ['HOME'] = ''
        for k, v in (extra_env or {}).items():
            self.environ[k] = v
        for k, v in env.items():
            if v is not None:
                self.environ['NDN_CLIENT_' + k.upper()] = v
        self.probed = []
        self._expanduser = expanduser

    def _exists(self, p):
        p = os.fspath(p)
        self.probed.append(p)
        return p in self.exists

    def _expand(self, p):
        """os.path.expanduser of CPython over the virtual environment / password database"""
        if self._expanduser:
            return self._expanduser(p)
        p = os.fspath(p)
        if self.platform == 'win32':
            if p == '~' or p[:2] in ('~/', '~\\'):
                if 'USERPROFILE' in self.environ:
                    return self.environ['USERPROFILE'] + p[1:]
                if 'HOMEPATH' in self.environ:
                    return self.environ.get('HOMEDRIVE', '') + self.environ['HOMEPATH'] + p[1:]
            return p
        if p == '~' or p.startswith('~/'):
            userhome = self.environ['HOME'] if 'HOME' in self.environ else self.home     # else: pwd.getpwuid(uid).pw_dir
            return (userhome.rstrip('/') + p[1:]) or '/'
        return p

    def _expandvars(self, p):
        """os.path.expandvars of CPython ($name, ${name}; on win32 also %name%) over the virtual environment"""
        p = os.fspath(p)

        def rep(m):
            n = m.group(1) if m.group(1) is not None else m.group(m.lastindex)
            if m.group(0).startswith('$') and n.startswith('{'):
                n = n[1:-1]
            if m.group(0) == '%%':
                return '%'
            return self.environ.get(n, m.group(0))
        if self.platform == 'win32':
            if "'" in p:                       # ntpath leaves single-quoted stretches alone: not generated
                return p
            return _VAR_NT.sub(rep, p)
        return _VAR_POSIX.sub(rep, p)

    def _open(self, path, mode='r', *a, **k):
        path = os.fspath(path)
        if path in self.files and 'w' not in mode and 'a' not in mode and '+' not in mode:
            if 'b' in mode:
                return io.BytesIO(self.files[path].encode())
            # text mode as the built-in open does it: universal newlines (a CRLF file reads as LF)
            return io.TextIOWrapper(io.BytesIO(self.files[path].encode()), encoding='utf-8', newline=k.get('newline'))
        raise FileNotFoundError(2, 'No such file or directory (virtual)', path)

    def __enter__(self):
        import sys as _sys
        cc = importlib.import_module('ndn.client_conf')
        gen = importlib.import_module('ndn.platform.general')
        pm = importlib.import_module({'linux': 'ndn.platform.linux', 'darwin': 'ndn.platform.osx',
                                      'win32': 'ndn.platform.windows'}[self.platform])
        self.cc, self.lx, self.gen = cc, pm, gen
        base = ntpath if self.platform == 'win32' else posixpath
        pathp = _Proxy(base, {
            'exists': self._exists, 'lexists': self._exists,
            'isfile': lambda p: os.fspath(p) in self.files,
            'isdir': lambda p: os.fspath(p) in self.exists and os.fspath(p) not in self.files,
            'expanduser': self._expand, 'expandvars': self._expandvars,
        })
        osp = _Proxy(os, {'path': pathp, 'environ': self.environ,
                          'getenv': lambda k, d=None: self.environ.get(k, d)})
        self._old = (cc.os, pm.os, gen.sys, gen.Platform._instance)
        cc.os, pm.os = osp, osp
        if self.platform != 'linux' or not _sys.platform.startswith('linux'):
            gen.sys = _Proxy(_sys, {'platform': self.platform})
            gen.Platform._instance = None
        cc.open = self._open
        return self

    def __exit__(self, *a):
        self.cc.os, self.lx.os, self.gen.sys, self.gen.Platform._instance = self._old
        try:
            del self.cc.open
        except AttributeError:
            pass


def _platform():
    from ndn.platform import Platform
    return Platform()


def _eff_home(case):
    """the directory '~' denotes in the case: $HOME when set (also when set to the empty string), else the home directory
    of the password database entry (case['home'] plays both roles)"""
    return '' if case.get('home_env') == 'empty' else case['home']


def _virt(case, files):
    return Virt(case['home'], case['exists'], files, case['env'], home_env=case.get('home_env', 'set'),
                platform=case.get('platform', 'linux'), extra_env=case.get('extra_env'))


def live_platform(home, exists=(), home_env='set', platform='linux', extra_env=None):
    with Virt(home, exists, {}, {}, home_env=home_env, platform=platform, extra_env=extra_env):
        p = _platform()
        return {'conf_paths': list(p.client_conf_paths()), 'default_transport': p.default_transport(),
                'pib_scheme': p.default_pib_scheme(), 'tpm_scheme': p.default_tpm_scheme(),
                'pib_paths': list(p.default_pib_paths()), 'tpm_paths': list(p.default_tpm_paths())}


# ------------------------------------------------------------------------------ generated table
def _lstr(s):
    assert all(32 <= ord(c) < 127 and c not in '"\\' for c in s), s
    return f'"{s}".toList'


def extract(repo):
    """lean/NdnGen/C20.lean: the platform table of the live Platform() and the face class defaults"""
    from lib import setup_repo_path
    setup_repo_path()
    MARK = '\x00'

    def eu(p):
        return MARK + p[1:] if (p == '~' or p.startswith('~/')) else p

    def hs(s):
        if s.startswith(MARK):
            return f'home ++ {_lstr(s[1:])}'
        assert MARK not in s
        return _lstr(s)

    def hl(l):
        return '[' + ', '.join(hs(x) for x in l) + ']'

    with Virt('/nonexistent-home', [], {}, {}, expanduser=eu) as v:
        p = _platform()
        conf_paths = list(p.client_conf_paths())
        pib_scheme, tpm_scheme = p.default_pib_scheme(), p.default_tpm_scheme()
        pib_paths, tpm_paths = list(p.default_pib_paths()), list(p.default_tpm_paths())
        # default_transport as a decision table over the paths it probes
        probes = []
        while True:
            grew = False
            for mask in range(1 << len(probes)):
                v.exists = {q for i, q in enumerate(probes) if mask >> i & 1}
                v.probed = []
                p.default_transport()
                for q in v.probed:
                    if q not in probes:
                        probes.append(q)
                        grew = True
            if not grew:
                break
            assert len(probes) <= 8
        rows = []
        for mask in range(1 << len(probes)):
            v.exists = {q for i, q in enumerate(probes) if mask >> i & 1}
            rows.append(([bool(mask >> i & 1) for i in range(len(probes))], p.default_transport()))
    from ndn.transport.stream_face import UnixFace, TcpFace
    b = lambda x: 'true' if x else 'false'
    rows_txt = ',\n      '.join('([' + ', '.join(b(x) for x in a) + '], ' + hs(r) + ')' for a, r in rows)
    return f'''import NdnModel.ClientConf
/-! GENERATED by harness/props/c20.py extract() from ndn/platform (live `Platform()` with a stubbed os.path) and
    the face classes.  Do not edit. -/
namespace Ndn.Gen.C20
open Ndn.ClientConf

def platform (home : Str) : Platform :=
  {{ confPaths := {hl(conf_paths)}
    transportProbes := {hl(probes)}
    transportTable := [
      {rows_txt}]
    pibScheme := {hs(pib_scheme)}
    pibPaths := {hl(pib_paths)}
    tpmScheme := {hs(tpm_scheme)}
    tpmPaths := {hl(tpm_paths)} }}

def faceDefaults : FaceDefaults :=
  {{ unixPath := {_lstr(UnixFace.path)}
    tcpHost := {_lstr(TcpFace.host)} }}

end Ndn.Gen.C20
'''


# ------------------------------------------------------------------------------ cases
HOMES = ['/home/u', '/root', '/h', '/home/a%41b', '/home/u#1', '/h?x=1', '/home/u=v;w', '/home/u:2', '/home/a$', '/h~/u.', "/home/[a]'q'"]
ABS_LOCS = ['/var/lib/ndn/pib', '/data/keys', '/k', '/data/k=1', '/srv/a#b;c', '/data/k%20x', '/srv/%(home)s/pib', '/p%%q',
            '/data/$HOME/pib', '/srv/${HOME}k', '/data/keys/']
# (a location is literal text: '$HOME', '${HOME}' and '~' in it are not expanded - "used as given")
REL_LOCS = ['keys', 'sub/pib', '../k', 'ndnsec-key-file', 'k=v/pib', './keys', 'k%/pib', '$HOME/keys', '~/keys', '~', 'sub/']
PIB_SCHEMES = ['pib-sqlite3', 'pib-sqlite3', 'pib-memory', 'x', '']
TPM_SCHEMES = ['tpm-file', 'tpm-file', 'tpm-memory', 'y', '']
TRANSPORTS = ['unix:///run/nfd/nfd.sock', 'unix:///tmp/n.sock', 'tcp://localhost:6363', 'udp4://10.0.0.1',
              'tcp://[::1]:7000', 'bogus://x', '', 'tcp4://router.example.net:9000', 'unix:///tmp/a=b.sock',
              'udp6://[::1]:6363', 'unix:///run/x.sock?a=b:c#d=e', 'tcp://h:1=2', 'unix:///tmp/a%20b.sock',
              'unix://$HOME/n.sock', 'unix://~/n.sock']


def _store_value(rng, key, plat):
    scheme = rng.choice(PIB_SCHEMES if key == 'pib' else TPM_SCHEMES)
    r = rng.random()
    if r < 0.2:
        return scheme
    if r < 0.27:
        return scheme + ':'
    dflt = plat['pib_paths' if key == 'pib' else 'tpm_paths']
    loc = rng.choice(ABS_LOCS + REL_LOCS + REL_LOCS + dflt)
    if r < 0.33:
        return scheme + ':' + loc + ':' + rng.choice(['x', '', '/y'])
    return scheme + ':' + loc


def _value(rng, key, plat):
    return rng.choice(TRANSPORTS) if key == 'transport' else _store_value(rng, key, plat)


def _file_lines(rng, plat):
    lines = []
    keys = [k for k in ENVKEYS if rng.random() < 0.6]
    rng.shuffle(keys)
    for k in keys:
        while rng.random() < 0.3:
            lines.append(rng.choice([['c', '# a comment'], ['c', '; transport=tcp://commented.out'], ['b'],
                                     ['c', '#pib=pib-sqlite3:/commented'], ['kv', 'protocol', 'ndn', 0]]))
        kk = k if rng.random() < 0.8 else rng.choice([k.upper(), k.capitalize()])
        lines.append(['kv', kk, _value(rng, k, plat), rng.randrange(4)])
    if rng.random() < 0.06 and keys:
        k = rng.choice(keys)
        lines.append(['kv', rng.choice([k, k.upper()]), _value(rng, k, plat), 0])
    if rng.random() < 0.3:
        lines.append(rng.choice([['b'], ['c', '# end']]))
    return lines


FANCY_VALUES = ['tcp://h:1 ; not a comment', 'unix:///tmp/x #y', 'pib-sqlite3:/data/a b', 'tpm-file:/k\tz', 'x', '', 'a=b:c',
                '[v]', 'pib-sqlite3:keys', 'tpm-file:sub/pib']


def _fancy_lines(rng, plat, malformed):
    """further shapes of the INI grammar as raw physical lines ['raw', text]; with `malformed` one defect is put in"""
    out = []

    def kv(k, v, ind=''):
        d = rng.choice(['=', ' = ', ': ', ':', '\t=\t', ' =', '= '])
        return ['raw', ind + k + d + v + rng.choice(['', '', ' ', '\t'])]
    keys = [k for k in ENVKEYS if rng.random() < 0.7]
    rng.shuffle(keys)
    ind0 = rng.choice(['', '', '', ' ', '  '])                       # an indented first line is an ordinary option
    for k in keys:
        r = rng.random()
        if r < 0.25:
            out.append(['raw', rng.choice(['  # indented comment', '\t; x = y', '   ', '\t', '#', ';'])])
        kk = rng.choice([k, k, k.upper(), k.capitalize()])
        v = _value(rng, k, plat) if rng.random() < 0.6 else rng.choice(FANCY_VALUES)
        out.append(kv(kk, v, ind0))
        r = rng.random()
        if r < 0.35:                                                 # continuation lines
            for _ in range(rng.randint(1, 3)):
                out.append(['raw', ind0 + rng.choice([' ', '  ', '\t', '    ']) +
                            rng.choice(['more', 'k = v', '[x]', '# kept? no: a comment', '', 'a:b', '; c'])])
        elif r < 0.45:
            out.append(['raw', ''])
    r = rng.random()
    if r < 0.35:                                                     # a section hides its options
        out.append(['raw', rng.choice(['[extra]', ' [extra] ', '[a]b] tail', '[default]', '[DEFAULT ]'])])
        for k in rng.sample(ENVKEYS, rng.randint(0, 3)):
            out.append(kv(k, _value(rng, k, plat)))
        if rng.random() < 0.4:
            out.append(['raw', '[DEFAULT]'])
            missing = [k for k in ENVKEYS if k not in keys]
            for k in missing[:rng.randint(0, 2)]:
                out.append(kv(k, _value(rng, k, plat)))
            out.append(kv('other key', 'x'))
    elif r < 0.5:
        out.append(kv(rng.choice(['my key', 'a.b', 'x[1]', '#not first? no', 'k;']), rng.choice(FANCY_VALUES)))
    if malformed:
        bad = rng.choice([
            [['raw', 'transport']], [['raw', 'no delimiter here']], [['raw', '= v']], [['raw', ' : v']], [['raw', '[]']],
            [['raw', '[unclosed']], [['raw', '[s]'], ['raw', '[s]']], [['raw', '[s]'], ['raw', 'a=1'], ['raw', 'A:2']],
            [['raw', 'zz=1'], ['raw', 'ZZ = 2']], [['raw', '[s]'], ['raw', 'q=1'], ['raw', '[t]'], ['raw', 'q=1']],
            [['raw', '[s]'], ['raw', 'pib=1'], ['raw', '[DEFAULT]'], ['raw', 'r=1'], ['raw', '[DEFAULT]'], ['raw', 'R=2']],
            [['raw', 'stray'], ['raw', '   continues nothing? it continues the previous option']],
        ])
        at = rng.randint(0, len(out))
        out[at:at] = bad
    return out


def render(lines, eol='\n', final=True):
    out = []
    for l in lines:
        if l[0] == 'c':
            out.append(l[1])
        elif l[0] == 'b':
            out.append('')
        elif l[0] == 'raw':
            out.append(l[1])
        else:
            _, k, v, style = l
            out.append([f'{k}={v}', f'{k} = {v}', f'{k}: {v}', f'{k}  =  {v}  '][style % 4])
    return eol.join(out) + (eol if final else '')


def _conf_case(rng):
    home = rng.choice(HOMES)
    # HOME present / absent (the home directory then comes from the password database) / set to the empty string;
    # one case in eight on the macOS branch of the platform helpers
    home_env = rng.choice(['set'] * 6 + ['unset'] * 3 + ['empty'])
    platform = 'darwin' if rng.random() < 0.125 else 'linux'
    # where files are placed and which values are drawn follows the DOCUMENTED platform table, never the platform helpers
    # under judgement (equal on the unchanged library; a changed helper must not move or crash the generator)
    plat = _spec_platform('' if home_env == 'empty' else home, set(), platform)
    env = {k: (_value(rng, k, plat) if rng.random() < 0.35 else None) for k in ENVKEYS}
    files = []
    for p in plat['conf_paths']:
        if rng.random() < 0.35:
            r = rng.random()
            files.append([p, _file_lines(rng, plat) if r < 0.8 else _fancy_lines(rng, plat, malformed=r > 0.95)])
    if rng.random() < 0.5:
        rng.shuffle(files)
    # everything that could be asked about
    mentioned = set()
    vals = [v for v in env.values() if v is not None]
    for _, ls in files:
        vals += [l[2] for l in ls if l[0] == 'kv']
        if any(l[0] == 'raw' for l in ls):
            got = _real_defaults(render(ls))          # (only to know which store locations the case could ask about)
            vals += [v for k, v in (got if isinstance(got, list) else []) if k in ENVKEYS]
    for v in vals:
        sp = v.split(':')
        if len(sp) == 2 and sp[1]:
            mentioned.add(sp[1])
            for p in plat['conf_paths']:
                mentioned.add(posixpath.join(posixpath.dirname(p), sp[1]))
    exists = [m for m in sorted(mentioned) if rng.random() < 0.4]
    for p in plat['pib_paths'] + plat['tpm_paths']:
        if rng.random() < 0.6:
            exists.append(p)
    for s in ['/run/nfd/nfd.sock', '/run/nfd.sock', '/var/run/nfd/nfd.sock', '/var/run/nfd.sock']:
        if rng.random() < 0.5:
            exists.append(s)
    case = {'op': 'conf', 'home': home, 'env': env, 'files': files, 'exists': sorted(set(exists))}
    if home_env != 'set':
        case['home_env'] = home_env
    if platform != 'linux':
        case['platform'] = platform
    r = rng.random()
    if r < 0.25:
        case['eol'] = rng.choice(['crlf', 'crlf', 'lf-nofinal', 'crlf-nofinal'])
    return case


def _render_case(case, ls):
    e = case.get('eol', 'lf')
    return render(ls, '\r\n' if e.startswith('crlf') else '\n', not e.endswith('nofinal'))


def _targeted_conf():
    """the corners of the precedence product, each on purpose: environment variables set to the empty string over a
    file that has values; NDN_CLIENT_* set while no file exists; only the last / only a middle candidate exists; every
    candidate exists with a different value; the first existing file lacks the key a later one has; values containing
    the delimiters = and : ; CRLF files"""
    home = '/home/u'
    plat = _spec_platform(home, set())
    paths = plat['conf_paths']
    full = lambda tag: [['kv', 'transport', 'tcp://%s:1' % tag, 0], ['kv', 'pib', 'pib-sqlite3:/p/%s' % tag, 1],     # noqa
                        ['kv', 'tpm', 'tpm-file:/t/%s' % tag, 2]]
    allex = ['/p/%d' % i for i in range(4)] + ['/t/%d' % i for i in range(4)] + plat['pib_paths'] + plat['tpm_paths']
    none = {k: None for k in ENVKEYS}
    for eol in ('lf', 'crlf'):
        for envv in ('', 'x'):
            for ks in (ENVKEYS, ['transport'], ['pib'], ['tpm'], ['pib', 'tpm']):
                env = {k: ((envv if k == 'transport' or not envv else 'x:/p/0') if k in ks else None) for k in ENVKEYS}
                yield {'op': 'conf', 'home': home, 'env': env, 'files': [[paths[0], full('0')]], 'exists': allex, 'eol': eol}
                yield {'op': 'conf', 'home': home, 'env': env, 'files': [], 'exists': allex, 'eol': eol}
                yield {'op': 'conf', 'home': home, 'env': env, 'files': [], 'exists': [], 'eol': eol}
        for i in range(len(paths)):
            yield {'op': 'conf', 'home': home, 'env': none, 'files': [[paths[i], full(str(i))]], 'exists': allex, 'eol': eol}
            yield {'op': 'conf', 'home': home, 'env': none, 'files': [[paths[j], full(str(j))] for j in range(i, len(paths))],
                   'exists': allex, 'eol': eol}
            yield {'op': 'conf', 'home': home, 'env': none, 'files': [[paths[j], full(str(j))] for j in reversed(range(i, len(paths)))],
                   'exists': allex[:3], 'eol': eol}
            for k in range(3):
                # the first existing file lacks one key which a later file has: the platform default applies, not the later file
                fs = [[paths[i], full(str(i))[:k] + full(str(i))[k + 1:]]] + [[paths[j], full(str(j))] for j in range(i + 1, len(paths))]
                yield {'op': 'conf', 'home': home, 'env': none, 'files': fs, 'exists': allex, 'eol': eol}
        for v in ('unix:///tmp/a=b.sock', 'tcp://h:1=2', 'unix:///x?a=b:c', 'udp6://[::1]:6363', 'tcp://[fe80::1]'):
            for style in range(4):
                yield {'op': 'conf', 'home': home, 'env': none, 'eol': eol, 'exists': ['/data/k=1', '/etc/ndn/k=v/pib'],
                       'files': [[paths[3], [['kv', 'transport', v, style], ['kv', 'pib', 'pib-sqlite3:/data/k=1', style],
                                             ['kv', 'tpm', 'tpm-file:k=v/pib', style]]]]}


def _targeted_home():
    """the home directory as the helper os.path.expanduser finds it: HOME set, absent (password database), empty; and the
    macOS branch of the platform helpers: a user file / only a system file / no file, store defaults existing or not,
    values with '$HOME' and '~' kept literally"""
    none = {k: None for k in ENVKEYS}
    for platform in ('linux', 'darwin'):
        for home_env in ('set', 'unset', 'empty'):
            home = '/home/u'
            eff = '' if home_env == 'empty' else home
            base = {'op': 'conf', 'home': home, 'env': none}
            if home_env != 'set':
                base['home_env'] = home_env
            if platform != 'linux':
                base['platform'] = platform
            user, etc = eff + '/.ndn/client.conf', '/etc/ndn/client.conf'
            dfl = [eff + '/.ndn', eff + '/.ndn/ndnsec-key-file']
            fl = lambda tag: [['kv', 'transport', 'tcp://%s:1' % tag, 0], ['kv', 'pib', 'pib-sqlite3:/p/%s' % tag, 1],     # noqa
                              ['kv', 'tpm', 'tpm-file:/t/%s' % tag, 2]]
            for ex in ([], dfl, dfl + ['/p/u', '/t/u', '/p/e', '/t/e'], ['$HOME/.ndn', '~/.ndn', '/.ndn', '/root/.ndn', '.ndn']):
                yield dict(base, files=[], exists=ex)
                yield dict(base, files=[[user, fl('u')]], exists=ex)
                yield dict(base, files=[[etc, fl('e')]], exists=ex)
                yield dict(base, files=[[user, fl('u')], [etc, fl('e')]], exists=ex)
                yield dict(base, files=[['$HOME/.ndn/client.conf', fl('d')], ['~/.ndn/client.conf', fl('t')], [etc, fl('e')]], exists=ex)
            for loc in ('$HOME/keys', '${HOME}/keys', '~/keys', '/data/$HOME/k', '~'):
                for extra in ([], [loc], [posixpath.join(posixpath.dirname(user), loc)], [posixpath.expanduser(loc), eff + '/keys',
                                                                                         '/data/' + eff + '/k']):
                    yield dict(base, files=[[user, [['kv', 'pib', 'pib-sqlite3:' + loc, 0], ['kv', 'tpm', 'tpm-file:' + loc, 1],
                                                    ['kv', 'transport', 'unix://' + loc, 2]]]], exists=dfl + extra)
                    yield dict(base, files=[], exists=dfl + extra, env={'transport': None, 'pib': 'pib-sqlite3:' + loc, 'tpm': 'tpm-file:' + loc})


FACE_SCHEMES = ['unix', 'tcp', 'tcp4', 'tcp6', 'udp', 'udp4', 'udp6']
BAD_SCHEMES = ['ws', 'wss', 'http', 'tcp5', 'udp7', 'unixx', 'ether', 'dev', 'fd', 'tc', 'x+y', 'a.b-c', '1tcp', '']
HOSTS = ['localhost', '127.0.0.1', 'router.example.net', 'LOCALHOST', 'Hub.NDN.example', '10.0.0.1', 'a',
         '[::1]', '[fe80::1]', '[2001:DB8::1]', '[zz]', '[::1', '::1]', '[v1.x]', '', 'h_1', 'u@host', 'a@b@c']
PORTS = [None, None, '', '0', '1', '80', '6363', '9000', '65535', '65536', '99999', '0080', '12ab', '-1', ':5', '6363:1']
ALPHA = 'abctudpnix0123469:/[]@.#?-+_AZ'


def _mixcase(rng, s):
    r = rng.random()
    if r < 0.75:
        return s
    if r < 0.85:
        return s.upper()
    return ''.join(c.upper() if rng.random() < 0.5 else c for c in s)


def _face_case(rng):
    r = rng.random()
    if r < 0.12:
        uri = rng.choice(['unix://', 'unix:', 'unix:/', 'unix:///', 'unix:///run/nfd/nfd.sock', 'unix:///run/nfd.sock',
                          'unix://run/x.sock', 'unix:/a/b', 'unix:rel/p', 'unix:///a?b#c', 'unix:///a#c', 'UNIX:///A/b',
                          'unix:///tmp/n.sock', 'unix://host:1/p', 'unix://[::1]/p', 'unix://[bad/p', 'unix:///p;x'])
        return {'op': 'face', 'uri': uri, 'gen': 'unix'}
    if r < 0.24:
        n = rng.randint(0, 14)
        return {'op': 'face', 'uri': ''.join(rng.choice(ALPHA) for _ in range(n)), 'gen': 'random'}
    scheme = rng.choice(FACE_SCHEMES[1:]) if r < 0.8 else rng.choice(BAD_SCHEMES)
    host = rng.choice(HOSTS)
    port = rng.choice(PORTS)
    if port is not None and port.isdigit() and rng.random() < 0.3:
        port = str(rng.randint(0, 70000))
    tail = rng.choice(['', '', '', '/', '/x', '?q', '#f'])
    sep = '://' if rng.random() < 0.93 else rng.choice([':', ':/', ':///'])
    uri = _mixcase(rng, scheme) + sep + host + ('' if port is None else ':' + port) + tail
    return {'op': 'face', 'uri': uri, 'gen': 'structured', 'scheme': scheme, 'host': host, 'port': port, 'sep': sep}


UNIX_PATHS = ['/run/nfd/nfd.sock', '/run/nfd.sock', '/tmp/n.sock', '/A/b', '/a=b.sock', '/tmp/x-y_z.1/s', '/s', '/var/run/a+b@c',
              '/tmp//a', '/a/../b', '/a/./b/', '/tmp/nfd.sock/']


def _unix_case(rng):
    return {'op': 'face', 'uri': _mixcase(rng, 'unix') + '://' + rng.choice(UNIX_PATHS), 'gen': 'unix-abs'}


def _targeted_face():
    for p in UNIX_PATHS:
        for sch in ('unix', 'UNIX', 'Unix'):
            yield {'op': 'face', 'uri': sch + '://' + p, 'gen': 'unix-abs'}
    for scheme in FACE_SCHEMES[1:] + ['TCP', 'Udp6', 'ws', 'tcp7', 'udpx', 'tcpx', 'unix6', 'xtcp']:
        for host in ('[::1]', 'localhost', '192.0.2.7', '[2001:db8::A]'):
            for port in (None, '', '1', '6363', '65535', '0', '65536', '06363'):
                yield {'op': 'face', 'uri': scheme + '://' + host + ('' if port is None else ':' + port), 'gen': 'structured',
                       'scheme': scheme.lower(), 'host': host, 'port': port, 'sep': '://'}


def _kc_case(rng):
    pib = rng.choice(['pib-sqlite3:/a/b', 'pib-sqlite3:', 'pib-sqlite3', 'pib-memory:', 'pib-sqlite3:rel', 'pib-sqlite3:/a/',
                      'pib-sqlite3:/a:b', 'PIB-SQLITE3:/a', ':', '', 'pib-sqlite3:/a%41/b#c?d=e', 'pib-sqlite3:/h~/[a]/$x/k.', 'pib-sqlite3:/a;b=c/%/'])
    tpm = rng.choice(['tpm-file:/k', 'tpm-file:', 'tpm-file', 'tpm-file:rel:x', 'tpm-osxkeychain:', 'tpm-cng:', 'tpm-xx:/a',
                      'tpm-file:/home/u/.ndn/ndnsec-key-file', 'tpm-osxkeychain', ':', '', 'tpm-file:/k%20x/y#z?w', 'tpm-file:/a:b/c', 'tpm-file:/~/{0}/%s'])
    return {'op': 'kc', 'pib': pib, 'tpm': tpm}


def _real_defaults(text):
    """what the library's reader makes of a file: [[name, value], ...] of parser['DEFAULT'], or the exception class"""
    from configparser import ConfigParser
    parser = ConfigParser(interpolation=None)
    try:
        parser.read_string('[DEFAULT]\n' + text)
        return [[k, v] for k, v in parser['DEFAULT'].items()]
    except Exception as e:     # noqa
        return type(e).__name__


def _library_defaults(text):
    """the DEFAULT section as read_client_conf's own reader call sees a configuration file with this content: the
    function runs under the virtual os/open with the text as the user's client.conf, and the parser object it creates is
    looked at afterwards.  [[name, value], ...] or the class name of the configparser exception"""
    import configparser
    made = []

    class Recording(configparser.ConfigParser):
        def __init__(self, *a, **k):
            super().__init__(*a, **k)
            made.append(self)
    home = '/home/u'
    with Virt(home, [], {home + '/.ndn/client.conf': text}, {}) as v:
        old = v.cc.ConfigParser
        v.cc.ConfigParser = Recording
        try:
            v.cc.read_client_conf()
        except configparser.Error as e:
            return type(e).__name__
        except Exception:     # noqa  (a later step, e.g. a store value with two colons: the file was read)
            pass
        finally:
            v.cc.ConfigParser = old
    if len(made) != 1:
        return 'reader-not-used-once'
    return [[k, val] for k, val in made[0]['DEFAULT'].items()]


SOUP = ' \t=:#;[]aAbk%\x0c'
LINE_SHAPES = ['a=1', 'A = 2', 'b: x y', 'b=', 'k', '# c', ' ; c', '', '  ', '\t', '[s]', '[t]', '[DEFAULT]', ' [s] ', '[]', '[x',
               '  a=3', '   cont', ' more', '\tk = v', '=v', ' : ', 'a b = c d', 'k%=%(x)s', 'transport = unix:///a',
               'pib=pib-sqlite3:/x', '    tpm : tpm-file:', 'a=1 ; x', 'a;b=1', '#a=1', '[a]b]c', 'x]=1', '[=]', '[:]', 'b\x0c= 1\x0c']


def _valid_text_lines(rng):
    """a text the reader accepts: options with names unique per section (case-insensitively), values, comments, blank
    lines, continuation lines deeper than their option, section headers with unique names, DEFAULT re-opened"""
    lines, used, sect, sects = [], {'DEFAULT': set()}, 'DEFAULT', {'DEFAULT'}
    pool = ['transport', 'pib', 'tpm', 'a', 'b', 'my key', 'K', 'x.y', 'a%b', 'k[0]', 'q;r', 'z#']
    ind = rng.choice(['', '', '', ' ', '\t'])
    for _ in range(rng.choice([0, 1, 2, 3, 4, 6, 8])):
        r = rng.random()
        if r < 0.15:
            lines.append(rng.choice(['# c', ';c', '  # c = d', '\t;', '#[s]', '; a=1']))
        elif r < 0.27:
            lines.append(rng.choice(['', '', ' ', '\t ', '\x0c']))
        elif r < 0.37:
            nm = rng.choice(['s', 't', 'extra', 'default', 'a]b', 'DEFAULT', 'DEFAULT', ' s'])
            if nm == 'DEFAULT' or nm not in sects:
                sects.add(nm)
                sect = nm
                used.setdefault(nm, set())
                ind = rng.choice(['', '', ' '])
                lines.append(ind + '[' + nm + ']' + rng.choice(['', '', ' ', ' tail', ']']) if nm != 'DEFAULT' or rng.random() < 0.8
                             else ind + '[DEFAULT]')
                if lines[-1].rstrip().endswith(']]') or ' tail' in lines[-1]:
                    pass
        else:
            free = [k for k in pool if k.lower() not in used[sect]]
            if not free:
                continue
            k = rng.choice(free)
            used[sect].add(k.lower())
            kk = rng.choice([k, k, k.upper(), k.capitalize()])
            v = rng.choice(['1', 'x y', '', 'unix:///a', 'pib-sqlite3:/p q', 'a=b', 'a:b', 'v ; c', 'v #c', '[v]', '%(x)s', '  '])
            lines.append(ind + kk + rng.choice(['=', ' = ', ':', ' : ', '\t=', '=\t', '  =  ']) + v + rng.choice(['', '', ' ', '\t']))
            while rng.random() < 0.3:
                lines.append(rng.choice([ind + ' ', ind + '  ', ind + '\t', ind + '     ']) +
                             rng.choice(['more', 'k = v', '[s]', '', '# c', 'x:y', '=', 'stray']))
    return lines


def _parse_case(rng):
    if rng.random() < 0.7:
        lines = _valid_text_lines(rng)
    else:
        lines = []
        for _ in range(rng.choice([0, 1, 2, 3, 3, 4, 5, 6, 9])):
            if rng.random() < 0.7:
                lines.append(rng.choice(LINE_SHAPES))
            else:
                lines.append(''.join(rng.choice(SOUP) for _ in range(rng.randint(0, 7))))
    eol = rng.choice(['\n', '\n', '\n', '\r\n', '\r'])
    return {'op': 'parse', 'text': eol.join(lines) + (eol if lines and rng.random() < 0.8 else '')}


def _targeted_parse():
    for t in ['', '\n', 'a=1', 'a=1\nA=2\n', 'a=1\n b\n\n c\n', '[s]\n[s]\n', 'k\n', '=v\n', '[s]\na=1\n[DEFAULT]\na=2\n',
              'a=1\n[s]\na=2\n[DEFAULT]\na=3\n', ' a=1\nb=2\n  c=3\n', 'a=1\nstray\n  x\n', 'a=\n  v\n', '[s]\n  a=1\n',
              'a=1\n#c\n  x\n', 'a=1\n  #c\n  x\n', 'a: b = c\n', 'a = b : c\n', 'A B  =  c  \n', '[]\n', '[ ]\n', '[x]y=1\n',
              'a=1\r\n  b\r\n', '=\n=\n', 'k\nk\n', 'a=1\n\n\n', '\n\na=1', 'a=1\n\t\n x\n']:
        yield {'op': 'parse', 'text': t}


# ------------------------------------------------------------------------------ real stores on a real file system
# (op 'store', oracle only).  The streams above see the file system as a predicate on strings and stop at the strings
# returned; this one builds the configured stores for real in a scratch directory whose names are drawn from everything
# a POSIX file name may hold, runs read_client_conf + default_keychain unpatched with HOME / NDN_CLIENT_* / the working
# directory set, and observes WHICH store is open (the identities the keychain lists, the keys its key store sees, where
# a key saved through it lands) and what happened to every other file.
T = '@T@'                                            # stands for the scratch directory in a case
PLAIN_PIECES = ['ndn', 'keys', 'store', 'pib', 'k', 'data', 'u', 'a', 'b1', 'X']
SPECIAL_PIECES = ['%41', '%20', '%2e', '%2F', '%00', '%C3%A9', '%', '%%', '%4', '%zz', '?', '?x=1', '?mode=ro', '#', '#2', ' ', '  ',
                  '~', '$', '$$', '${', '=', ';', '&', '+', ',', '@', '!', "'", '"', '(', ')', '[', ']', '{', '}', '*', '\\', '|', '<',
                  '>', '^', '`', 'é', 'é', 'ü', '名', 'ß', 'İ', '.', '..', '-', '\t', ':',
                  '[a]', '[!a]', '*.db', '{0}', '{}', '{a,b}', '%s', '%d', '%(x)s', '\\n', '\\x41', '&&', '$(id)', '(?i)', '.*', '^$', '\u212a']


def _component(rng, special, colon_ok=False, tail_ok=True):
    """one file name: plain, or plain pieces around 1-3 pieces that mean something to some parser (URI, shell, INI, glob)"""
    if not special:
        return rng.choice(PLAIN_PIECES)
    while True:
        parts = []
        for _ in range(rng.choice([1, 1, 2, 3])):
            if rng.random() < 0.7:
                parts.append(rng.choice(PLAIN_PIECES))
            parts.append(rng.choice(SPECIAL_PIECES))
        if rng.random() < 0.7:
            parts.append(rng.choice(PLAIN_PIECES))
        c = ''.join(parts)
        if c in ('.', '..') or (':' in c and not colon_ok):
            continue
        if c != c.strip() and not tail_ok:           # (the INI reader strips the ends of a value: not a name a file can give)
            continue
        if c.startswith('~') and rng.random() < 0.8:
            continue
        if re.search(r'\$(\w|\{[^}]*\})', c):       # '$name' inside a name: see VERIF_C20_DOLLAR below
            continue
        return c


def _rel_path(rng, psp, tail_ok=False):
    n = rng.choice([1, 1, 2])
    cs = [_component(rng, rng.random() < psp, tail_ok=(tail_ok or i < n - 1)) for i in range(n)]
    if cs[0] != cs[0].lstrip():
        cs[0] = 'x' + cs[0]
    return '/'.join(cs)


def _misreadings(path):
    """other names a careless handler of `path` could end up at: URI decoding and truncation, stripped blanks and dots,
    case and Unicode normal forms, quotes dropped, '+' for blank, doubled characters halved"""
    import unicodedata
    from urllib.parse import unquote
    strip = lambda f: '/'.join(f(c) for c in path.split('/'))     # noqa
    out = []
    for v in (unquote(path), path.split('#')[0], path.split('?')[0], strip(str.strip), strip(lambda c: c.rstrip('.')),
              path.lower(), unicodedata.normalize('NFC', path), unicodedata.normalize('NFD', path),
              path.replace('"', '').replace("'", ''), path.replace('+', ' '), path.replace('%%', '%').replace('$$', '$'),
              path.replace('\\', '/'), path.split(';')[0], path.split(' ')[0], posixpath.normpath(path),
              re.sub(r'\[!?(.)\]', r'\1', path), path.replace('\\x41', 'A').replace('\\n', '\n'), path.casefold()):
        v = v.replace(T.lower(), T)
        if (v != path and v.startswith(T + '/') and '\x00' not in v and v not in out
                and all(c and c not in ('.', '..') for c in v[len(T) + 1:].split('/'))):
            out.append(v)
    return out


def _store_case(rng, dollar=False):
    psp = rng.choice([0.0, 0.5, 0.9, 0.9])
    home = T + '/' + '/'.join(_component(rng, rng.random() < psp, colon_ok=True) for _ in range(rng.choice([1, 1, 2])))
    if dollar:
        home += rng.choice(['/a$HOME', '/${HOME}', '/u$NDN_CLIENT_PIB'])
    cwd = T + '/' + _component(rng, rng.random() < psp / 2)
    confdir = home + '/.ndn'
    dirs, labels = [], {'pib': 0, 'tpm': 0}

    def place(path, kind):
        if any(d[0] == path for d in dirs):
            return
        if kind == 'dir':
            dirs.append([path, 'dir', ''])
            return
        dirs.append([path, kind, '%s%d' % (kind[0], labels[kind])])
        labels[kind] += 1

    def setting(key):
        scheme = rng.choice(['pib-sqlite3'] * 7 + ['pib-memory', 'x', ''] if key == 'pib' else ['tpm-file'] * 7 + ['tpm-memory', 'y', ''])
        r = rng.random()
        if r < 0.1:
            return scheme + rng.choice(['', ':'])
        r = rng.random()
        if r < 0.4:
            loc = T + '/' + _rel_path(rng, psp)
            at = [loc]
        elif r < 0.75:
            loc = _rel_path(rng, psp)
            if rng.random() < 0.1:
                loc = '../' + loc
            at = [posixpath.join(confdir, loc)]
        else:
            loc = _rel_path(rng, psp)
            at = [posixpath.join(cwd, loc)] + ([posixpath.join(confdir, loc)] if rng.random() < 0.5 else [])
        if rng.random() < 0.85:
            for a in at:
                place(posixpath.normpath(a), key if rng.random() < 0.9 else 'dir')
        if rng.random() < 0.08:
            loc += '/'
        return scheme + ':' + loc

    env = {k: None for k in ENVKEYS}
    lines = None
    if rng.random() < 0.75:
        lines = []
        keys = [k for k in ENVKEYS if rng.random() < 0.75]
        rng.shuffle(keys)
        for k in keys:
            if rng.random() < 0.15:
                lines.append(rng.choice([['c', '# a comment'], ['b'], ['c', ';pib=pib-sqlite3:/commented']]))
            lines.append(['kv', k if rng.random() < 0.85 else k.upper(), rng.choice(TRANSPORTS) if k == 'transport' else setting(k),
                          rng.randrange(4)])
    for k in ENVKEYS:
        if rng.random() < 0.3:
            env[k] = rng.choice(TRANSPORTS) if k == 'transport' else setting(k)
    if lines is not None or rng.random() < 0.8:
        place(confdir, 'pib' if rng.random() < 0.75 else 'dir')
        if rng.random() < 0.8:
            place(confdir + '/ndnsec-key-file', 'tpm')
    # look-alike stores next to the real ones
    for path, kind, _ in list(dirs):
        for v in _misreadings(path):
            if rng.random() < 0.5:
                place(v, kind if kind != 'dir' else rng.choice(['pib', 'tpm']))
    rng.shuffle(dirs)
    case = {'op': 'store', 'home': home, 'cwd': cwd, 'conf': lines, 'env': env, 'dirs': dirs}
    if rng.random() < 0.2:
        case['eol'] = 'crlf'
    return case


def _targeted_store():
    """a configured store and a different store under the name a URI / shell / INI reading of the configured name gives,
    reached through each source in turn: the file (absolute, relative to the file), the environment over a file naming the
    look-alike, the platform default under a HOME with such a name, the working directory"""
    pairs = [('ndn%20store', 'ndn store'), ('pib#2', 'pib'), ('k?mode=ro', 'k'), ('a%41', 'aA'), ('keys.', 'keys'), ('k ;x', 'k'),
             ('sté', 'sté'), ('Keys', 'keys'), ('a+b', 'a b'), ("'q'", 'q'), ('a%2Fb', 'a/b'), ('k[a]', 'ka'), ('plain', 'other')]
    for real, fake in pairs:
        for hsp in (False, True):
            home = T + '/' + (real if hsp else 'home') + '/u'
            confdir = home + '/.ndn'
            dflt = [[confdir, 'pib', 'p9'], [confdir + '/ndnsec-key-file', 'tpm', 't9']]
            both = lambda base: [[base + '/' + real, 'pib', 'p0'], [base + '/' + fake, 'pib', 'p1'],     # noqa
                                 [base + '/' + real + '/t', 'tpm', 't0'], [base + '/' + fake + '/t', 'tpm', 't1']]
            none = {k: None for k in ENVKEYS}
            base = {'op': 'store', 'home': home, 'cwd': T + '/cwd'}
            ab = T + '/srv'
            yield dict(base, env=none, dirs=both(ab) + dflt,
                       conf=[['kv', 'pib', 'pib-sqlite3:' + ab + '/' + real, 0], ['kv', 'tpm', 'tpm-file:' + ab + '/' + real + '/t', 1]])
            yield dict(base, env=none, dirs=both(confdir) + dflt,
                       conf=[['kv', 'pib', 'pib-sqlite3:' + real, 2], ['kv', 'tpm', 'tpm-file:' + real + '/t', 0]])
            yield dict(base, env={'transport': None, 'pib': 'pib-sqlite3:' + ab + '/' + real, 'tpm': 'tpm-file:' + ab + '/' + real + '/t'},
                       dirs=both(ab) + dflt,
                       conf=[['kv', 'pib', 'pib-sqlite3:' + ab + '/' + fake, 0], ['kv', 'tpm', 'tpm-file:' + ab + '/' + fake + '/t', 1]])
            yield dict(base, env={'transport': None, 'pib': 'pib-sqlite3:' + real, 'tpm': 'tpm-file:' + real + '/t'},
                       dirs=both(T + '/cwd') + dflt, conf=None)
            if hsp:
                fh = T + '/' + fake + '/u/.ndn'
                yield dict(base, env=none, conf=None, dirs=dflt + [[fh, 'pib', 'p1'], [fh + '/ndnsec-key-file', 'tpm', 't1']])
                yield dict(base, env=none, conf=[['kv', 'transport', 'tcp://h:1', 0]],
                           dirs=dflt + [[fh, 'pib', 'p1'], [fh + '/ndnsec-key-file', 'tpm', 't1']])


# ---- the FILE-SYSTEM SHAPE of the locations (same op 'store'): symbolic links and non-normalised spellings.
# A configured string and the directory it denotes are two things as soon as the path holds a symbolic link: the operating
# system resolves 'link/..' to the parent of the link's TARGET, a textual clean-up (normpath / abspath / relpath / pathlib
# arithmetic) to the directory holding the link.  Here every name of the layout - HOME, ~/.ndn, client.conf, the working
# directory, each pib / tpm location, the store's own files - may be reached through links (to directories and to files,
# relative and absolute targets, chains, dangling) with '.', '..', doubled and trailing slashes before and after them, and
# the working directory may change between read_client_conf, default_keychain and the first use of the store.  The case
# only SPELLS paths; which directory a string denotes is measured from the operating system (realpath) by the harness
# before the library runs.
class _Fs:
    """the layout under construction: real directories (case['dirs']), links in creation order, fresh names"""

    def __init__(self, rng):
        self.rng, self.dirs, self.links, self.n = rng, [], [], 0
        self.labels = {'pib': 0, 'tpm': 0}

    def fresh(self, stem=None):
        self.n += 1
        return (stem or self.rng.choice(['lnk', 'cur', 'latest', 'L', 'to', 'ref', '.l'])) + str(self.n)

    def place(self, path, kind, via=None):
        """a real directory at the (link-free, normalised) path; kind 'pib' / 'tpm': with a store of its own label in it"""
        have = [d for d in self.dirs if d[0] == path]
        if path == T or kind == 'dir' and have or have and have[0][1] != 'dir':
            return
        if kind == 'dir':
            self.dirs.append([path, 'dir', ''])
            return
        if have:                                    # (a plain directory made on the way becomes the store)
            self.dirs.remove(have[0])
        self.dirs.append([path, kind, '%s%d' % (kind[0], self.labels[kind])] + (via or []))
        self.labels[kind] += 1

    def target(self, frm, to):
        """text of a link that lives in the real directory `frm` and leads to the real path `to`: absolute or relative"""
        if self.rng.random() < 0.5:
            return to
        return posixpath.relpath('/' + to, '/' + frm)

    def link(self, frm, name, to, chain_ok=True):
        """frm/name -> to; one in four through a second link kept elsewhere (a chain)"""
        if chain_ok and self.rng.random() < 0.25:
            mid = T + '/.links'
            self.place(mid, 'dir')
            m = self.fresh('m')
            self.links.append([mid + '/' + m, self.target(mid, to)])
            to = mid + '/' + m
        self.links.append([frm + '/' + name, self.target(frm, to)])


def _fs_resolve(links, path):
    """where the layout of the CASE puts the T-based absolute `path` (used by the generator only, to place look-alike
    stores where a textual reading of a spelling ends up; the oracle measures with the operating system)"""
    table = {l: t for l, t in links}
    cur, todo, hops = T, path[len(T):].split('/'), 0
    while todo:
        c = todo.pop(0)
        if c in ('', '.'):
            continue
        if c == '..':
            cur = posixpath.dirname(cur) if cur != T else T
            continue
        nxt = cur + '/' + c
        if nxt in table:
            hops += 1
            if hops > 40:
                return None
            t = table[nxt]
            if t.startswith(T):
                cur, todo = T, t[len(T):].split('/') + todo
            else:
                todo = t.split('/') + todo
            continue
        cur = nxt
    return cur


def _spell(rng, fs, start, goal, plink=0.35, tail=True):
    """a path string the operating system resolves to the real directory `goal`: absolute (start None; from the scratch
    root) or relative to the real directory `start`.  Walks towards the goal and on the way takes detours through fresh
    symbolic links (to the goal itself, to a directory above it, to a directory BESIDE the way so that '..' follows the
    link, anywhere), '.', doubled slashes and 'child/..' through real directories"""
    parts, cur, nl = [], (T if start is None else start), 0
    for step in range(60):
        if cur == goal and parts and (step >= 12 or rng.random() < 0.6):
            break
        r = rng.random()
        if step < 12 and nl < 2 and r < plink:
            up = [goal]
            while up[-1] != T:
                up.append(posixpath.dirname(up[-1]))
            q = rng.random()
            if q < 0.2:
                dest = goal
            elif q < 0.4:
                dest = rng.choice(up)
            elif q < 0.85 or not fs.dirs:
                dest = rng.choice(up[1:] or up) + '/' + fs.fresh(rng.choice(['vault', 'sub', 'v', 'opt']))
                if rng.random() < 0.5:
                    dest += '/' + rng.choice(PLAIN_PIECES)
            else:
                dest = rng.choice(fs.dirs)[0]
            fs.place(dest, 'dir')
            name = fs.fresh()
            fs.link(cur, name, dest)
            parts.append(name)
            cur, nl = dest, nl + 1
        elif step < 12 and r < plink + 0.2:
            d = rng.choice(['.', '', 'x/..'])
            if d == 'x/..':
                child = fs.fresh('d')
                fs.place(cur + '/' + child, 'dir')
                parts += [child, '..']
            elif d == '.' or parts or start is None:
                parts.append(d)
        elif cur == goal:
            continue
        elif goal.startswith(cur + '/'):
            c = goal[len(cur) + 1:].split('/')[0]
            parts.append(c)
            cur += '/' + c
        else:
            parts.append('..')
            cur = posixpath.dirname(cur)
    assert cur == goal
    if tail and rng.random() < 0.1:
        parts.append(rng.choice(['', '.']))
    while not tail and parts[-1] == '':      # (HOME: '~' drops trailing slashes of it)
        parts.pop()
    s = '/'.join(parts)
    return T + '/' + s if start is None else s


def _shaped_store_case(rng):
    psp = rng.choice([0.0, 0.0, 0.4])
    comp = lambda: _component(rng, rng.random() < psp, tail_ok=False).lstrip() or 'k'        # noqa
    fs = _Fs(rng)
    H = T + '/' + '/'.join(comp() for _ in range(rng.choice([1, 2, 2])))
    W = T + '/' + comp()
    if W == H or H.startswith(W + '/'):
        W += 'w'
    fs.place(H, 'dir')
    fs.place(W, 'dir')
    # ~/.ndn: a real directory, or a link into a checkout somewhere else
    if rng.random() < 0.35:
        C = T + '/' + rng.choice(['dotfiles', 'etc', 'cfg']) + '/' + comp()
        fs.place(C, 'dir')
        fs.link(H, '.ndn', C)
    else:
        C = H + '/.ndn'
    home_s = _spell(rng, fs, None, H, tail=False) if rng.random() < 0.5 else H
    cwd_s = _spell(rng, fs, None, W) if rng.random() < 0.25 else W
    confdir_s = home_s + '/.ndn'
    case = {'op': 'store', 'home': home_s, 'cwd': cwd_s}

    def near(base):
        """a real directory under, beside or away from `base`"""
        r = rng.random()
        rel = '/'.join(comp() for _ in range(rng.choice([1, 1, 2])))
        if r < 0.4:
            return base + '/' + rel
        if r < 0.7 and base != T and posixpath.dirname(base) != T:
            return posixpath.dirname(base) + '/' + rel
        return T + '/' + rel

    def decoy(abs_spelling, goal, kind):
        """a look-alike store where the textual clean-up of the spelling ends up"""
        d = _fs_resolve(fs.links, posixpath.normpath(abs_spelling))
        if d and d != goal and d != T and rng.random() < 0.8:
            fs.place(d, kind)

    def setting(key):
        scheme = rng.choice(['pib-sqlite3'] * 14 + ['pib-memory', 'x'] if key == 'pib' else ['tpm-file'] * 14 + ['tpm-memory', 'y'])
        kind = key if rng.random() < 0.9 else 'dir'
        via = None
        if rng.random() < 0.15:      # the store's own files are links to files kept elsewhere
            via = [T + '/blobs/' + fs.fresh('b'), rng.choice(['abs', 'rel'])]
        r = rng.random()
        if r < 0.05:                 # a link that leads nowhere: the location does not exist
            name = fs.fresh('gone')
            fs.links.append([W + '/' + name, rng.choice([T + '/nowhere', 'nowhere/x', name])])
            return scheme + ':' + rng.choice([W + '/' + name, name])
        if r < 0.4:
            P = near(T)
            loc = _spell(rng, fs, None, P)
            full = loc
        elif r < 0.8:
            P = near(C)
            loc = _spell(rng, fs, C, P) if P != C else 'k'
            full = confdir_s + '/' + loc
        else:
            P = near(W)
            loc = _spell(rng, fs, W, P) if P != W else 'k'
            full = cwd_s + '/' + loc
        if ':' in loc:
            return scheme
        if rng.random() < 0.9:
            fs.place(P, kind, via)
        decoy(full, P, kind)
        return scheme + ':' + loc

    env = {k: None for k in ENVKEYS}
    lines = None
    if rng.random() < 0.75:
        lines = []
        keys = [k for k in ENVKEYS if rng.random() < 0.8]
        rng.shuffle(keys)
        for k in keys:
            lines.append(['kv', k, rng.choice(TRANSPORTS) if k == 'transport' else setting(k), rng.randrange(4)])
        if rng.random() < 0.25:      # client.conf itself is a link to a file kept elsewhere
            F = T + '/' + rng.choice(['dotfiles', 'share']) + '/' + fs.fresh('conf')
            case['conf_link'] = [F, fs.target(C, F)]
            for l in lines:          # ... and a look-alike store relative to where that file really is
                if l[1] != 'transport' and ':' in l[2] and not l[2].split(':')[1].startswith(T):
                    decoy(posixpath.dirname(F) + '/' + l[2].split(':')[1], None, l[1])
    for k in ENVKEYS:
        if rng.random() < 0.3:
            env[k] = rng.choice(TRANSPORTS) if k == 'transport' else setting(k)
    if lines is not None or rng.random() < 0.8:
        fs.place(C, 'pib' if rng.random() < 0.75 else 'dir')
        if rng.random() < 0.8:
            fs.place(C + '/ndnsec-key-file', 'tpm')
        decoy(confdir_s, C, 'pib')
        decoy(confdir_s + '/ndnsec-key-file', C + '/ndnsec-key-file', 'tpm')
    if rng.random() < 0.3:           # the application changes its working directory between the steps
        other = [W, H, T + '/' + fs.fresh('wd')]
        ch = [rng.choice(other) if rng.random() < 0.6 else None for _ in range(2)]
        for d in ch:
            if d:
                fs.place(d, 'dir')
        if any(ch):
            case['chdir'] = ch
    rng.shuffle(fs.dirs)
    case.update(conf=lines, env=env, dirs=fs.dirs, links=fs.links)
    return case


def _targeted_shapes():
    """the shapes one at a time, for every source of a location: a link BEFORE '..' (absolute / relative target / chain),
    the store itself a link, ~/.ndn a link, HOME through a link, client.conf a link to a file, the store's files links, a
    working directory entered through a link, plain '.', '//' and 'dir/..'; each also with the working directory changed
    after read_client_conf / after default_keychain.  A look-alike store stands where the textual clean-up ends up"""
    none = {k: None for k in ENVKEYS}
    H, W = T + '/home/u', T + '/cwd'
    dflt = [[H + '/.ndn', 'pib', 'p9'], [H + '/.ndn/ndnsec-key-file', 'tpm', 't9']]
    stores = lambda real, fake: [[real, 'pib', 'p0'], [real + '/t', 'tpm', 't0'], [fake, 'pib', 'p1'], [fake + '/t', 'tpm', 't1']]     # noqa
    kv = lambda loc: [['kv', 'pib', 'pib-sqlite3:' + loc, 0], ['kv', 'tpm', 'tpm-file:' + loc + '/t', 1]]     # noqa
    ev = lambda loc: {'transport': None, 'pib': 'pib-sqlite3:' + loc, 'tpm': 'tpm-file:' + loc + '/t'}     # noqa
    out = []
    for links in ([[T + '/link', T + '/vault/sub']], [[T + '/link', 'vault/sub']],
                  [[T + '/l2', 'vault/sub'], [T + '/link', 'l2']], [[T + '/.m/l2', T + '/vault/sub'], [T + '/link', '.m/l2']]):
        base = {'op': 'store', 'home': H, 'cwd': W, 'links': links,
                'dirs': stores(T + '/vault/keys', T + '/keys') + dflt + [[T + '/vault/sub', 'dir', ''], [W, 'dir', '']]}
        for sp in (T + '/link/../keys', T + '/link/.././keys', T + '//link/..//keys')[:3 if len(out) == 0 else 1]:
            out.append(dict(base, env=none, conf=kv(sp)))
            out.append(dict(base, env=ev(sp), conf=kv(T + '/keys')))
        out.append(dict(base, env=ev(sp), conf=None))
    # ~/.ndn is a link; locations relative to the file, and the default location
    for tgt in (T + '/dotfiles/ndn', '../../dotfiles/ndn'):
        base = {'op': 'store', 'home': H, 'cwd': W, 'links': [[H + '/.ndn', tgt]], 'env': none,
                'dirs': stores(T + '/dotfiles/ndn-keys', H + '/ndn-keys') + [[T + '/dotfiles/ndn', 'pib', 'p9'],
                                                                             [T + '/dotfiles/ndn/ndnsec-key-file', 'tpm', 't9']]}
        out.append(dict(base, conf=kv('../ndn-keys')))
        out.append(dict(base, conf=kv('./../ndn-keys/')[:1] + kv('../ndn-keys')[1:]))
        out.append(dict(base, conf=[['kv', 'transport', 'tcp://h:1', 0]]))
        out.append(dict(base, conf=None))
    # HOME through a link followed by '..'
    base = {'op': 'store', 'home': T + '/hl/../u2', 'cwd': W, 'links': [[T + '/hl', 'homes/x/y']], 'env': none,
            'dirs': [[T + '/homes/x/y', 'dir', ''], [T + '/homes/x/u2/.ndn', 'pib', 'p0'], [T + '/homes/x/u2/.ndn/ndnsec-key-file', 'tpm', 't0'],
                     [T + '/u2/.ndn', 'pib', 'p1'], [T + '/u2/.ndn/ndnsec-key-file', 'tpm', 't1']] + stores(T + '/homes/x/u2/.ndn/k', T + '/u2/.ndn/k')}
    out += [dict(base, conf=None), dict(base, conf=[['kv', 'transport', 'tcp://h:1', 0]]), dict(base, conf=kv('k'))]
    # client.conf is a link to a file kept elsewhere: relative locations are relative to the directory of the file found
    for tgt in (T + '/dotfiles/client.conf', '../../../dotfiles/client.conf'):
        out.append({'op': 'store', 'home': H, 'cwd': W, 'env': none, 'conf': kv('keys'), 'conf_link': [T + '/dotfiles/client.conf', tgt],
                    'dirs': stores(H + '/.ndn/keys', T + '/dotfiles/keys') + dflt})
    # the working directory was entered through a link; a location relative to it
    base = {'op': 'store', 'home': H, 'cwd': T + '/cwdlink', 'links': [[T + '/cwdlink', 'vault/sub']],
            'dirs': stores(T + '/vault/keys', T + '/keys') + dflt + [[T + '/vault/sub', 'dir', '']]}
    out += [dict(base, env=ev('../keys'), conf=None), dict(base, env=none, conf=kv('../keys'))]
    base = {'op': 'store', 'home': H, 'cwd': W, 'links': [[W + '/lk', '../vault/sub']],
            'dirs': stores(T + '/vault/keys', W + '/keys') + dflt + [[T + '/vault/sub', 'dir', '']]}
    out += [dict(base, env=ev('lk/../keys'), conf=None), dict(base, env=none, conf=kv('lk/../keys'))]
    # the store itself is a link / its files are links / a link to nowhere
    base = {'op': 'store', 'home': H, 'cwd': W, 'links': [[T + '/cur', 'stores/v2'], [T + '/curt', T + '/stores/v2/t'], [T + '/gone', 'nowhere']],
            'dirs': [[T + '/stores/v2', 'pib', 'p0'], [T + '/stores/v2/t', 'tpm', 't0'], [T + '/stores/v1', 'pib', 'p1'], [T + '/stores/v1/t', 'tpm', 't1']] + dflt}
    out.append(dict(base, env=none, conf=[['kv', 'pib', 'pib-sqlite3:' + T + '/cur', 0], ['kv', 'tpm', 'tpm-file:' + T + '/curt', 1]]))
    out.append(dict(base, env=ev(T + '/cur'), conf=None))
    out.append(dict(base, env=none, conf=kv(T + '/gone')))
    for how in ('abs', 'rel'):
        out.append({'op': 'store', 'home': H, 'cwd': W, 'env': none, 'conf': kv(T + '/srv/keys'),
                    'dirs': [[T + '/srv/keys', 'pib', 'p0', T + '/blobs/a', how], [T + '/srv/keys/t', 'tpm', 't0', T + '/blobs/b', how]] + dflt})
    # no link at all: '.', '//', 'dir/..', trailing slash
    base = {'op': 'store', 'home': H, 'cwd': W, 'dirs': stores(T + '/srv/keys', T + '/srv/d/keys') + dflt + [[T + '/srv/d', 'dir', '']]}
    for sp in (T + '/srv/d/../keys', T + '/srv/./keys', T + '/srv//keys', T + '/srv/keys/.'):
        out.append(dict(base, env=none, conf=kv(sp)))
    for i, c in enumerate(out):
        yield c
        # the working directory changes while the configured names are absolute or relative to the file
        if c['conf'] is not None and all(v is None for v in c['env'].values()):
            ch = [[T + '/elsewhere', None], [None, T + '/elsewhere'], [T + '/elsewhere', H]][i % 3]
            yield dict(c, chdir=ch, dirs=c['dirs'] + [[T + '/elsewhere', 'dir', '']])


def cases(rng, tier):
    yield from _targeted_parse()
    for i in range(3000 if tier == 'quick' else 60000):
        yield _parse_case(rng)
    yield from _targeted_conf()
    yield from _targeted_home()
    yield from _targeted_face()
    n = 2500 if tier == 'quick' else 60000
    for i in range(n):
        yield _conf_case(rng)
    for i in range(n):
        yield _face_case(rng) if rng.random() < 0.93 else _unix_case(rng)
    for i in range(n // 5):
        yield _kc_case(rng)
    yield from _targeted_store()
    dollar = bool(os.environ.get('VERIF_C20_DOLLAR'))      # HOME holding the text '$HOME': see the finding in RULE
    for i in range(120 if tier == 'quick' else 8000):
        yield _store_case(rng, dollar and i % 4 == 0)
    yield from _targeted_shapes()
    for i in range(80 if tier == 'quick' else 8000):
        yield _shaped_store_case(rng)


def shrink(case):
    if case['op'] == 'conf':
        for k in ENVKEYS:
            if case['env'][k] is not None:
                yield dict(case, env=dict(case['env'], **{k: None}))
        fs = case['files']
        for i in range(len(fs)):
            yield dict(case, files=fs[:i] + fs[i + 1:])
        for i, (p, ls) in enumerate(fs):
            for j in range(len(ls)):
                yield dict(case, files=fs[:i] + [[p, ls[:j] + ls[j + 1:]]] + fs[i + 1:])
        ex = case['exists']
        for i in range(len(ex)):
            yield dict(case, exists=ex[:i] + ex[i + 1:])
    elif case['op'] == 'store':
        for k in ENVKEYS:
            if case['env'][k] is not None:
                yield dict(case, env=dict(case['env'], **{k: None}))
        for k in ('chdir', 'conf_link', 'links'):
            if case.get(k):
                yield {kk: v for kk, v in case.items() if kk != k}
        ls = case.get('links') or []
        for i in range(len(ls)):
            yield dict(case, links=ls[:i] + ls[i + 1:])
        ds = case['dirs']
        for i in range(len(ds)):
            yield dict(case, dirs=ds[:i] + ds[i + 1:])
        for i in range(len(ds)):
            if len(ds[i]) > 3:
                yield dict(case, dirs=ds[:i] + [ds[i][:3]] + ds[i + 1:])
        if case['conf'] is not None:
            yield dict(case, conf=None)
            ls = case['conf']
            for j in range(len(ls)):
                yield dict(case, conf=ls[:j] + ls[j + 1:])
        if 'eol' in case:
            yield {k: v for k, v in case.items() if k != 'eol'}
    elif case['op'] == 'face':
        u = case['uri']
        for i in range(len(u)):
            yield {'op': 'face', 'uri': u[:i] + u[i + 1:], 'gen': 'shrunk'}
    elif case['op'] == 'parse':
        ls = case['text'].split('\n')
        for i in range(len(ls)):
            yield {'op': 'parse', 'text': '\n'.join(ls[:i] + ls[i + 1:])}
        t = case['text']
        for i in range(len(t)):
            if t[i] != '\n':
                yield {'op': 'parse', 'text': t[:i] + t[i + 1:]}


# ------------------------------------------------------------------------------ implementation
def _exc(e):
    return 'ValueError' if type(e) is ValueError else 'Other:' + type(e).__name__


def _netloc(uri):
    """netloc as urlsplit computes it (only to ask the library's own bracketed-host checker)"""
    m = re.match(r'([A-Za-z][A-Za-z0-9+.\-]*):', uri)
    rest = uri[m.end():] if m else uri
    if rest[:2] != '//':
        return ''
    return re.split(r'[/?#]', rest[2:], maxsplit=1)[0]


def _bracket_ok(uri):
    import urllib.parse as up
    nl = _netloc(uri)
    if '[' in nl and ']' in nl:
        try:
            up._check_bracketed_host(nl.partition('[')[2].partition(']')[0])
        except ValueError:
            return False
    return True


# ---- op 'store': the real functions on a real scratch directory
_TEMPLATES = {}


def _scratch_parent():
    return '/dev/shm' if os.path.isdir('/dev/shm') and os.access('/dev/shm', os.W_OK) else None


def _template(kind, label):
    """content of a store as the library itself writes it (made once per run in a plainly named directory): a PIB whose only
    identity is /pib/<label>, or the file a file key store keeps for the key /tpm/<label>/KEY/k -> {file name: bytes}"""
    if (kind, label) in _TEMPLATES:
        return _TEMPLATES[kind, label]
    import tempfile, shutil, sqlite3
    from ndn.encoding import Name
    d = tempfile.mkdtemp(prefix='c20tpl', dir=_scratch_parent())
    try:
        if kind == 'pib':
            from ndn.security import KeychainSqlite3
            assert KeychainSqlite3.initialize(d + '/s/pib.db', 'tpm-file', d + '/s/t')
            conn = sqlite3.connect(d + '/s/pib.db')
            conn.execute('INSERT INTO identities (identity, is_default) VALUES (?, 1)', (bytes(Name.to_bytes('/pib/' + label)),))
            conn.commit()
            conn.close()
            out = {'pib.db': open(d + '/s/pib.db', 'rb').read()}
        else:
            from ndn.security import TpmFile
            os.mkdir(d + '/t')
            TpmFile(d + '/t').save_key(Name.from_str('/tpm/' + label + '/KEY/k'), b'marker ' + label.encode())
            out = {f: open(d + '/t/' + f, 'rb').read() for f in os.listdir(d + '/t')}
    finally:
        shutil.rmtree(d, ignore_errors=True)
    _TEMPLATES[kind, label] = out
    return out


def _snapshot(root):
    """every entry below root -> 'dir' or (inode, digest of the content) of a file"""
    import hashlib
    snap, todo = {}, [root]
    while todo:
        d = todo.pop()
        with os.scandir(d) as it:
            for e in it:
                if e.is_dir(follow_symlinks=False):
                    snap[e.path] = 'dir'
                    todo.append(e.path)
                else:
                    try:
                        with open(e.path, 'rb') as f:
                            snap[e.path] = (e.inode(), hashlib.sha1(f.read()).hexdigest())
                    except OSError:
                        snap[e.path] = (e.inode(), 'unreadable')
    return snap


def _store_settings(case):
    """from the statement: per store key the setting in force (environment, else the user's file, else the documented
    scheme) and the locations the statement speaks about, in order: as given, against the file's directory, the default"""
    conf = case['home'] + '/.ndn/client.conf' if case['conf'] is not None else None
    dflt = {'pib': case['home'] + '/.ndn', 'tpm': case['home'] + '/.ndn/ndnsec-key-file'}
    out = {}
    for k in ('transport', 'pib', 'tpm'):
        fv = None
        for l in case['conf'] or []:
            if l[0] == 'kv' and l[1].lower() == k and fv is None:
                fv = l[2]
        src = 'env' if case['env'][k] is not None else 'file' if fv is not None else 'default'
        val = case['env'][k] if src == 'env' else fv if src == 'file' else {'pib': 'pib-sqlite3', 'tpm': 'tpm-file', 'transport': None}[k]
        if k == 'transport':
            out[k] = {'src': src, 'value': val}
            continue
        sp = val.split(':')
        scheme, loc = (sp[0], '') if len(sp) == 1 else (sp[0], sp[1]) if len(sp) == 2 else (None, None)
        cands = []
        if loc:
            cands.append(loc)
            if conf is not None and not loc.startswith((T, '/')):
                cands.append(posixpath.join(posixpath.dirname(conf), loc))
        cands.append(dflt[k])
        out[k] = {'src': src, 'value': val, 'scheme': scheme, 'loc': loc, 'cands': cands}
    return out


def _run_store(case):
    import tempfile, shutil
    # the scratch directory lies DEEP inside a private one: a '..' too many in a spelling (a relative name read against another
    # directory than it was made for, a shrunk layout that lost a link) ends in an empty private directory; a layout with a
    # name that leads out of the private directory all the same is not run
    top = os.path.realpath(tempfile.mkdtemp(prefix='c20fs', dir=_scratch_parent()))
    root = top + '/0/1/2/3/4/5/6/7/8/9'
    os.makedirs(root)
    private = lambda q: os.path.realpath(q).startswith(top + '/')        # noqa
    real = lambda q: q.replace(T, root)        # noqa
    canon = lambda q: q.replace(root, T) if isinstance(q, str) else q        # noqa
    saved_env = {k: os.environ.get(k) for k in ['HOME'] + ['NDN_CLIENT_' + k.upper() for k in ENVKEYS]}
    saved_cwd = os.getcwd()
    obs = {'op': 'store', 'raised': None, 'result': None, 'kc_raised': None, 'kc': None, 'skip': None}
    try:
        try:
            where = {}
            for path, kind, label, *via in case['dirs']:
                os.makedirs(real(path), exist_ok=True)
                if kind != 'dir':
                    for fn, data in _template(kind, label).items():
                        dst = os.path.join(real(path), fn)
                        if via:          # the store's file is a symbolic link to a file kept in another directory
                            os.makedirs(real(via[0]), exist_ok=True)
                            blob = os.path.join(real(via[0]), fn)
                            os.symlink(blob if via[1] == 'abs' else os.path.relpath(blob, real(path)), dst)
                            dst = blob
                        with open(dst, 'wb') as f:
                            f.write(data)
                where[os.path.normpath(real(path))] = [kind, label]      # (no link exists yet: the path is the directory)
            for lpath, target in case.get('links', []):      # in order: a later link may be spelled through an earlier one
                os.makedirs(os.path.dirname(real(lpath)), exist_ok=True)
                os.symlink(real(target), real(lpath))
            for d in [case['home'], case['cwd']] + [d for d in case.get('chdir') or [] if d]:
                if not private(real(d)):
                    raise OSError('leads out of the scratch directory')
                if not os.path.isdir(real(d)):
                    os.makedirs(real(d))
            if case['conf'] is not None:
                os.makedirs(real(case['home']) + '/.ndn', exist_ok=True)
                text = render([[real(x) if isinstance(x, str) else x for x in l] for l in case['conf']],
                              '\r\n' if case.get('eol') == 'crlf' else '\n')
                conf_at = real(case['home']) + '/.ndn/client.conf'
                if case.get('conf_link'):                     # client.conf is a symbolic link to a file kept elsewhere
                    os.makedirs(os.path.dirname(real(case['conf_link'][0])), exist_ok=True)
                    os.symlink(real(case['conf_link'][1]), conf_at)
                    conf_at = real(case['conf_link'][0])
                with open(conf_at, 'w', newline='') as f:
                    f.write(text)
        except (OSError, UnicodeError) as e:     # a name this file system / locale cannot hold: no case
            obs['skip'] = type(e).__name__
            return obs
        os.chdir(real(case['cwd']))
        cwd = os.getcwd()
        os.environ['HOME'] = real(case['home'])
        for k in ENVKEYS:
            os.environ.pop('NDN_CLIENT_' + k.upper(), None)
            if case['env'][k] is not None:
                os.environ['NDN_CLIENT_' + k.upper()] = real(case['env'][k])
        # what is there, measured by the harness before the library runs
        at = {}
        for k, st in _store_settings(case).items():
            for c in st.get('cands', []):
                q = real(c)
                # whether the string names something, and WHICH directory it names, as the operating system resolves it now
                rp = os.path.realpath(q)
                if not rp.startswith(top + '/'):
                    obs['skip'] = 'leads out of the scratch directory'
                    return obs
                at[c] = [os.path.exists(q)] + where.get(rp, ['', '']) + [canon(rp)]
        obs['at'] = at
        obs['conf_visible'] = os.path.isfile(real(case['home']) + '/.ndn/client.conf')
        obs['other_conf'] = [q for q in ('/usr/local/etc/ndn/client.conf', '/opt/local/etc/ndn/client.conf', '/etc/ndn/client.conf')
                             if os.path.exists(q)]
        obs['sockets'] = [q for q in ('/run/nfd/nfd.sock', '/run/nfd.sock') if os.path.exists(q)]
        before = _snapshot(top)
        import ndn.client_conf as cc
        from ndn.encoding import Name
        try:
            res = cc.read_client_conf()
            obs['result'] = {k: canon(res.get(k)) for k in ENVKEYS} | {'extra_keys': sorted(set(res) - set(ENVKEYS))}
        except Exception as e:     # noqa
            obs['raised'] = _exc(e)
            return obs
        kc = None
        chdir = [real(d) if d else None for d in (case.get('chdir') or [None, None])]
        import sys
        hook, sys.unraisablehook = sys.unraisablehook, lambda *a: None     # (a keychain that failed to open complains in __del__)
        try:
            if chdir[0]:
                os.chdir(chdir[0])
            kc = cc.default_keychain(res['pib'], res['tpm'])
            if chdir[1]:
                os.chdir(chdir[1])
            labels = sorted({d[2] for d in case['dirs'] if d[1] == 'tpm'})
            seen = [l for l in labels if kc.tpm.key_exist(Name.from_str('/tpm/' + l + '/KEY/k'))]
            ids = sorted(Name.to_str(n) for n in kc)
            mid = _snapshot(top)
            kc.tpm.save_key(Name.from_str('/tpm/probe/KEY/k'), b'probe')
            obs['kc'] = {'identities': ids, 'keys_seen': seen}
        except Exception as e:     # noqa
            obs['kc_raised'] = _exc(e)
        finally:
            if kc is not None:
                try:
                    kc.shutdown()
                except Exception:     # noqa
                    pass
            kc = None
            sys.unraisablehook = hook
        after = _snapshot(top)
        if obs['kc'] is not None:
            obs['kc']['changed_by_open'] = sorted(canon(q) for q in set(before) | set(mid) if before.get(q) != mid.get(q))
            obs['kc']['changed_by_save'] = sorted(canon(q) for q in set(after) | set(mid) if after.get(q) != mid.get(q))
        else:
            obs['changed'] = sorted(canon(q) for q in set(before) | set(after) if before.get(q) != after.get(q))
        return obs
    finally:
        os.chdir(saved_cwd)
        for k, v in saved_env.items():
            if v is None:
                os.environ.pop(k, None)
            else:
                os.environ[k] = v
        shutil.rmtree(top, ignore_errors=True)


def _oracle_store(case, impl):
    if impl['skip']:
        return None
    st = _store_settings(case)
    if (case['conf'] is not None) != impl.get('conf_visible', case['conf'] is not None):
        return None                                        # (a shrunk layout whose client.conf is no longer reachable)
    if case['conf'] is None and impl['other_conf']:
        return None                                        # a system-wide file of this machine is in force: not this case's doing
    if case['conf'] is not None:
        keys = [l[1].lower() for l in case['conf'] if l[0] == 'kv']
        if len(keys) != len(set(keys)):
            return None
    if any(st[k]['scheme'] is None for k in ('pib', 'tpm')):
        return None                                        # scheme:loc:extra - the statement names no reading of it
    if impl['raised']:
        return f"read_client_conf raised {impl['raised']} on a well-formed configuration"
    res = impl['result']
    if res['extra_keys']:
        return 'result carries unexpected keys'
    want_tr = st['transport']['value']
    if want_tr is None:
        want_tr = 'unix:///run/nfd.sock' if impl['sockets'] == ['/run/nfd.sock'] else 'unix:///run/nfd/nfd.sock'
    if res['transport'] != want_tr:
        return f"transport: used {res['transport']!r}, expected {want_tr!r} (environment > first existing file > platform default)"
    want = {}
    for k in ('pib', 'tpm'):
        s = st[k]
        got = res[k]
        if not isinstance(got, str) or not got.startswith(s['scheme'] + ':'):
            return f"{k}: used {got!r}, expected the setting {s['value']!r} (environment > first existing file > platform default)"
        want[k] = next((c for c in s['cands'] if impl['at'][c][0]), None)
        if want[k] is not None and got[len(s['scheme']) + 1:] != want[k]:
            return f"{k}: location {got[len(s['scheme']) + 1:]!r} used, expected {want[k]!r}"
    # the stores behind the strings: both settings of a supported kind, both locations exist and hold what was put there
    if st['pib']['scheme'] != 'pib-sqlite3' or st['tpm']['scheme'] != 'tpm-file' or None in want.values():
        return None
    pk, pl = impl['at'][want['pib']][1:3]
    tk, tl = impl['at'][want['tpm']][1:3]
    if pk != 'pib':
        return None                                        # the configured location holds no public-information store
    if any(case.get('chdir') or []) and not all(want[k].startswith(T) for k in want):
        return None            # a name relative to the working directory, and the working directory changed: the statement names no reading
    if impl['kc_raised']:
        return (f"the configured public-information store {want['pib']!r} and key store {want['tpm']!r} exist but "
                f"could not be opened: {impl['kc_raised']}")
    kc = impl['kc']
    if kc['identities'] != ['/pib/' + pl]:
        return (f"public-information store {want['pib']!r} configured (it holds /pib/{pl}), the store in use "
                f"holds {kc['identities']}")
    # nothing but the configured stores may have been touched
    inside = lambda q, base: q == base or q.startswith(base.rstrip('/') + '/')        # noqa
    # (the directory each configured string denotes: as the operating system resolved it before the library ran; a store
    # whose files are links to files kept elsewhere reaches into that directory too)
    norm = {k: (impl['at'][want[k]][3] if len(impl['at'][want[k]]) > 3 else
                posixpath.normpath(want[k] if want[k].startswith(T) else posixpath.join(case['cwd'], want[k]))) for k in want}
    blobs = {k: [d[3] for d in case['dirs'] if d[0] == norm[k] and len(d) > 3] for k in want}
    for q in kc['changed_by_open']:
        if not inside(q, norm['pib']) and not any(inside(q, b) for b in blobs['pib']):
            return f"opening the store configured at {want['pib']!r} changed {q!r}"
    if tk == 'tpm' and kc['keys_seen'] != [tl]:
        return f"key store {want['tpm']!r} configured (it holds the key of {tl}), the key store in use sees the keys of {kc['keys_seen']}"
    if tk != 'tpm' and kc['keys_seen']:
        return f"key store {want['tpm']!r} configured (no key was put there), the key store in use sees the keys of {kc['keys_seen']}"
    if not kc['changed_by_save'] or not all(inside(q, norm['tpm']) for q in kc['changed_by_save']):
        return f"a key saved through the key store configured at {want['tpm']!r} changed {kc['changed_by_save']}"
    return None



def run_impl(case):
    if case['op'] == 'store':
        return _run_store(case)
    if case['op'] == 'conf':
        files = {p: _render_case(case, ls) for p, ls in case['files']}
        with _virt(case, files) as v:
            try:
                p = _platform()
                plat = {'conf_paths': list(p.client_conf_paths()), 'default_transport': p.default_transport(),
                        'pib_scheme': p.default_pib_scheme(), 'tpm_scheme': p.default_tpm_scheme(),
                        'pib_paths': list(p.default_pib_paths()), 'tpm_paths': list(p.default_tpm_paths()),
                        'class': type(p).__name__}
            except Exception as e:     # noqa  (a platform helper that cannot cope with this environment)
                return {'op': 'conf', 'result': None, 'raised': _exc(e), 'platform': None}
            try:
                res, raised = v.cc.read_client_conf(), None
                res = {k: res.get(k) for k in ENVKEYS} | {'extra_keys': sorted(set(res) - set(ENVKEYS))}
            except Exception as e:     # noqa
                res, raised = None, _exc(e)
        return {'op': 'conf', 'result': res, 'raised': raised, 'platform': plat}
    if case['op'] == 'parse':
        got = _library_defaults(case['text'])
        return {'op': 'parse', 'got': got, 'raised': got if isinstance(got, str) else None}
    if case['op'] == 'face':
        import ndn.client_conf as cc
        try:
            f = cc.default_face(case['uri'])
            t = type(f).__name__
            obs = [t, getattr(f, 'path', None)] if t == 'UnixFace' else [t, getattr(f, 'host', None), getattr(f, 'port', None)]
            return {'op': 'face', 'face': obs, 'raised': None, 'bracket_ok': _bracket_ok(case['uri'])}
        except Exception as e:         # noqa
            return {'op': 'face', 'face': None, 'raised': _exc(e), 'bracket_ok': _bracket_ok(case['uri'])}
    if case['op'] == 'kc':
        import ndn.client_conf as cc
        made = []

        class _Tpm:
            def __init__(self, path):
                self.path = path

        class _Kc:
            def __init__(self, db, tpm):
                made.append([db, getattr(tpm, 'path', '?')])
        old = (cc.TpmFile, cc.KeychainSqlite3)
        cc.TpmFile, cc.KeychainSqlite3 = _Tpm, _Kc
        try:
            cc.default_keychain(case['pib'], case['tpm'])
            return {'op': 'kc', 'made': made, 'raised': None}
        except Exception as e:         # noqa
            return {'op': 'kc', 'made': made, 'raised': _exc(e)}
        finally:
            cc.TpmFile, cc.KeychainSqlite3 = old
    raise ValueError('unknown op')


# ------------------------------------------------------------------------------ model
def _hx(s):
    assert all(32 < ord(c) < 127 for c in s), s
    return s.encode().hex() if s else '-'


def _hxa(s):
    """any ASCII text (configuration lines and the values read from them may hold blanks, tabs, newlines)"""
    assert all(ord(c) < 128 for c in s), s
    return s.encode().hex() if s else '-'


def _phys_lines(text):
    """the physical lines the reader iterates over, without terminators (text after universal-newline translation)"""
    text = text.replace('\r\n', '\n').replace('\r', '\n')
    ls = text.split('\n')
    if ls and ls[-1] == '':
        ls.pop()
    return ls


def _unhx(h):
    return '' if h == '-' else bytes.fromhex(h).decode()


def _in_grammar(s):
    return all(32 < ord(c) < 127 and c != '%' for c in s)


def model_line(case, impl):
    if case['op'] == 'store':
        return None                                        # real file system: oracle only
    if case['op'] == 'conf':
        if case.get('platform', 'linux') != 'linux':
            return None                                    # the generated table of the model is the running platform's
        texts = [_render_case(case, ls) for _, ls in case['files']]
        vals = [v for v in case['env'].values() if v is not None] + texts + list(case['exists'])
        # configuration values are literal text, % included (fixed in /repo: ConfigParser(interpolation=None))
        if not all(ord(c) < 128 for v in vals for c in v):
            return None
        fs = []
        for (p, _), text in zip(case['files'], texts):
            pl = _phys_lines(text)
            fs.append(_hx(p) + '>' + ('|'.join(_hxa(l) for l in pl) if pl else '_'))
        ex = sorted(set(case['exists']) | {p for p, _ in case['files']})
        env = [('~' if case['env'][k] is None else _hxa(case['env'][k])) for k in ENVKEYS]
        return ' '.join(['C20 conf', _hx(_eff_home(case)), ','.join(_hxa(e) for e in ex) if ex else '.',
                         ';'.join(fs) if fs else '.'] + env)
    if case['op'] == 'parse':
        if not all(ord(c) < 128 for c in case['text']):
            return None
        pl = _phys_lines(case['text'])
        return 'C20 parse ' + ('|'.join(_hxa(l) for l in pl) if pl else '_')
    if case['op'] == 'face':
        if not _in_grammar(case['uri']):
            return None
        return f"C20 face {_hx(case['uri'])} {1 if impl['bracket_ok'] else 0}"
    if case['op'] == 'kc':
        return f"C20 kc {_hx(case['pib'])} {_hx(case['tpm'])}"


def model_obs(answer, case, impl):
    t = answer.split()
    if case['op'] == 'parse':
        if t[0] == 'err':
            return ['err', t[1]]
        assert t[0] == 'ok', answer
        return ['ok', [] if t[1] == '_' else [[_unhx(x) for x in kv.split('=')] for kv in t[1].split('|')]]
    if t[0] == 'err':
        return ['err', 'ValueError' if t[1] == 'ValueError' else 'Other']
    assert t[0] == 'ok', answer
    if case['op'] == 'conf':
        return ['ok'] + [_unhx(x) for x in t[1:4]]
    if case['op'] == 'face':
        if t[1] == 'unix':
            return ['ok', 'UnixFace', _unhx(t[2])]
        return ['ok', {'tcp': 'TcpFace', 'udp': 'UdpFace'}[t[1]], None if t[2] == '~' else _unhx(t[2]), int(t[3])]
    return ['ok', _unhx(t[1]), _unhx(t[2])]


def impl_obs(impl):
    if impl['op'] == 'parse':
        return ['err', impl['got']] if isinstance(impl['got'], str) else ['ok', impl['got']]
    if impl['raised']:
        return ['err', 'ValueError' if impl['raised'] == 'ValueError' else 'Other']
    if impl['op'] == 'conf':
        return ['ok'] + [impl['result'][k] for k in ENVKEYS]
    if impl['op'] == 'face':
        return ['ok'] + impl['face']
    return ['ok'] + (impl['made'][0] if len(impl['made']) == 1 else ['?', impl['made']])


# ------------------------------------------------------------------------------ oracle (from the statement)
def _first_file_value(case, plat, key):
    """value of `key` in the first existing candidate file: (file or None, value or None, readable)"""
    files = {p: ls for p, ls in case['files']}
    present = set(case['exists']) | set(files)
    for p in plat['conf_paths']:
        if p in present:
            if any(l[0] == 'raw' for l in files.get(p, [])):
                # further shapes of the INI grammar (sections, continuation lines, ...): what "the value in the file" is
                # is left to the reader model (correspondence); the statement is not evaluated on such a file
                return p, None, False
            ls = [l for l in files.get(p, []) if l[0] == 'kv']
            keys = [l[1].lower() for l in ls]
            if len(set(keys)) != len(keys):
                return p, None, False                 # repeated option: not a well-formed file
            for l in ls:
                if l[1].lower() == key:
                    return p, l[2], True
            return p, None, True
    return None, None, True


def _spec_platform(home, present, platform='linux'):
    """the Linux defaults as documented for NDN client configuration (ndn-cxx `ndn-client.conf` manual / python-ndn docs):
    search order user file, /usr/local/etc, /opt/local/etc, /etc; SQLite PIB in ~/.ndn; file TPM in ~/.ndn/ndnsec-key-file;
    NFD's Unix socket /run/nfd/nfd.sock, the pre-2022 location /run/nfd.sock only when that one alone exists.
    macOS: the same search order and PIB, the OS keychain as TPM, NFD's socket under /var/run.
    `home` is what '~' denotes: $HOME when set, else the home directory of the password database."""
    run = '/var/run' if platform == 'darwin' else '/run'
    old_only = run + '/nfd/nfd.sock' not in present and run + '/nfd.sock' in present
    return {'conf_paths': [home + '/.ndn/client.conf', '/usr/local/etc/ndn/client.conf', '/opt/local/etc/ndn/client.conf',
                           '/etc/ndn/client.conf'],
            'default_transport': 'unix://' + run + ('/nfd.sock' if old_only else '/nfd/nfd.sock'),
            'pib_scheme': 'pib-sqlite3', 'tpm_scheme': 'tpm-osxkeychain' if platform == 'darwin' else 'tpm-file',
            'pib_paths': [home + '/.ndn'], 'tpm_paths': [home + '/.ndn/ndnsec-key-file'],
            'class': 'Darwin' if platform == 'darwin' else 'Linux'}


def oracle(case, impl):
    if case['op'] == 'store':
        return _oracle_store(case, impl)
    if case['op'] == 'conf':
        plat = impl['platform']
        if plat is None:
            return f"the platform defaults could not be determined: {impl['raised']}"
        present = set(case['exists']) | {p for p, _ in case['files']}
        # the platform defaults are judged against the documented ones, not taken on trust from the code under test
        import sys
        platform = case.get('platform', 'linux')
        if platform in ('linux', 'darwin') and (platform != 'linux' or sys.platform.startswith('linux')):
            spec = _spec_platform(_eff_home(case), present, platform)
            for k, v in spec.items():
                if plat.get(k) != v:
                    return f'platform default {k} is {plat.get(k)!r}, documented {v!r}'
        exp = {}
        conf = None
        for k in ENVKEYS:
            conf, fv, ok = _first_file_value(case, plat, k)
            if not ok:
                return None                                # statement is silent on malformed files
            if case['env'][k] is not None:
                exp[k] = case['env'][k]
            elif fv is not None:
                exp[k] = fv
            else:
                exp[k] = {'transport': plat['default_transport'], 'pib': plat['pib_scheme'], 'tpm': plat['tpm_scheme']}[k]
        wellformed = all(len(exp[k].split(':')) <= 2 for k in ('pib', 'tpm'))
        if impl['raised']:
            if wellformed:
                return f"read_client_conf raised {impl['raised']} on a well-formed configuration"
            return None
        res = impl['result']
        if res['extra_keys']:
            return 'result carries unexpected keys'
        if res['transport'] != exp['transport']:
            return f"transport: used {res['transport']!r}, expected {exp['transport']!r} (environment > first existing file > platform default)"
        for k in ('pib', 'tpm'):
            sp = exp[k].split(':')
            if len(sp) > 2:
                continue
            scheme, loc = (sp[0], '') if len(sp) == 1 else sp
            got = res[k]
            if not isinstance(got, str) or not got.startswith(scheme + ':'):
                return f'{k}: used {got!r}, expected the setting {exp[k]!r} (environment > first existing file > platform default)'
            gloc = got[len(scheme) + 1:]
            dflt = next((p for p in plat[k + '_paths'] if p in present), None)
            if loc and loc in present:
                want = loc
            elif loc and conf is not None and posixpath.join(posixpath.dirname(conf), loc) in present:
                want = posixpath.join(posixpath.dirname(conf), loc)
            elif dflt is not None:
                want = dflt
            else:
                continue            # nothing exists: the statement names no location to use
            if gloc != want:
                return f'{k}: location {gloc!r} used, expected {want!r}'
        return None
    if case['op'] == 'face' and case.get('gen') == 'unix-abs':
        # unix://<absolute path> denotes the Unix-socket face at exactly that path
        want = ['UnixFace', case['uri'][len('unix://'):]]
        if impl['raised'] or impl['face'] != want:
            return f'URI denotes {want}, got {impl["face"] or impl["raised"]}'
        return None
    if case['op'] == 'kc':
        # a store setting "scheme:location" of a supported scheme is used at the location as given
        mp = re.fullmatch(r'pib-sqlite3:(/.*)', case['pib'])
        mt = re.fullmatch(r'tpm-file:(/.*)', case['tpm'])
        if mp and mt:
            if impl['raised']:
                return f"default_keychain raised {impl['raised']} for supported schemes with locations"
            if len(impl['made']) != 1:
                return 'default_keychain did not build exactly one keychain'
            db, tp = impl['made'][0]
            if tp != mt.group(1):
                return f'key store opened at {tp!r}, configured {mt.group(1)!r}'
            if not isinstance(db, str) or posixpath.dirname(db) != (mp.group(1).rstrip('/') or '/'):
                return f'public-information store opened at {db!r}, not inside the configured {mp.group(1)!r}'
        return None
    if case['op'] == 'face':
        if case.get('gen') != 'structured' or case['sep'] != '://':
            return None
        scheme, host, port = case['scheme'], case['host'], case['port']
        if scheme not in FACE_SCHEMES:
            if scheme and re.fullmatch(r'[a-z][a-z0-9+.\-]*', scheme) and impl['raised'] is None:
                return f'unknown scheme {scheme!r} was not refused: {impl["face"]}'
            return None
        # a URI that denotes type/address/port: plain or bracketed host, decimal port in range
        m = re.fullmatch(r'[A-Za-z0-9.\-]+|\[[0-9A-Fa-f:]+\]', host)
        if not m or (host.startswith('[') and not impl['bracket_ok']):
            return None
        if port is not None and not (port.isdigit() and 0 < int(port) <= 65535):
            if port == '':
                port = None
            else:
                return None
        want = ['TcpFace' if scheme.startswith('tcp') else 'UdpFace', host.strip('[]').lower(), 6363 if port is None else int(port)]
        if impl['raised'] or impl['face'] != want:
            return f'URI denotes {want}, got {impl["face"] or impl["raised"]}'
        return None
    return None


def nontrivial(case, impl):
    if case['op'] == 'store':
        return bool(impl['kc'] and impl['kc']['identities'])
    if impl['raised']:
        return False
    if case['op'] == 'parse':
        return len(impl['got']) > 0
    if case['op'] == 'conf':
        return any(v is not None for v in case['env'].values()) or any(p in impl['platform']['conf_paths'] for p, _ in case['files'])
    return True


def tags(case, impl):
    t = ['op:' + case['op'], 'raised:' + str(impl['raised'])]
    if case['op'] == 'conf' and impl['platform'] is None:
        t.append('platform-helper-raised')
    elif case['op'] == 'conf':
        plat = impl['platform']
        present = set(case['exists']) | {p for p, _ in case['files']}
        t.append('platform:' + case.get('platform', 'linux') + ':home-' + case.get('home_env', 'set'))
        t.append('env:' + ''.join(k[0] if case['env'][k] is not None else '-' for k in ENVKEYS))
        t.append('files-existing:%d' % sum(1 for p in plat['conf_paths'] if p in present))
        if any(l[0] == 'raw' for _, ls in case['files'] for l in ls):
            t.append('conf:further-ini-shapes')
        t.append('default-transport:' + plat['default_transport'])
        if impl['result']:
            for k in ('pib', 'tpm'):
                conf, fv, ok = _first_file_value(case, plat, k)
                src = 'env' if case['env'][k] is not None else 'file' if fv is not None else 'default'
                raw = case['env'][k] if src == 'env' else fv if src == 'file' else plat[k + '_scheme']
                sp = raw.split(':')
                loc = sp[1] if len(sp) == 2 else ''
                got = impl['result'][k].split(':', 1)[1]
                how = ('noloc-' if not loc else '') + ('given' if loc and got == loc and loc in present else
                                                       'default' if got in plat[k + '_paths'] and got in present else
                                                       'relative' if got in present else 'nothing-exists')
                t.append(f'{k}:{src}:{how}')
    elif case['op'] == 'store':
        if impl['skip']:
            return t + ['store:skipped:' + impl['skip']]
        st = _store_settings(case)
        for k in ('pib', 'tpm'):
            if st[k]['scheme'] is None:
                t.append(f'store:{k}:three-part-value')
                continue
            i = next((j for j, c in enumerate(st[k]['cands']) if impl['at'][c][0]), None)
            how = 'nothing-exists' if i is None else 'default' if i == len(st[k]['cands']) - 1 else 'given' if i == 0 else 'relative'
            t.append(f"store:{k}:{st[k]['src']}:{how}")
            if i is not None:
                q = st[k]['cands'][i]
                a = impl['at'][q]
                if len(a) > 3:
                    lexical = posixpath.normpath(q if q.startswith(T) else posixpath.join(case['cwd'], q))
                    t.append(f'store:{k}-path:' + ('textual-cleanup-names-another-directory' if lexical != a[3] else
                                                   'not-normalised' if lexical != q.rstrip('/') else 'plain'))
                for name, pat in (('%HH', r'%[0-9A-Fa-f]{2}'), ('?', r'\?'), ('#', '#'), ('blank', r'\s'), ('non-ascii', r'[^\x00-\x7f]'),
                                  ('$', r'\$'), ('~', '~'), ('=;', '[=;]'), ('quote-glob', r'''['"*\[\]{}\\|<>^`()!&]'''), (':', ':'),
                                  ('trailing-dot', r'\.(/|$)')):
                    if re.search(pat, q[len(T):] if q.startswith(T) else q):
                        t.append(f'store:{k}-path-has:{name}')
        t.append('store:keychain:' + ('opened' if impl['kc'] else 'raised' if impl['kc_raised'] else 'not-reached'))
        for name, on in (('links', case.get('links')), ('client.conf-is-link', case.get('conf_link')), ('chdir', any(case.get('chdir') or [])),
                         ('store-files-are-links', any(len(d) > 3 for d in case['dirs'])),
                         ('dot-ndn-is-link', any(l[0].endswith('/.ndn') for l in case.get('links') or []))):
            if on:
                t.append('store:fs:' + name)
    elif case['op'] == 'parse':
        if not impl['raised']:
            t.append('parse-keys:%d' % min(len(impl['got']), 3))
            if any('\n' in v for _, v in impl['got']):
                t.append('parse:multi-line-value')
    elif case['op'] == 'face':
        t.append('gen:' + case.get('gen', '?'))
        if impl['face']:
            t.append('face:' + impl['face'][0] + (':port-default' if impl['face'][-1] == 6363 else ''))
    return t


def finding_key(case, impl, why):
    w = re.sub(r"'[^']*'|\[[^\]]*\]", '', why)
    w = re.sub(r'[^a-zA-Z]+', '-', w).strip('-').lower()
    return case['op'] + '-' + w[:60]


LEVEL_TEXT = ('Lean 4 theorems over a hand-written model of read_client_conf (candidate-path search, defaults < file < '
              'NDN_CLIENT_* layering, resolve_location), default_face (urlsplit on ASCII, host/port extraction, scheme '
              'dispatch) and default_keychain, for every environment, file-system predicate, file content and URI text; the '
              'platform table (candidate paths, default schemes and locations, default-transport decision table) is regenerated '
              'from the live Platform() on every run and table-specific obligations are closed by decide. Model and code are '
              'tied on every run by differential execution against the real functions under a virtual os/open, plus the '
              'property oracle evaluated on the implementation.')
LEVEL_NOTE = ('Proof is about the model; model=code is sampled. configparser and urlsplit are modelled on a grammar subset; '
              'IPv6 literal validity is an input bit; when neither the configured nor the default location exists the code '
              'keeps the (joined) configured text and the statement demands nothing.')
TECHNIQUE = 'Lean 4 proof (case analysis, list lemmas for partition/takeWhile, decide over the generated table) + model/implementation correspondence check'
DESIGN_REF = 'DESIGN.md section 7, C20'
