"""C12 - the signing check holds exactly when the schema lets that key sign that packet
(src/ndn/app_support/light_versec/checker.py Checker.check, compiler.py _fix_signing_references)."""
import lvs_common as L

from props import lvs_extract

PROP = 'C12'
TITLE = 'The signing check holds exactly when the schema lets that key sign that packet'
LEAN_TARGETS = ['NdnProofs.Props.C12', 'NdnProofs.Props.C12Tables', 'NdnProofs.Props.C11Tables']
THEOREMS = [
    'Ndn.C12.check_iff', 'Ndn.C12.check_true_sound', 'Ndn.C12.check_total', 'Ndn.C12.check_key_must_match', 'Ndn.C12.check_key_must_match_alone',
    'Ndn.C12.check_ignores_implicit_digest', 'Ndn.C12.check_iff_compiled',
    # generated tables (lean/NdnGen) pinned to the model
    'Ndn.C12.check_digest_table', 'Ndn.C12.check_loops_table', 'Ndn.C12.checker_excepts_table', 'Ndn.C12.fix_signing_table',
    'Ndn.C11.matcher_tests_table', 'Ndn.C11.generate_node_table',
]
PARTIAL = {}
TRUSTED = [
    'C12: the theorems are about the compiled model tree (Signs = a packet-matched node lists as signer a node matched by '
    'the key under the packet\'s bindings, every constraint on the way holding); that the tree denotes the source text is '
    'C11 (compile_correct_wf, proved for the compiler model) and is covered here by the source-level oracle on every run',
    'C12: hypotheses of check_iff: the model passed the loader, value edges deterministic (checked on every compiled model '
    'by the harness), user functions defined and not raising',
    'C12: lark (text -> AST) and the pretty-printer of the schema generator',
    'C12: lean/NdnGen/C12.lean is regenerated on every run by harness/props/lvs_extract.py (live constants of the imported modules; control-flow facts as normalised source text, ast.unparse) and pinned to the model by the *_table theorems (NdnProofs/Props/C12Tables.lean, closed by evaluation): the component types Checker.check strips from packet and key name (proved to be what stripDigest strips), the contexts of its two _match loops, its signer test and return values, the absence of except clauses in checker.py / validator.py, what _fix_signing_references collects and stores; the tests of _match / _check_cons and of _generate_node from lean/NdnGen/C11.lean, which this check regenerates as well. Trusted: the extractor; a pinned TEXT (a test, a call) ties the model to the source only as far as the doc comment of the theorem reads it correctly - the behaviour itself is still tied by the correspondence run',
]
RULE = ('generated schemas with signing relations (chains incl. a chain of three with the shared pattern constrained at every level, alternatives, redefinitions with different signers, the same named '
        'pattern in packet and key rules, constraints on shared patterns incl. options naming a pattern bound only by the packet, '
        'user functions); names = instances / near-instances of every rule alternative over the literals of the schema plus two '
        'fresh components, some with a trailing implicit digest, a trailing parameters digest (not ignored) or both, or a digest-typed component inside; ALL ordered pairs (packet, key) of these names; the check is run '
        'on the compiler\'s model and on the model after save/load. non-trivial = at least one pair is accepted and one refused; '
        'distinct = distinct (schema, names)')


def extract(repo):
    """lean/NdnGen/C12.lean: tables read from the Light VerSec sources (harness/props/lvs_extract.py).  Checker.check rests
    on Checker._match / _check_cons and on the signer lists _generate_node collects, whose tables live in
    lean/NdnGen/C11.lean: that file is regenerated too (identical text unless those functions changed), and the two
    C11 table theorems about them are obligations of this property as well"""
    import os
    import lib
    text = lvs_extract.generate_c11(repo)
    with lib.Lock(os.path.join(lib.LEAN, '.build.lock')):
        lib.write_if_changed(os.path.join(lib.LEAN, 'NdnGen', 'C11.lean'), text)
    return lvs_extract.generate_c12(repo)


def cases(rng, tier):
    n = 260 if tier == 'quick' else 7000
    k = 3 if tier == 'quick' else 5
    fns = L.spec_fns(L.FN_NAMES)
    for _ in range(n):
        schema = L.gen_schema(rng, signing=True)
        spec = L.Spec(schema, fns)
        if spec.static_errors():
            continue
        asym = L.asym_variant(rng, schema) if rng.random() < 0.1 else None
        if asym is not None:
            # an argument-order-sensitive user function (unknown to the Lean model): judged by the oracle only
            schema, spec = asym, L.Spec(asym, L.spec_fns(L.FN_NAMES + ['$first']))
        names = L.gen_sign_names(rng, schema, spec, k)
        for nm in L.gen_names(rng, schema, spec, k, maxlen=4 if tier == 'quick' else 5):
            if nm not in names:
                names.append(nm)
        names = names[:9 if tier == 'quick' else 12]
        # trailing implicit digest (ignored), parameters digest (NOT ignored), or both (only the last one ignored)
        dig = [rng.choice([True, True, True, 'params', 'params', 'both', 'double']) if rng.random() < 0.25 else False for _ in names]
        case = {'schema': schema, 'names': names, 'digest': dig}
        if asym is not None:
            case['oracle_only'] = True
        if rng.random() < 0.5:
            # user functions are user code: what the checker is handed behaves like the function the schema author meant, but
            # edits the argument list it was given in place / keeps it and edits it later, returns truthy / falsy non-bools;
            # other Checker objects of the process bind the same names to other functions; the function's answer changes
            case['ufn'] = {'mut': rng.choice(UFN_MUT), 'ret': rng.choice(UFN_RET), 'tenant': rng.random() < 0.5,
                           'flip': rng.random() < 0.5, 'order': rng.choice(['same', 'reverse', 'shuffle']),
                           'seed': rng.randrange(1 << 30)}
        yield case


UFN_MUT = ['none', 'clear', 'pop', 'append', 'append-value', 'sort', 'reverse', 'fill-none', 'fill-value', 'double', 'keep-clear', 'keep-fill']
UFN_SAMPLE = 12
UFN_RET = ['bool', 'bool', 'int', 'str', 'list', 'obj']


def _ufn(base, mode, negate):
    """`base` (a predicate of the component and the argument values) as a piece of user code that treats what it is handed as its
    own: the answer is computed first, from copies; then the argument LIST is edited in place (mode['mut']; 'keep-*': the list is
    kept and edited at the next call), and the answer comes back as a truthy / falsy value of another type (mode['ret']).
    negate: a one-element list read at every call - the function bound under this name answers the opposite while it is set"""
    kept = []

    def fn(value, args):
        ans = base(bytes(value), [None if a is None else bytes(a) for a in args])
        ans = bool(ans) != bool(negate[0])
        mut = mode['mut']
        for old in kept:
            if mut == 'keep-clear':
                del old[:]
            else:
                old[:] = [bytes(value)] * min(len(old) + 1, 64)
        del kept[:]
        if mut == 'clear':
            del args[:]
        elif mut == 'pop':
            if args:
                args.pop()
        elif mut == 'append' and len(args) < 64:
            args.append(b'\x08\x02zz')
        elif mut == 'append-value' and len(args) < 64:
            args.append(bytes(value))
        elif mut == 'sort':
            args.sort(key=lambda a: b'' if a is None else bytes(a), reverse=True)
        elif mut == 'reverse':
            args.reverse()
        elif mut == 'fill-none':
            args[:] = [None] * len(args)
        elif mut == 'fill-value':
            args[:] = [bytes(value)] * len(args)
        elif mut == 'double':
            if len(args) < 64:
                args.extend(list(args))
        elif mut.startswith('keep-'):
            kept.append(args)
        ret = mode['ret']
        if ret == 'int':
            return 7 if ans else 0
        if ret == 'str':
            return 'False' if ans else ''
        if ret == 'list':
            return [False] if ans else []
        if ret == 'obj':
            return object() if ans else None
        return ans
    return fn


def _negated(base):
    return lambda c, args: not base(c, args)


def shrink(case):
    if case.get('ufn'):
        u = case['ufn']
        yield {k: v for k, v in case.items() if k != 'ufn'}
        for k in ('tenant', 'flip'):
            if u[k]:
                yield dict(case, ufn=dict(u, **{k: False}))
        if u['ret'] != 'bool':
            yield dict(case, ufn=dict(u, ret='bool'))
        if u['mut'] != 'none':
            yield dict(case, ufn=dict(u, mut='none'))
        if u['order'] != 'same':
            yield dict(case, ufn=dict(u, order='same'))
    nm, dg = case['names'], case['digest']
    for i in range(len(nm)):
        if len(nm) > 1:
            yield dict(case, names=nm[:i] + nm[i + 1:], digest=dg[:i] + dg[i + 1:])
    for s in L.shrink_schema(case['schema']):
        yield dict(case, schema=s)
    for i, n in enumerate(nm):
        if len(n) > 1:
            for j in range(len(n)):
                yield dict(case, names=nm[:i] + [n[:j] + n[j + 1:]] + nm[i + 1:])
    if any(dg):
        yield dict(case, digest=[False] * len(dg))


def _vdet(model):
    for nd in model.nodes:
        vals = [bytes(v.value) for v in nd.v_edges]
        if len(vals) != len(set(vals)):
            return False
    return True


def run_impl(case):
    Component, Name, compile_lvs, Checker, SemanticError, LvsModelError, DFN, bny = L.mods()
    fns = L.user_fns(L.FN_NAMES + (['$first'] if case.get('oracle_only') else []))
    spec = L.Spec(case['schema'], fns)
    res = {'token': None, 'static_errors': spec.static_errors()}
    u = case.get('ufn')
    neg = [False]
    if u:
        # every Checker gets its own dictionary of its own function objects
        fns_ck = {k: _ufn(f, u, neg) for k, f in fns.items()}
        fns_ck2 = {k: _ufn(f, u, neg) for k, f in fns.items()}
    else:
        fns_ck = fns_ck2 = fns
    try:
        model = compile_lvs(L.pp(case['schema']))
        ck = Checker(model, fns_ck)
        ck2 = Checker.load(ck.save(), fns_ck2)
    except Exception as e:              # noqa
        res['build'] = type(e).__name__
        res['may_self_sign'] = (not res['static_errors']) and spec.may_self_sign()
        return res
    res['build'] = 'ok'
    res['token'] = L.enc_model(ck.model)
    res['vdet'] = _vdet(ck.model)
    L.cap_steps(ck)
    L.cap_steps(ck2)
    names = [L.name_bytes(n, d) for n, d in zip(case['names'], case['digest'])]
    sample = []
    if u:
        import random
        rnd = random.Random(u['seed'])
        sample = sorted(rnd.sample(range(len(names) ** 2), min(len(names) ** 2, UFN_SAMPLE)))
    other = None
    if u and u['tenant']:
        # another tenant of the process: same model, the same function names bound to functions that answer the opposite; asked
        # some of the same questions right after the first one
        other = L.cap_steps(Checker(model if u['seed'] % 2 else Checker.load(ck.save(), {}).model,
                                    {k: _ufn(_negated(f), u, [False]) for k, f in fns.items()}))
    res['checks'], res['checks_other'] = [], []
    for i, p in enumerate(names):
        for j, k in enumerate(names):
            res['checks'].append(L.impl_check(ck, p, k))
            if other is not None and i * len(names) + j in sample:
                res['checks_other'].append([i * len(names) + j, L.impl_check(other, p, k)])
    res['checks_reloaded'] = [L.impl_check(ck2, p, k) for p in names for k in names]
    if u:
        # the same objects asked some of it again (in another order), possibly after the functions bound to them changed their mind
        order = list(sample)
        if u['order'] == 'reverse':
            order.reverse()
        elif u['order'] == 'shuffle':
            rnd.shuffle(order)
        neg[0] = bool(u['flip'])
        res['checks_again'] = [[idx, [L.impl_check(c, names[idx // len(names)], names[idx % len(names)]) for c in (ck, ck2)]] for idx in order]
        neg[0] = False
        nspec = L.Spec(case['schema'], fns)
        nspec.fns = {k: _negated(f) for k, f in nspec.fns.items()}      # the Spec's own reading of each function, negated
        nexp = []
        for idx in sample:
            try:
                nexp.append([idx, bool(nspec.check(L.strip_digest(names[idx // len(names)]), L.strip_digest(names[idx % len(names)])))])
            except Exception as e:      # noqa  (a user function raised)
                nexp.append([idx, 'spec:' + type(e).__name__])
        res['expected_negated'] = nexp
    exp = []
    for p in names:
        for k in names:
            try:
                exp.append(bool(spec.check(L.strip_digest(p), L.strip_digest(k))))
            except Exception as e:      # noqa  (a user function raised)
                exp.append('spec:' + type(e).__name__)
    res['expected'] = exp
    res['key_alone'] = []
    for k in names:
        try:
            res['key_alone'].append(len(spec.match(L.strip_digest(k))) > 0)
        except Exception:               # noqa  (a user function raised)
            res['key_alone'].append(True)
    return res


def model_line(case, impl):
    if impl.get('token') is None or case.get('oracle_only'):
        return None
    names = [L.name_bytes(n, d) for n, d in zip(case['names'], case['digest'])]
    return 'C12 mcheck %s %s %s' % (impl['token'], L.enc_env(L.FN_NAMES), '/'.join(L.enc_name(n) for n in names))


def model_obs(answer, case, impl):
    assert answer.startswith('ok '), answer[:100]
    return [True if c == '1' else False if c == '0' else c for c in answer[3:].split(',')]


def impl_obs(impl):
    return impl.get('checks')


def _uses_eqtype_pattern(schema):
    for r in schema['rules']:
        for cs in r['cons']:
            for t in cs:
                for o in t['opts']:
                    if o[0] == 'fn' and o[1] == '$eq_type' and any(a[0] == 'pat' for a in o[2]):
                        return True
    return False


def oracle(case, impl):
    if impl['build'] != 'ok':
        return None     # whether a schema must compile is property C13
    if not impl['vdet']:
        return 'compiled model has two value edges with the same value on one node'
    n = len(case['names'])
    tolerant = _uses_eqtype_pattern(case['schema'])
    for idx, (got, got2, exp) in enumerate(zip(impl['checks'], impl['checks_reloaded'], impl['expected'])):
        p, k = divmod(idx, n)
        if not isinstance(exp, bool) or (not isinstance(got, bool) and got == 'TypeError' and tolerant):
            continue
        if got != exp:
            extra = '' if impl['key_alone'][k] else ' (the key name matches no rule at all)'
            return f'check(name {p}, name {k}) = {got} but the schema {"allows" if exp else "does not allow"} it{extra}'
        if got2 != got:
            return f'check(name {p}, name {k}) differs after save/load: {got} vs {got2}'
    u = case.get('ufn')
    if u:
        # the verdict is that of the statement for the functions bound to THAT checker at THAT time
        nexp = dict(map(tuple, impl['expected_negated']))
        for idx, got in impl['checks_other']:
            p, k = divmod(idx, n)
            exp = nexp[idx]
            if isinstance(exp, bool) and not (got == 'TypeError' and tolerant) and got != exp:
                return (f'check(name {p}, name {k}) = {got} on a second Checker whose user functions answer the opposite, but '
                        f'the schema with those functions {"allows" if exp else "does not allow"} it')
        for idx, gots in impl['checks_again']:
            p, k = divmod(idx, n)
            exp = nexp[idx] if u['flip'] else impl['expected'][idx]
            if not isinstance(exp, bool):
                continue
            for which, got in zip(('the checker', 'the reloaded checker'), gots):
                if not (got == 'TypeError' and tolerant) and got != exp:
                    return (f'check(name {p}, name {k}) = {got} when {which} is asked again'
                            f'{" after its user functions changed their answers" if u["flip"] else ""}, but the schema '
                            f'{"allows" if exp else "does not allow"} it')
    return None


def nontrivial(case, impl):
    c = impl.get('checks') or []
    return any(x is True for x in c) and any(x is False for x in c)


def tags(case, impl):
    t = ['build:' + impl['build']]
    for x in impl.get('checks') or []:
        t.append('check:' + str(x))
    if any(case['digest']):
        t.append('with-digest')
    if any(d in ('params', 'both') for d in case['digest']):
        t.append('with-params-digest')
    exp, ka = impl.get('expected') or [], impl.get('key_alone') or []
    n = len(case['names'])
    for idx, e in enumerate(exp):
        if e is True and not ka[idx % n]:
            t.append('allowed-only-with-packet-bindings')
    t.append('names:%d' % n)
    u = case.get('ufn')
    if u:
        t += ['ufn-mut:' + u['mut'], 'ufn-ret:' + u['ret'], 'ufn-tenant:%s' % u['tenant'], 'ufn-flip:%s' % u['flip']]
        if any(impl['expected'][i] != e for i, e in impl.get('expected_negated') or []):
            t.append('ufn-binding-matters')
    return t


def finding_key(case, impl, why):
    if 'matches no rule at all' in why:
        return 'accepts-key-matching-no-rule'
    if 'does not allow' in why:
        return 'accepts-key-not-allowed'
    if 'allows' in why:
        return 'refuses-allowed-key'
    if 'save/load' in why:
        return 'differs-after-save-load'
    if 'well-formed' in why:
        return 'wellformed-schema-rejected-' + impl['build']
    return 'other'


LEVEL_TEXT = ('Lean 4 theorems over a hand-written model of Checker.check (digest stripping, iterative _match on the packet, '
              'then on the key with the packet\'s bindings, sign_cons membership): check answers yes iff some packet-matched node '
              'lists as signer a node matched by the key under the packet\'s bindings with every constraint on the way satisfied '
              '(check_iff, via matchIter = matchTree = denotation); a key matching no node is never accepted; trailing implicit '
              'digests are ignored. Tied to the code on every run by differential execution (all ordered pairs of generated names) '
              'and by a source-level oracle transcribed from docs/src/lvs/lvs.rst evaluated on the implementation.'
              ' The digest-stripping component types of Checker.check (proved to be what the model strips), the contexts of its two loops, its signer test, the (empty) except clauses of checker.py / validator.py and the signer collection of _fix_signing_references are regenerated from the source on every run (lean/NdnGen/C12.lean) and pinned by theorems closed by evaluation (NdnProofs/Props/C12Tables.lean).')
LEVEL_NOTE = ('Proof is about the compiled model tree; model=code is sampled; that the tree denotes the source text is C11\'s '
              'compile_correct_wf (compiler model) and is covered here by the source-level oracle.')
TECHNIQUE = 'Lean 4 proof (simulation of the iterative search, soundness/completeness w.r.t. a path semantics) + model/implementation correspondence check + source-level oracle'
DESIGN_REF = 'DESIGN.md section 7, C12; finding F9'
