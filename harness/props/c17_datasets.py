"""C17, extra stream 'ds': "decoding a management response returns the fields that were encoded" over HISTORIES of
decodes in one process and over ALL response / status-dataset / notification types of the management protocol.

One case = one process history: 2-8 management messages (ControlResponse through parse_response and through the model,
ControlParameters, faces/list, faces/query filter, rib/list, fib/list, strategy-choice/list, cs/info, status/general,
face event notification), each encoded by the HARNESS'S OWN TLV writer from a table written from the NFD management
protocol (TLV-TYPE numbers, field order, which fields are enumerations / flag sets), some also by the library's own
encoder, then decoded by the library one after the other.  The values are drawn so that fields which share a TLV-TYPE
number in DIFFERENT messages (Flags 0x6c: face flags / route flags / plain number; 0x81: LocalUri / a timestamp / a
counter / a Route; 0x84: Count / FaceScope / NFibEntries; ...) carry EQUAL numbers in one history.  Every field of every
decoded message is then read (right after its decode / after all decodes / in reverse order / twice; after repr(), ==,
asdict() of the message; while the caller edits the objects it read earlier) and compared with what was encoded:
presence, number, text, name components, list lengths AND the Python type of the value - a plain number is an int, an
enumerated field is a member of ITS declared enumeration (a face flag set is not a route flag set whatever their numbers),
an Enum member has the name the protocol gives that number, a nested message is an object of its own message class.  A
number the declared enumeration cannot represent may raise when read or come back as the bare number, never as something
else.  NonNegativeIntegers are also written wider than minimal
(legal TLV) and the wire is handed over as bytes / bytearray / memoryview.

Every history runs in a forked child of the check process, so a case starts from the state a fresh process has (nothing
decoded yet), is judged alone and replays / shrinks to a self-contained history.  Oracle only (no model line)."""
import os
import json
import random
import traceback

# ------------------------------------------------------------------ the protocol, as the forwarder side sees it
# enumerations: ('E', {number: member name}) / flag sets: ('F', mask of the declared bits)
ENUMS = {
    'FaceScope': ('E', {0: 'NON_LOCAL', 1: 'LOCAL'}),
    'FacePersistency': ('E', {0: 'PERSISTENT', 1: 'ON_DEMAND', 2: 'PERMANENT'}),
    'FaceLinkType': ('E', {0: 'POINT_TO_POINT', 1: 'MULTI_ACCESS', 2: 'AD_HOC'}),
    'FaceEventKind': ('E', {1: 'CREATED', 2: 'DESTROYED', 3: 'UP', 4: 'DOWN'}),
    'FaceFlags': ('F', 7),
    'RouteFlags': ('F', 3),
}
# message -> fields in wire order: (attribute of the decoded object, TLV-TYPE, kind)
# kind: u number, t text, n Name, e:<enumeration>, m:<nested message>, r:<repeated nested message>
_CTRS = [('n_in_interests', 0x90, 'u'), ('n_in_data', 0x91, 'u'), ('n_in_nacks', 0x97, 'u'),
         ('n_out_interests', 0x92, 'u'), ('n_out_data', 0x93, 'u'), ('n_out_nacks', 0x98, 'u')]
MODELS = {
    'Strategy': [('name', 0x07, 'n')],
    'ControlParametersValue': [
        ('name', 0x07, 'n'), ('face_id', 0x69, 'u'), ('uri', 0x72, 't'), ('local_uri', 0x81, 't'), ('origin', 0x6f, 'u'),
        ('cost', 0x6a, 'u'), ('capacity', 0x83, 'u'), ('count', 0x84, 'u'), ('base_congestion_mark_interval', 0x87, 'u'),
        ('default_congestion_threshold', 0x88, 'u'), ('mtu', 0x89, 'u'), ('flags', 0x6c, 'u'), ('mask', 0x70, 'u'),
        ('strategy', 0x6b, 'm:Strategy'), ('expiration_period', 0x6d, 'u'), ('face_persistency', 0x85, 'e:FacePersistency')],
    'ControlParameters': [('cp', 0x68, 'm:ControlParametersValue')],
    'ControlResponse': [('status_code', 0x66, 'u'), ('status_text', 0x67, 't'), ('body', 0x68, 'm:ControlParametersValue')],
    'FaceEventNotificationValue': [
        ('face_event_kind', 0xc1, 'e:FaceEventKind'), ('face_id', 0x69, 'u'), ('uri', 0x72, 't'), ('local_uri', 0x81, 't'),
        ('face_scope', 0x84, 'e:FaceScope'), ('face_persistency', 0x85, 'e:FacePersistency'),
        ('link_type', 0x86, 'e:FaceLinkType'), ('flags', 0x6c, 'e:FaceFlags')],
    'FaceEventNotification': [('event', 0xc0, 'm:FaceEventNotificationValue')],
    'GeneralStatus': [
        ('nfd_version', 0x80, 't'), ('start_timestamp', 0x81, 'u'), ('current_timestamp', 0x82, 'u'),
        ('n_name_tree_entries', 0x83, 'u'), ('n_fib_entries', 0x84, 'u'), ('n_pit_entries', 0x85, 'u'),
        ('n_measurement_entries', 0x86, 'u'), ('n_cs_entries', 0x87, 'u')] + _CTRS + [
        ('n_satisfied_interests', 0x99, 'u'), ('n_unsatisfied_interests', 0x9a, 'u'),
        ('n_fragmentation_errors', 0xc8, 'u'), ('n_out_over_mtu', 0xc9, 'u'), ('n_in_lp_invalid', 0xca, 'u'),
        ('n_reassembly_timeouts', 0xcb, 'u'), ('n_in_net_invalid', 0xcc, 'u'), ('n_acknowledged', 0xcd, 'u'),
        ('n_retransmitted', 0xce, 'u'), ('n_retx_exhausted', 0xcf, 'u'), ('n_congestion_marked', 0xd0, 'u')],
    'FaceStatus': [
        ('face_id', 0x69, 'u'), ('uri', 0x72, 't'), ('local_uri', 0x81, 't'), ('expiration_period', 0x6d, 'u'),
        ('face_scope', 0x84, 'e:FaceScope'), ('face_persistency', 0x85, 'e:FacePersistency'),
        ('link_type', 0x86, 'e:FaceLinkType'), ('base_congestion_mark_interval', 0x87, 'u'),
        ('default_congestion_threshold', 0x88, 'u'), ('mtu', 0x89, 'u')] + _CTRS + [
        ('n_in_bytes', 0x94, 'u'), ('n_out_bytes', 0x95, 'u'), ('flags', 0x6c, 'e:FaceFlags')],
    'FaceStatusMsg': [('face_status', 0x80, 'r:FaceStatus')],
    'FaceQueryFilterValue': [
        ('face_id', 0x69, 'u'), ('uri_scheme', 0x83, 't'), ('uri', 0x72, 't'), ('local_uri', 0x81, 't'),
        ('face_scope', 0x84, 'e:FaceScope'), ('face_persistency', 0x85, 'e:FacePersistency'),
        ('link_type', 0x86, 'e:FaceLinkType')],
    'FaceQueryFilter': [('face_query_filter', 0x96, 'm:FaceQueryFilterValue')],
    'Route': [('face_id', 0x69, 'u'), ('origin', 0x6f, 'u'), ('cost', 0x6a, 'u'), ('flags', 0x6c, 'e:RouteFlags'),
              ('expiration_period', 0x6d, 'u')],
    'RibEntry': [('name', 0x07, 'n'), ('routes', 0x81, 'r:Route')],
    'RibStatus': [('entries', 0x80, 'r:RibEntry')],
    'NextHopRecord': [('face_id', 0x69, 'u'), ('cost', 0x6a, 'u')],
    'FibEntry': [('name', 0x07, 'n'), ('next_hop_records', 0x81, 'r:NextHopRecord')],
    'FibStatus': [('entries', 0x80, 'r:FibEntry')],
    'StrategyChoice': [('name', 0x07, 'n'), ('strategy', 0x6b, 'm:Strategy')],
    'StrategyChoiceMsg': [('strategy_choices', 0x80, 'r:StrategyChoice')],
    'CsInfo': [('capacity', 0x83, 'u'), ('flags', 0x6c, 'u'), ('n_cs_entries', 0x87, 'u'), ('n_hits', 0x81, 'u'),
               ('n_misses', 0x82, 'u')],
}
# what an application decodes: 'ParseResponse' is a ControlResponse inside its 0x65 element handed to parse_response()
TOPS = ['ParseResponse', 'ControlResponse', 'ControlParameters', 'FaceStatusMsg', 'FaceQueryFilter', 'RibStatus',
        'FibStatus', 'StrategyChoiceMsg', 'CsInfo', 'GeneralStatus', 'FaceEventNotification']


def _model_of(top):
    return 'ControlResponse' if top == 'ParseResponse' else top


def _uint_users(model, seen=None):
    """{TLV-TYPE: set of kinds} of the number-valued fields reachable from a message"""
    out = {}
    for _, t, kind in MODELS[model]:
        if kind == 'u' or kind[0] == 'e':
            out.setdefault(t, set()).add(kind)
        elif kind[0] in 'mr':
            for t2, ks in _uint_users(kind[2:]).items():
                out.setdefault(t2, set()).update(ks)
    return out


USERS = {top: _uint_users(_model_of(top)) for top in TOPS}
# TLV-TYPE numbers whose number-valued fields mean different things in different messages
SHARED = sorted(t for t in {t for u in USERS.values() for t in u}
                if len({k for u in USERS.values() for k in u.get(t, ())}) >= 2
                or sum(1 for u in USERS.values() if t in u) >= 3)


def representable(enum, n):
    kind, spec = ENUMS[enum]
    return n in spec if kind == 'E' else (n & ~spec) == 0


# ------------------------------------------------------------------ the harness's own TLV writer
def _varnum(n):
    if n < 253:
        return bytes([n])
    if n < 0x10000:
        return b'\xfd' + n.to_bytes(2, 'big')
    if n < 0x100000000:
        return b'\xfe' + n.to_bytes(4, 'big')
    return b'\xff' + n.to_bytes(8, 'big')


def tlv(t, payload):
    return _varnum(t) + _varnum(len(payload)) + payload


def nni(n, wr=None):
    w = 1 if n < 0x100 else 2 if n < 0x10000 else 4 if n < 0x100000000 else 8
    if wr is not None and wr.random() < 0.5:
        w = wr.choice([x for x in (1, 2, 4, 8) if x >= w])          # wider than minimal is legal
    return n.to_bytes(w, 'big')


def write_model(model, val, wr=None):
    out = []
    for attr, t, kind in MODELS[model]:
        if attr not in val:
            continue
        v = val[attr]
        if kind == 'u' or kind[0] == 'e':
            out.append(tlv(t, nni(v, wr)))
        elif kind == 't':
            out.append(tlv(t, v.encode()))
        elif kind == 'n':
            out.append(tlv(t, b''.join(bytes.fromhex(c) for c in v)))
        elif kind[0] == 'm':
            out.append(tlv(t, write_model(kind[2:], v, wr)))
        else:
            for e in v:
                out.append(tlv(t, write_model(kind[2:], e, wr)))
    return b''.join(out)


def write_top(step):
    wr = random.Random(step['widen']) if step.get('widen') is not None else None
    body = write_model(_model_of(step['top']), step['val'], wr)
    return tlv(0x65, body) if step['top'] == 'ParseResponse' else body


# ------------------------------------------------------------------ cases
NAMES = [[], ['a'], ['a', 'b'], ['app', 'x', 'y'], ['localhost', 'nfd', 'strategy', 'best-route', (0x36, b'\x05')],
         ['ndn', (0x08, b'\x00\x01'), 'z'], ['k' * 260], ['r1'], [(0x20, b'kw'), (0x32, b'\x00'), 'seg']]
TEXTS = ['', 'OK', 'unix:///run/nfd/nfd.sock', 'udp4://224.0.23.170:56363', 'fd://31', 'no such route é', 'tcp4',
         'x' * 300, '22.12-3-g1a2b', 'dev://eth0']


def _name(rng):
    return [tlv(*(c if isinstance(c, tuple) else (0x08, c.encode()))).hex() for c in rng.choice(NAMES)]


def _nat(rng, pool):
    if rng.random() < 0.65:
        return rng.choice(pool)
    return rng.choice([0, 1, 2, 3, 4, 7, 8, 200, 255, 256, 65535, 65536, 2 ** 32 - 1, 2 ** 32, 2 ** 64 - 1,
                       rng.randrange(2 ** 64)])


def gen_model(rng, model, pool, hot, depth=0):
    val = {}
    for attr, t, kind in MODELS[model]:
        numeric = kind == 'u' or kind[0] == 'e'
        forced = numeric and t in hot
        if not forced and rng.random() < (0.3 if kind == 'u' and len(MODELS[model]) > 12 else 0.2):
            continue
        if kind == 'u':
            val[attr] = hot[t] if forced and rng.random() < 0.9 else _nat(rng, pool)
        elif kind[0] == 'e':
            n = hot[t] if forced and rng.random() < 0.9 else _nat(rng, pool)
            if not representable(kind[2:], n) and rng.random() < 0.85:
                ok = [x for x in pool + list(range(8)) if representable(kind[2:], x)]
                n = rng.choice(ok)
            val[attr] = n
        elif kind == 't':
            val[attr] = rng.choice(TEXTS)
        elif kind == 'n':
            val[attr] = _name(rng)
        elif kind[0] == 'm':
            val[attr] = gen_model(rng, kind[2:], pool, hot, depth + 1)
        else:
            val[attr] = [gen_model(rng, kind[2:], pool, hot, depth + 1)
                         for _ in range(rng.choice([0, 1, 1, 2, 3] if depth == 0 else [0, 1, 1, 2]))]
    return val


def gen_case(rng):
    # the numbers of this history: a few small ones, so that fields of different messages carry equal numbers
    pool = rng.sample([0, 1, 1, 2, 3, 4, 5, 6, 7, 8], 3)
    hot = {t: rng.choice(pool + [1, 2, 3]) for t in rng.sample(SHARED, rng.choice([1, 2, 2, 3]))}
    with_hot = [top for top in TOPS if any(t in USERS[top] for t in hot)]
    steps = []
    for _ in range(rng.choice([2, 2, 3, 3, 4, 5, 6, 8])):
        # mostly a message in which one of this history's TLV-TYPE numbers occurs, preferably with another meaning than
        # in the messages decoded so far
        if with_hot and rng.random() < 0.75:
            meanings = {k for s in steps for t in hot for k in USERS[s['top']].get(t, ())}
            fresh = [top for top in with_hot if any(k not in meanings for t in hot for k in USERS[top].get(t, ()))]
            top = rng.choice(fresh if fresh and rng.random() < 0.7 else with_hot)
        else:
            top = rng.choice(TOPS)
        step = {'top': top, 'val': gen_model(rng, _model_of(top), pool, hot),
                'enc': 'lib' if rng.random() < 0.25 else 'own', 'form': rng.choice(['bytes', 'bytes', 'bytearray', 'mv', 'mvw']),
                'touch': rng.choice([None, None, None, 'repr', 'eq', 'asdict'])}
        if step['enc'] == 'own' and rng.random() < 0.3:
            step['widen'] = rng.randrange(1000)
        if step['enc'] == 'lib':
            step['members'] = rng.random() < 0.6       # enumerated fields assigned as members, not as numbers
        steps.append(step)
    if rng.random() < 0.2 and len(steps) < 8:
        steps.append(json.loads(json.dumps(rng.choice(steps))))      # the very same message once more
    return {'mode': 'ds', 'steps': steps, 'read': rng.choice(['each', 'each', 'late', 'rev', 'twice']),
            'scribble': rng.random() < 0.4}


def cases(rng, tier):
    f = {'face_id': 261, 'uri': 'unix://client', 'face_scope': 1, 'face_persistency': 1, 'link_type': 0, 'flags': 1}
    r = {'name': _name(random.Random(0)), 'routes': [{'face_id': 261, 'origin': 0, 'cost': 0, 'flags': 1}]}
    plain = {'enc': 'own', 'form': 'bytes', 'touch': None}
    # what `nfdc face list` followed by `nfdc route list` (and the other way round) decode in one process
    for a, b in ((0, 1), (1, 0)):
        two = [dict(plain, top='FaceStatusMsg', val={'face_status': [f]}), dict(plain, top='RibStatus', val={'entries': [r]})]
        yield {'mode': 'ds', 'steps': [two[a], two[b]], 'read': 'each', 'scribble': False}
    for _ in range(110 if tier == 'quick' else 4000):
        yield gen_case(rng)


def shrink(case):
    steps = case['steps']
    if len(steps) > 1:
        for i in range(len(steps)):
            yield dict(case, steps=steps[:i] + steps[i + 1:])
    if case['read'] != 'each':
        yield dict(case, read='each')
    if case['scribble']:
        yield dict(case, scribble=False)
    for i, s in enumerate(steps):
        def put(s2):
            return dict(case, steps=steps[:i] + [s2] + steps[i + 1:])
        for key, dflt in (('enc', 'own'), ('form', 'bytes'), ('touch', None), ('widen', None)):
            if s.get(key, dflt) != dflt:
                s2 = dict(s, **{key: dflt})
                if key == 'enc':
                    s2.pop('members', None)
                yield put(s2)
        yield from (put(dict(s, val=v)) for v in _shrink_val(_model_of(s['top']), s['val']))


def _shrink_val(model, val):
    for attr, t, kind in MODELS[model]:
        if attr not in val:
            continue
        rest = {k: v for k, v in val.items() if k != attr}
        if kind[0] == 'r':
            lst = val[attr]
            for i in range(len(lst)):
                yield dict(val, **{attr: lst[:i] + lst[i + 1:]})
            for i, e in enumerate(lst):
                for e2 in _shrink_val(kind[2:], e):
                    yield dict(val, **{attr: lst[:i] + [e2] + lst[i + 1:]})
            if not lst:
                yield rest
        elif kind[0] == 'm':
            yield rest
            for v2 in _shrink_val(kind[2:], val[attr]):
                yield dict(val, **{attr: v2})
        else:
            yield rest


# ------------------------------------------------------------------ implementation
def _lib_encode(nfd_mgmt, step):
    def build(model, val):
        obj = getattr(nfd_mgmt, model)()
        for attr, t, kind in MODELS[model]:
            if attr not in val:
                continue
            v = val[attr]
            if kind[0] == 'e' and step.get('members') and representable(kind[2:], v):
                v = getattr(nfd_mgmt, kind[2:])(v)
            elif kind == 'n':
                v = [bytes.fromhex(c) for c in v]
            elif kind[0] == 'm':
                v = build(kind[2:], v)
            elif kind[0] == 'r':
                v = [build(kind[2:], e) for e in v]
            setattr(obj, attr, v)
        return obj
    body = bytes(build(_model_of(step['top']), step['val']).encode())
    return tlv(0x65, body) if step['top'] == 'ParseResponse' else body


def _leaf(v, kind):
    from enum import Enum
    if v is None:
        return ['~']
    if kind == 'n':
        try:
            return ['n', [bytes(c).hex() for c in v]]
        except Exception:       # noqa
            return ['o', type(v).__name__]
    if kind == 't':
        if isinstance(v, str):
            return ['t', v.encode('utf-8', 'surrogateescape').hex()]
        if isinstance(v, (bytes, bytearray, memoryview)):
            return ['t', bytes(v).hex()]
        return ['o', type(v).__name__]
    if isinstance(v, Enum):
        return ['e', type(v).__name__, v.value if isinstance(v.value, int) else repr(v.value),
                v.name if type(v).__name__ in ENUMS and ENUMS[type(v).__name__][0] == 'E' else None]
    if type(v) is int:
        return ['u', v]
    return ['o', type(v).__name__]


def read_model(obj, model):
    """every field of a decoded message, read the way an application reads it: attribute by attribute"""
    if obj is None:
        return ['~']
    out = {}
    for attr, t, kind in MODELS[model]:
        try:
            v = getattr(obj, attr)
        except Exception as e:      # noqa - judged by the oracle
            out[attr] = ['x', type(e).__name__]
            continue
        if kind[0] == 'm':
            out[attr] = read_model(v, kind[2:])
        elif kind[0] == 'r':
            out[attr] = ['~'] if v is None else ['r', [read_model(e, kind[2:]) for e in v]]
        else:
            out[attr] = _leaf(v, kind)
    return ['m', out, type(obj).__name__]


def read_response_dict(d):
    """parse_response returns a flat dict: status_code, status_text and the fields of the body"""
    out = {}
    for attr, t, kind in MODELS['ControlResponse'][:2] + MODELS['ControlParametersValue']:
        if attr not in d:
            out[attr] = ['x', 'KeyError']
        elif kind[0] == 'm':
            out[attr] = read_model(d[attr], kind[2:])
        else:
            out[attr] = _leaf(d[attr], kind)
    return ['d', out, sorted(k for k in d if k not in out)]


def scribble(obj, model):
    """the caller goes on using a decoded message as its own: numbers reassigned, lists emptied and refilled"""
    if obj is None:
        return
    if isinstance(obj, dict):
        for k in list(obj):
            if isinstance(obj[k], list):
                obj[k].append(b'\x08\x01s')
            obj[k] = 6
        return
    for attr, t, kind in MODELS[model]:
        try:
            v = getattr(obj, attr)
        except Exception:       # noqa
            v = None
        if kind[0] == 'm':
            scribble(v, kind[2:])
        elif kind[0] == 'r':
            if v is not None:
                for e in v:
                    scribble(e, kind[2:])
                del v[:]
                v.append(None)
        elif kind == 'n':
            if isinstance(v, list):
                v.append(b'\x08\x01s')
                v[0] = b'\x08\x01t'
                del v[1:2]
        elif kind == 'u' or kind[0] == 'e':
            try:
                setattr(obj, attr, 6 if v is None else None)
            except Exception:   # noqa
                pass


def run_history(case):
    from ndn.app_support import nfd_mgmt
    steps = case['steps']
    n = len(steps)
    objs, out = [None] * n, [{} for _ in range(n)]

    def decode(i):
        s = steps[i]
        try:
            wire = write_top(s) if s['enc'] == 'own' else _lib_encode(nfd_mgmt, s)
        except Exception as e:      # noqa - encoding is C08's business; a step that cannot be encoded is not judged
            out[i]['encode_error'] = type(e).__name__
            return
        out[i]['wire'] = wire.hex() if len(wire) <= 64 else wire[:64].hex() + '..'
        buf = {'bytes': wire, 'bytearray': bytearray(wire), 'mv': memoryview(wire), 'mvw': memoryview(bytearray(wire))}[s['form']]
        try:
            if s['top'] == 'ParseResponse':
                objs[i] = nfd_mgmt.parse_response(buf)
            else:
                objs[i] = getattr(nfd_mgmt, s['top']).parse(buf)
        except Exception as e:      # noqa
            out[i]['decode_error'] = type(e).__name__
            return
        # what else an application does with a message before it looks at the fields; not judged
        try:
            if s['touch'] == 'repr':
                repr(objs[i])
            elif s['touch'] == 'eq' and s['top'] != 'ParseResponse':
                objs[i] == getattr(nfd_mgmt, s['top']).parse(wire)      # noqa
            elif s['touch'] == 'asdict' and s['top'] != 'ParseResponse':
                objs[i].asdict()
        except Exception:           # noqa
            pass

    def read(i, key='read'):
        if objs[i] is None:
            return
        s = steps[i]
        out[i][key] = read_response_dict(objs[i]) if s['top'] == 'ParseResponse' else read_model(objs[i], s['top'])

    def done(i):
        if case['scribble'] and objs[i] is not None:
            scribble(objs[i], _model_of(steps[i]['top']))

    mode = case['read']
    if mode in ('each', 'twice'):
        for i in range(n):
            decode(i)
            read(i)
            if mode == 'each':
                done(i)
        if mode == 'twice':
            for i in range(n):
                read(i, 'read2')
                done(i)
    else:
        for i in range(n):
            decode(i)
        for i in (range(n) if mode == 'late' else reversed(range(n))):
            read(i)
            done(i)
    return {'mode': 'ds', 'steps': out}


INPROC = os.environ.get('VERIF_C17_DS_INPROC') == '1'


def run(case):
    """the history in a forked child: the state of the library is what a fresh process has"""
    if INPROC or not hasattr(os, 'fork'):
        return run_history(case)
    from ndn.app_support import nfd_mgmt      # noqa - loaded here, so that every child does not load it again
    r, w = os.pipe()
    pid = os.fork()
    if pid == 0:
        code = 0
        try:
            os.close(r)
            try:
                msg = json.dumps(run_history(case))
            except BaseException:       # noqa
                msg = json.dumps({'harness_error': traceback.format_exc()[-1500:]})
            with os.fdopen(w, 'w') as f:
                f.write(msg)
        except BaseException:           # noqa
            code = 1
        finally:
            os._exit(code)
    os.close(w)
    with os.fdopen(r) as f:
        data = f.read()
    os.waitpid(pid, 0)
    res = json.loads(data) if data else {'harness_error': 'the child process ended without an answer'}
    if 'harness_error' in res:
        raise RuntimeError(res['harness_error'])
    return res


# ------------------------------------------------------------------ oracle
def _judge_leaf(obs, kind, present, v, path):
    if not present:
        return None if obs == ['~'] else f'{path} was not encoded but decodes as {obs}'
    if obs == ['~']:
        return f'{path} was encoded as {v!r} but is absent from the decoded message'
    if kind == 'u':
        if obs == ['u', v]:
            return None
        return f'{path}: {v} was encoded, {_show(obs)} was decoded'
    if kind[0] == 'e':
        enum = kind[2:]
        if obs[0] == 'e' and obs[1] == enum and obs[2] == v:
            if ENUMS[enum][0] == 'E' and v in ENUMS[enum][1] and obs[3] != ENUMS[enum][1][v]:
                return f'{path}: {enum} {v} ({ENUMS[enum][1][v]}) was encoded, member {obs[3]} was decoded'
            return None
        if not representable(enum, v) and (obs[0] == 'x' or obs == ['u', v]):
            return None             # a number outside the enumeration: refusing to convert it, or handing over the bare
            #                         number, is not a wrong field
        return f'{path}: {enum} {v} was encoded, {_show(obs)} was decoded'
    if kind == 't':
        return None if obs == ['t', v.encode().hex()] else f'{path}: text {v[:40]!r} was encoded, {_show(obs)} was decoded'
    if kind == 'n':
        return None if obs == ['n', v] else f'{path}: name {v} was encoded, {_show(obs)} was decoded'
    return f'{path}: unknown kind'


def _show(obs):
    if obs[0] == 'e':
        return f'{obs[1]} {obs[2]}' + (f' ({obs[3]})' if obs[3] else '')
    if obs[0] == 'u':
        return f'the number {obs[1]}'
    if obs[0] == 'x':
        return f'reading it raised {obs[1]}'
    if obs[0] == 'o':
        return f'an object of type {obs[1]}'
    if obs[0] == 't':
        return f'text {bytes.fromhex(obs[1])[:40]!r}'
    return str(obs)[:120]


def judge_model(obs, model, val, path):
    if val is None:
        return None if obs == ['~'] else f'{path or model} was not encoded but decodes as {str(obs)[:80]}'
    if obs[0] != 'm':
        return f'{path or model} was encoded but decodes as {str(obs)[:80]}'
    if obs[2] != model:
        return f'{path or model}: a {model} was encoded, an object of type {obs[2]} was decoded'
    for attr, t, kind in MODELS[model]:
        o = obs[1].get(attr)
        p = f'{path}.{attr}' if path else f'{model}.{attr}'
        why = _judge_field(o, kind, attr in val, val.get(attr), p)
        if why:
            return why
    return None


def _judge_field(o, kind, present, v, p):
    if o is None:
        return f'{p} was not read'
    if o[0] == 'x' and not (kind[0] == 'e' and present):
        return f'{p}: reading the field raised {o[1]}'
    if kind[0] == 'm':
        return judge_model(o, kind[2:], v if present else None, p)
    if kind[0] == 'r':
        lst = v if present else []
        if o == ['~']:
            return None if not lst else f'{p}: {len(lst)} elements were encoded, none decoded'
        if o[0] != 'r' or len(o[1]) != len(lst):
            return f'{p}: {len(lst)} elements were encoded, {len(o[1]) if o[0] == "r" else o} decoded'
        for i, (oe, ve) in enumerate(zip(o[1], lst)):
            why = judge_model(oe, kind[2:], ve, f'{p}[{i}]')
            if why:
                return why
        return None
    return _judge_leaf(o, kind, present, v, p)


def unrepresentable(model, val):
    """does the message carry, in an enumerated field, a number its enumeration does not have"""
    for attr, t, kind in MODELS[model]:
        if attr not in val:
            continue
        if kind[0] == 'e' and not representable(kind[2:], val[attr]):
            return True
        if kind[0] == 'm' and unrepresentable(kind[2:], val[attr]):
            return True
        if kind[0] == 'r' and any(unrepresentable(kind[2:], e) for e in val[attr]):
            return True
    return False


def judge_step(step, obs):
    if 'encode_error' in obs:
        return None
    if 'decode_error' in obs:
        if unrepresentable(_model_of(step['top']), step['val']):
            return None             # refusing a number outside the enumeration (wherever the conversion is made)
        return f'decoding a {step["top"]} raised {obs["decode_error"]}'
    for key in ('read', 'read2'):
        if key not in obs:
            continue
        o = obs[key]
        again = ' (second read)' if key == 'read2' else ''
        if step['top'] == 'ParseResponse':
            if o[0] != 'd':
                return f'parse_response returned {str(o)[:80]}'
            val = step['val']
            body = val.get('body')
            for attr, t, kind in MODELS['ControlResponse'][:2]:
                why = _judge_field(o[1].get(attr), kind, attr in val, val.get(attr), f'parse_response.{attr}')
                if why:
                    return why + again
            for attr, t, kind in MODELS['ControlParametersValue']:
                present = body is not None and attr in body
                why = _judge_field(o[1].get(attr), kind, present, body.get(attr) if present else None, f'parse_response.{attr}')
                if why:
                    return why + again
        else:
            why = judge_model(o, step['top'], step['val'], '')
            if why:
                return why + again
    return None


def oracle(case, impl):
    for i, (step, obs) in enumerate(zip(case['steps'], impl['steps'])):
        why = judge_step(step, obs)
        if why:
            before = ', '.join(s['top'] for s in case['steps'][:i]) or 'nothing'
            return f'message {i} ({step["top"]}, decoded after {before}): {why}'
    return None


def nontrivial(case, impl):
    return len(case['steps']) >= 2 and sum(1 for o in impl['steps'] if 'read' in o) >= 2


def tags(case, impl):
    t = ['mode:ds', 'ds-read:' + case['read'], 'ds-steps:%d' % len(case['steps'])]
    for s, o in zip(case['steps'], impl['steps']):
        t.append('ds-top:' + s['top'])
        if 'encode_error' in o:
            t.append('ds-encode-error')
    tops = {s['top'] for s in case['steps']}
    if tops & {'FaceStatusMsg', 'FaceEventNotification'} and 'RibStatus' in tops:
        t.append('ds-face+rib')
    return t


def finding_key(case, impl, why):
    import re
    w = re.sub(r'^message \d+ \((\w+), decoded after [^)]*\): ', r'\1-', why)
    w = re.sub(r'\[\d+\]', '', w)
    w = re.sub(r'\d+', 'N', w)
    return ('ds-' + re.sub(r'[^a-zA-Z.]+', '-', w).strip('-').lower())[:90]
