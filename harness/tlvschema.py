"""Bridge between python-ndn TlvModel classes / instances and the Lean codec model's text syntax.

Schema tuples:  ('U',typ,fixed_len|None) ('B',typ) ('Y',typ,is_string) ('N',typ) ('M',typ,ic,[fields],cls)
                ('R',elem) ('P',key,val) ('K',)
Value tuples :  None | ('u',int) | ('b',) | ('y',bytes) | ('n',[bytes]) | ('m',[values]) | ('l',[values]) | ('p',[(k,v)])
"""


class _Lazy:
    """the library's tlv_model module, imported on first use (building / reading TlvModel objects happens on the
    run_impl side; the case generators below - random_schema / random_value / random_comp / ref_encode - are plain
    data and never touch the library, so that a defect there is a verdict of the check, not a crash of a generator)"""
    def __getattr__(self, k):
        from ndn.encoding import tlv_model
        return getattr(tlv_model, k)


tm = _Lazy()


def field_schema(f):
    if isinstance(f, tm.UintField):
        return ('U', f.type_num, f.fixed_len)
    if isinstance(f, tm.BoolField):
        return ('B', f.type_num)
    if isinstance(f, tm.SignatureValueField):
        return ('Y', f.type_num, False)
    if isinstance(f, tm.BytesField):
        return ('Y', f.type_num, bool(f.is_string))
    if isinstance(f, (tm.NameField, tm.InterestNameField)):
        return ('N', f.type_num)
    if isinstance(f, tm.ModelField):
        return ('M', f.type_num, bool(f.ignore_critical), class_schema(f.model_type), f.model_type)
    if isinstance(f, tm.RepeatedField):
        return ('R', field_schema(f.element_type))
    if isinstance(f, tm.MapField):
        return ('P', field_schema(f.key_type), field_schema(f.value_type))
    if isinstance(f, tm.ProcedureArgument):
        return ('K',)
    raise TypeError(f'unknown field class {type(f).__name__}')


def class_schema(cls):
    return [field_schema(f) for f in cls._encoded_fields]


def schema_text(s):
    k = s[0]
    if k == 'U':
        return f"U{s[1]}:{'-' if s[2] is None else s[2]}"
    if k == 'B':
        return f'B{s[1]}'
    if k == 'Y':
        return f'Y{s[1]}:{1 if s[2] else 0}'
    if k == 'N':
        return f'N{s[1]}'
    if k == 'M':
        return f"M{s[1]}:{1 if s[2] else 0}({','.join(schema_text(x) for x in s[3])})"
    if k == 'R':
        return f'R({schema_text(s[1])})'
    if k == 'P':
        return f'P({schema_text(s[1])},{schema_text(s[2])})'
    return 'K'


def schemas_text(fs):
    return '(' + ','.join(schema_text(s) for s in fs) + ')'


def hx(b):
    b = bytes(b)
    return b.hex() if b else '-'


def value_text(v):
    if v is None:
        return '_'
    k = v[0]
    if k == 'u':
        return f'u{v[1]}'
    if k == 'b':
        return 'b'
    if k == 'y':
        return 'y' + hx(v[1])
    if k == 'n':
        return 'n(' + ','.join(hx(c) for c in v[1]) + ')'
    if k == 'm':
        return 'm' + values_text(v[1])
    if k == 'l':
        return 'l' + values_text(v[1])
    if k == 'p':
        return 'p(' + ','.join(value_text(a) + '=' + value_text(b) for a, b in v[1]) + ')'
    raise ValueError(v)


def values_text(vs):
    return '(' + ','.join(value_text(v) for v in vs) + ')'


# ------------------------------------------------------------------ instance <-> value tuples
def to_instance(cls, fs, vals):
    """build a TlvModel instance of `cls` (schema fs) from value tuples"""
    inst = cls()
    inst.__dict__.clear()
    for f, s, v in zip(cls._encoded_fields, fs, vals):
        if s[0] == 'K':
            continue
        pv = to_py(s, v)
        if pv is not None or s[0] in ('R', 'P'):
            inst.__dict__[f.name] = pv
        else:
            inst.__dict__[f.name] = None
    return inst


def to_py(s, v):
    k = s[0]
    if k == 'R':
        return [to_py(s[1], x) for x in (v[1] if v else [])]
    if k == 'P':
        return {to_py(s[1], a): to_py(s[2], b) for a, b in (v[1] if v else [])}
    if v is None:
        return None
    if k == 'U':
        return v[1]
    if k == 'B':
        return True
    if k == 'Y':
        return v[1].decode('utf-8') if s[2] else v[1]
    if k == 'N':
        return [bytes(c) for c in v[1]]
    if k == 'M':
        return to_instance(s[4], s[3], v[1])
    raise ValueError(s)


def from_instance(fs, inst):
    """value tuples of a parsed instance (markers -> None)"""
    out = []
    for f, s in zip(type(inst)._encoded_fields, fs):
        if s[0] == 'K':
            out.append(None)
            continue
        out.append(from_py(s, inst.__dict__.get(f.name, None)))
    return out


def from_py(s, pv):
    k = s[0]
    if k == 'R':
        return ('l', [from_py(s[1], x) for x in (pv or [])])
    if k == 'P':
        return ('p', [(from_py(s[1], a), from_py(s[2], b)) for a, b in (pv or {}).items()])
    if pv is None:
        return None
    if k == 'U':
        return ('u', int(pv))
    if k == 'B':
        return ('b',) if pv else None
    if k == 'Y':
        return ('y', pv.encode('utf-8') if isinstance(pv, str) else bytes(pv))
    if k == 'N':
        from ndn.encoding import Name
        return ('n', [bytes(c) for c in Name.normalize(pv)])
    if k == 'M':
        return ('m', from_instance(s[3], pv))
    raise ValueError(s)


# ------------------------------------------------------------------ random classes and values
_counter = [0]


def random_schema(rng, depth=0, used=None, allow_map=True):
    """a random list of field schemas with pairwise distinct type numbers (markers interspersed)"""
    used = set() if used is None else used
    n = rng.randint(1, 5 if depth == 0 else 3)
    fs = []

    def fresh_typ():
        while True:
            r = rng.random()
            if r < 0.6:
                t = rng.randint(1, 252)
            elif r < 0.8:
                t = rng.choice([253, 254, 255, 256, 65535, 65536, 65537])
            else:
                t = rng.choice([rng.randint(253, 2 ** 32 - 1), 2 ** 32 - 1, 2 ** 32 - 1, 2 ** 32])
            if t not in used and t != 7:
                used.add(t)
                return t
    for _ in range(n):
        r = rng.random()
        if r < 0.22:
            fs.append(('U', fresh_typ(), rng.choice([None, None, None, 1, 2, 4, 8])))
        elif r < 0.30:
            fs.append(('B', fresh_typ()))
        elif r < 0.50:
            fs.append(('Y', fresh_typ(), rng.random() < 0.4))
        elif r < 0.58 and 7 not in used:
            used.add(7)
            fs.append(('N', 7))
        elif r < 0.74 and depth < 3:
            sub = random_schema(rng, depth + 1, set(), allow_map)
            fs.append(('M', fresh_typ(), rng.random() < 0.2, sub, None))
        elif r < 0.90:
            er = rng.random()
            if er < 0.35:
                e = ('U', fresh_typ(), rng.choice([None, None, 2]))
            elif er < 0.6:
                e = ('Y', fresh_typ(), rng.random() < 0.3)
            elif er < 0.7 and 7 not in used:
                used.add(7)
                e = ('N', 7)
            elif depth < 3:
                e = ('M', fresh_typ(), False, random_schema(rng, depth + 1, set(), allow_map), None)
            else:
                e = ('B', fresh_typ())
            fs.append(('R', e))
        elif r < 0.95 and allow_map:
            kk = ('U', fresh_typ(), None) if rng.random() < 0.5 else ('Y', fresh_typ(), True)
            vr = rng.random()
            if vr < 0.35:
                vv = ('U', fresh_typ(), None)
            elif vr < 0.5 and 7 not in used:
                used.add(7)           # a NameField value: the one field kind whose parse_from reads from offset_btl
                vv = ('N', 7)
            elif vr < 0.8 or depth >= 3:
                vv = ('Y', fresh_typ(), False)
            else:
                vv = ('M', fresh_typ(), False, random_schema(rng, depth + 1, set(), allow_map), None)
            fs.append(('P', kk, vv))
        else:
            fs.append(('K',))
    return fs


def build_class(fs):
    """create the Python TlvModel class for a schema; returns (cls, fs-with-classes)"""
    _counter[0] += 1
    attrs = {}
    out = []
    for i, s in enumerate(fs):
        f, s2 = _build_field(s)
        attrs[f'f{i}'] = f
        out.append(s2)
    cls = type(f'Gen{_counter[0]}', (tm.TlvModel,), attrs)
    return cls, out


def _build_field(s):
    k = s[0]
    if k == 'U':
        return tm.UintField(s[1], fixed_len=s[2]), s
    if k == 'B':
        return tm.BoolField(s[1]), s
    if k == 'Y':
        return tm.BytesField(s[1], is_string=s[2]), s
    if k == 'N':
        return tm.NameField(), s
    if k == 'M':
        cls, sub = build_class(s[3])
        return tm.ModelField(s[1], cls, ignore_critical=s[2]), ('M', s[1], s[2], sub, cls)
    if k == 'R':
        e, se = _build_field(s[1])
        return tm.RepeatedField(e), ('R', se)
    if k == 'P':
        a, sa = _build_field(s[1])
        b, sb = _build_field(s[2])
        return tm.MapField(a, b), ('P', sa, sb)
    return tm.ProcedureArgument(), s


UINT_EDGES = [0, 1, 0xFC, 0xFD, 0xFF, 0x100, 0xFFFF, 0x10000, 0xFFFFFFFF, 0x100000000, 2 ** 64 - 1]
LEN_EDGES = [0, 1, 252, 253, 254, 255, 256]
TEXT_BITS = ['a', 'é', '€', '𝄞', 'Σ', '/', ' ', '\x00', 'z' * 7,
             # characters that text codecs / line handling treat specially (a decoder using utf-8-sig eats a leading U+FEFF)
             '\ufeff', '\ufeff', '\ufffe', '\ufffd', '\u2028', '\r', '\n', '\x7f', '\x85', '\ud7ff', '\ue000', '\U0010ffff', 'e\u0301']


def random_bytes(rng, big=False):
    r = rng.random()
    if r < 0.35:
        n = rng.randint(0, 12)
    elif r < 0.8:
        n = rng.choice(LEN_EDGES) + rng.choice([0, 0, 1])
    elif big:
        n = rng.choice([65535, 65536, 65537, 70000])
    else:
        n = rng.randint(0, 400)
    return bytes(rng.getrandbits(8) for _ in range(min(n, 16))) * (n // 16 + 1) if n > 64 else bytes(rng.getrandbits(8) for _ in range(n))


def random_text(rng):
    if rng.random() < 0.15:
        # UTF-8 length next to 253 (character count far below it for the multi-byte characters)
        ch = rng.choice(['a', 'é', '€', '𝄞'])
        w = len(ch.encode('utf-8'))
        target = rng.choice([250, 251, 252, 253, 254, 255, 256])
        return (ch * (target // w) + 'a' * (target % w)).encode('utf-8')
    return ''.join(rng.choice(TEXT_BITS) for _ in range(rng.randint(0, 6))).encode('utf-8')


def gen_comp(v, t=8):
    """one encoded name component, written from the NDN packet format (Type, Length, Value), not with the library"""
    v = bytes(v)
    return tl(t) + tl(len(v)) + v


def random_comp(rng):
    t = rng.choice([8, 8, 8, 1, 2, 32, 50, 253, 65535])
    n = 32 if t in (1, 2) else rng.choice([0, 1, 3, 10])
    return gen_comp(bytes(rng.getrandbits(8) for _ in range(n)), t)


def random_value(rng, s, present=0.8, big=False):
    k = s[0]
    if k == 'K':
        return None
    if k == 'R':
        return ('l', [random_value(rng, s[1], 1.0, big) for _ in range(rng.choice([0, 1, 2, 3]))])
    if k == 'P':
        es, seen = [], set()
        for _ in range(rng.choice([0, 1, 2, 3])):
            a = random_value(rng, s[1], 1.0)
            key = value_text(a)
            if key in seen:
                continue
            seen.add(key)
            es.append((a, random_value(rng, s[2], 1.0)))
        return ('p', es)
    if rng.random() > present:
        return None
    if k == 'U':
        fl = s[2]
        v = rng.choice(UINT_EDGES) if rng.random() < 0.7 else rng.getrandbits(rng.choice([3, 8, 16, 32, 64]))
        if fl is not None:
            v %= 256 ** fl
        return ('u', v)
    if k == 'B':
        return ('b',)
    if k == 'Y':
        return ('y', random_text(rng) if s[2] else random_bytes(rng, big))
    if k == 'N':
        if rng.random() < 0.15:
            # total size near the point where the Name's Length (or an enclosing one) changes form
            total = rng.choice([250, 251, 252, 253, 254, 255, 256]) + rng.choice([-4, 0, 0, 3])
            n = total - 2 if total - 2 < 253 else total - 4
            return ('n', [random_comp(rng), gen_comp(bytes(rng.getrandbits(8) for _ in range(max(n, 0))), 8)][rng.choice([0, 1]):])
        return ('n', [random_comp(rng) for _ in range(rng.choice([0, 1, 2, 4]))])
    if k == 'M':
        return ('m', [random_value(rng, x, present, big) for x in s[3]])
    raise ValueError(s)


def strip_classes(s):
    """JSON-serialisable copy of a schema (drops class objects)"""
    k = s[0]
    if k == 'M':
        return ['M', s[1], s[2], [strip_classes(x) for x in s[3]]]
    if k == 'R':
        return ['R', strip_classes(s[1])]
    if k == 'P':
        return ['P', strip_classes(s[1]), strip_classes(s[2])]
    return list(s)


def unstrip(s):
    k = s[0]
    if k == 'M':
        return ('M', s[1], s[2], [unstrip(x) for x in s[3]], None)
    if k == 'R':
        return ('R', unstrip(s[1]))
    if k == 'P':
        return ('P', unstrip(s[1]), unstrip(s[2]))
    return tuple(s)


def jval(v):
    """JSON-serialisable copy of a value tuple"""
    if v is None:
        return None
    k = v[0]
    if k == 'y':
        return ['y', bytes(v[1]).hex()]
    if k == 'n':
        return ['n', [bytes(c).hex() for c in v[1]]]
    if k in ('m', 'l'):
        return [k, [jval(x) for x in v[1]]]
    if k == 'p':
        return ['p', [[jval(a), jval(b)] for a, b in v[1]]]
    return list(v)


def unjval(v):
    if v is None:
        return None
    k = v[0]
    if k == 'y':
        return ('y', bytes.fromhex(v[1]))
    if k == 'n':
        return ('n', [bytes.fromhex(c) for c in v[1]])
    if k in ('m', 'l'):
        return (k, [unjval(x) for x in v[1]])
    if k == 'p':
        return ('p', [(unjval(a), unjval(b)) for a, b in v[1]])
    return tuple(v)


# ------------------------------------------------------------------ independent reference encoder
def tl(n):
    if n <= 0xFC:
        return bytes([n])
    if n <= 0xFFFF:
        return b'\xfd' + n.to_bytes(2, 'big')
    if n <= 0xFFFFFFFF:
        return b'\xfe' + n.to_bytes(4, 'big')
    return b'\xff' + n.to_bytes(8, 'big')


def ref_encode(s, v):
    """written from the NDN TLV specification, independent of the library: shortest T and L, smallest legal
    integer width (or the fixed width), fields in declared order"""
    k = s[0]
    if k == 'K':
        return b''
    if k == 'R':
        return b''.join(ref_encode(s[1], x) for x in (v[1] if v else []))
    if k == 'P':
        return b''.join(ref_encode(s[1], a) + ref_encode(s[2], b) for a, b in (v[1] if v else []))
    if v is None:
        return b''
    if k == 'U':
        w = s[2]
        if w is None:
            w = 1 if v[1] < 2 ** 8 else 2 if v[1] < 2 ** 16 else 4 if v[1] < 2 ** 32 else 8
        return tl(s[1]) + tl(w) + v[1].to_bytes(w, 'big')
    if k == 'B':
        return tl(s[1]) + tl(0)
    if k == 'Y':
        return tl(s[1]) + tl(len(v[1])) + v[1]
    if k == 'N':
        body = b''.join(v[1])
        return tl(7) + tl(len(body)) + body
    if k == 'M':
        body = b''.join(ref_encode(x, y) for x, y in zip(s[3], v[1]))
        return tl(s[1]) + tl(len(body)) + body
    raise ValueError(s)
